"""C08 - upstream connection reuse never sends a request to the wrong destination.

Decided:
  R08.1 GetHttpConnection.connection_spec_matches is False whenever the candidate is not a Server or ANY ONE dataclass
        field of GetHttpConnection (address, tls, via, transport_protocol - read from the class on every run) differs
        from the same-named attribute of the candidate (decision table: one row per field + the isinstance row).
        The predicate's AST is interpreted (pyint) on (request, candidate) pairs that agree everywhere except in one field,
        both directions, over representative values (other host, other port, tls on/off, no/other upstream proxy by
        scheme, host and port, tcp/udp) - so a rewritten predicate (early returns, unpacked or normalised address, helper
        calls) is analysed, not refused; when it is a plain conjunction of field equalities the symbolic path table
        (equality atoms, all values) must agree too.  Host names differing only in case are not sampled as "different".
  R08.2 HttpLayer.get_connection (path enumeration, conditions as named atoms): inside the reuse loop a connection is
        handed out / waited on / its error reported only in an iteration where connection_spec_matches(connection) was
        true, and handed out only if it is not still being established and is connected; the context connection is
        reused (no new Server created) only when connection_spec_matches(self.context.server) holds (table over the
        three inputs of that decision) and its error is reported only then; a new Server is built from event.address /
        event.transport_protocol, gets event.via iff event.via, gets a TLS/QUIC layer iff event.tls, and is registered
        in connections and waiting_for_establishment.
  R08.3 HttpStream.make_server_connection builds GetHttpConnection from the flow's CURRENT request host/port/scheme and
        server_conn via/transport_protocol (argument -> field source table), binds context.server and flow.server_conn
        to the returned connection on success only, and returns False on error.
  R08.4 connection.Server.__setattr__: raises iff name in {address, via} and the connection is OPEN and the value
        changes (decision table name x open x changed); otherwise stores the value.
  R08.5 HttpLayer.register_connection takes the waiters out of waiting_for_establishment, answers every waiter exactly
        once, with (None, err) iff the attempt failed and (connection, None) otherwise.
NOT decided: that HttpStream only ever sends on context.server after make_server_connection succeeded (C03 explores the
order of GetHttpConnection and sends), what addons do to connections, Connection.__eq__.
"""

from __future__ import annotations

import ast
import itertools

from ..core import AnalysisError
from ..core import norm
from ..model import attr_chain
from ..model import eval_order
from ..model import last_attr
from ..paths import C
from ..paths import R
from ..paths import is_const
from ..selftest import Mutant
from ._helpers_A import ASpec
from ._helpers_A import compare_pair
from ._helpers_A import dataclass_fields
from ._helpers_A import is_self_call
from ._helpers_A import isinstance_of
from ._helpers_A import loops_over
from ._helpers_A import method_call_on
from ._helpers_A import params_of
from ._helpers_A import proj
from ._helpers_A import run_block
from ._helpers_A import show
from ._helpers_A import truthiness_atom

PROP = "C08"
REG = {
    "strength": "partial",
    "technique": "interpretation of the match predicate's AST over spec pairs differing in one field + decision tables over condition atoms (match predicate, __setattr__ guard), CFG path enumeration with control-dependence facts, argument->field source table",
    "claim": "connection_spec_matches compares every field of GetHttpConnection; get_connection hands out / waits on / creates connections only "
    "under a successful match and builds new Servers from the request's own spec; make_server_connection asks for the flow's current destination "
    "and binds the result; Server.address/via cannot change while OPEN; failed attempts answer waiters with an error.",
    "note": "Connection equality / hashing and the layers below are trusted; one loop iteration is representative (loop body has no cross-iteration state).",
}

I = "mitmproxy/proxy/layers/http/__init__.py"
CONN = "mitmproxy/connection.py"


# ---------------------------------------------------------------------------------------------------
def _spec_domain(ctx, cls, fields):
    """Representative values per GetHttpConnection field: base value + alternatives that name a DIFFERENT destination (host names that differ
    only in case are deliberately not among them: DNS names are case-insensitive, so a predicate may or may not tell them apart)."""
    import collections

    SS = collections.namedtuple("ServerSpec", "scheme address")  # stands for mitmproxy.net.server_spec.ServerSpec (a NamedTuple)
    dom = {
        "address": [("example.com", 8080), ("other.org", 8080), ("example.com", 8081)],
        "tls": [False, True],
        "via": [None, SS("http", ("proxy.local", 3128)), SS("https", ("proxy.local", 3128)), SS("http", ("proxy2.local", 3128)), SS("http", ("proxy.local", 3129))],
        "transport_protocol": ["tcp", "udp"],
    }
    ann = {st.target.id: norm(st.annotation) for st in cls.body if isinstance(st, ast.AnnAssign) and isinstance(st.target, ast.Name)}
    for f in fields:
        if f in dom:
            continue
        a = ann.get(f, "")
        if a == "bool":
            dom[f] = [False, True]
        elif a in ("str", "str | None"):
            dom[f] = ["a.example", "b.example"] + ([None] if "None" in a else [])
        elif a in ("int", "int | None"):
            dom[f] = [1, 2] + ([None] if "None" in a else [])
        else:
            raise AnalysisError(f"GetHttpConnection has a new field `{f}: {a}` for which R08.1 has no representative values (extend _spec_domain)")
    return dom


def _r081_paths(ctx, fn, fields, cand):
    """Symbolic reading of the predicate (equality atoms over all values).  {row: bool} or None when the predicate has a shape the atoms do not cover."""

    def atom(expr, st, sp):
        io = isinstance_of(expr)
        if io and isinstance(io[0], ast.Name) and io[0].id == cand and io[1] == ["Server"]:
            return ("IS", True)
        cp = compare_pair(expr, (ast.Eq, ast.NotEq))
        if cp:
            a, b = attr_chain(cp[0]), attr_chain(cp[1])
            for f in fields:
                if {a, b} == {f"self.{f}", f"{cand}.{f}"}:
                    return ("EQ_" + f, isinstance(cp[2], ast.Eq))
        return None

    out = {}
    try:
        sc = {"IS": True}
        sc.update({"EQ_" + f: True for f in fields})
        traces, _ = run_block(fn.body, ASpec(atom=atom, scenario=sc), {cand: ("param", cand)})
        res = {s.get("$ret") for _, how, s in traces}
        if not traces or C(False) in res:
            return None  # not understood through equality atoms alone
        for name in ["IS"] + ["EQ_" + f for f in fields]:
            sc = {"IS": True}
            sc.update({"EQ_" + f: True for f in fields})
            sc[name] = False
            traces, _ = run_block(fn.body, ASpec(atom=atom, scenario=sc), {cand: ("param", cand)})
            ctx.cells += 1
            if not traces:
                return None
            res = {s.get("$ret") for _, how, s in traces if how == "return"}
            out[name] = (res == {C(False)} and all(how == "return" for _, how, _ in traces), sorted(map(str, res)))
    except AnalysisError:
        return None
    return out


def _r081(ctx):
    """The predicate is *interpreted* (pyint) on pairs (request spec, candidate connection) that are equal except for exactly one field - so a
    rewritten predicate (early returns, unpacked address, normalised host, helper) is analysed like the one-expression original; where the
    predicate is a plain conjunction of equalities the symbolic path reading (all values, not only representatives) is checked as well."""
    from ..pyint import Interp
    from ..pyint import Raised
    from ..pyint import Rec

    cls = ctx.model.cls(I, "GetHttpConnection")
    fields = dataclass_fields(cls)
    ctx.require(any("dataclass" in norm(d) for d in cls.decorator_list), "GetHttpConnection is not a dataclass any more")
    ctx.require({"address", "tls", "via", "transport_protocol"} <= set(fields), f"GetHttpConnection fields changed: {fields}")
    fn = ctx.func(I, "GetHttpConnection.connection_spec_matches")
    ps = params_of(fn)
    ctx.require(len(ps) == 1, "connection_spec_matches signature changed")
    cand = ps[0]
    w = (I, "GetHttpConnection.connection_spec_matches", fn)
    dom = _spec_domain(ctx, cls, fields)

    def run(want, have, cand_cls="Server"):
        it = Interp(ctx.model)
        me = Rec("GetHttpConnection", _bases=("HttpCommand", "Command"), _impl=(I, "GetHttpConnection"), **want)
        other = Rec(cand_cls, _bases=("Connection",), _name="candidate", **have)
        ctx.cells += 1
        try:
            return bool(it.truthy(it.method(me, "connection_spec_matches", other)))
        except Raised as r:
            raise AnalysisError(f"connection_spec_matches raises {r} on request {want} / candidate {have} (R08.1 domain)")

    bases = []
    for i in range(max(len(v) for k, v in dom.items() if k != "address")):
        b = {f: dom[f][min(i, len(dom[f]) - 1)] for f in fields}
        b["address"] = dom["address"][0]
        if b not in bases:
            bases.append(b)
    for b in bases:
        ctx.require(run(b, dict(b)), f"connection_spec_matches is False although request and connection agree in every field ({b}) - predicate not understood")
    sym = _r081_paths(ctx, fn, fields, cand)
    if sym is None:
        ctx.note("connection_spec_matches is not a plain conjunction of field equalities: decided by interpretation on representative spec pairs only")

    # row: candidate is not a Server
    wit = next((b for b in bases if run(b, dict(b), cand_cls="Client")), None)
    ok = wit is None and (sym is None or sym["IS"][0])
    how = "" if ok else (f"a Client with spec {wit}" if wit else f"result {sym['IS'][1]}")
    ctx.check(ok, "R08.1", w, "match when the candidate is not a Server",
              f"connection_spec_matches can be true although the candidate is not a Server - a request would be sent on a connection to a different destination ({how})",
              desc="connection_spec_matches is False when the candidate is not a Server")
    for f in fields:
        wit = None
        n = 0
        for b in bases:
            for a1, a2 in itertools.permutations(dom[f], 2):
                want, have = dict(b), dict(b)
                want[f], have[f] = a1, a2
                n += 1
                if wit is None and run(want, have):
                    wit = (a1, a2, b)
        ok = wit is None and (sym is None or sym["EQ_" + f][0])
        if wit is not None:
            how = f"request {f}={wit[0]!r} matches a connection with {f}={wit[1]!r} (all other fields equal: {({k: v for k, v in wit[2].items() if k != f})})"
        elif not ok:
            how = f"result {sym['EQ_' + f][1]}"
        else:
            how = ""
        ctx.check(ok, "R08.1", w, f"match when field `{f}` differs",
                  f"connection_spec_matches can be true although field `{f}` differs - a request would be sent on a connection to a different destination ({how})",
                  desc=f"connection_spec_matches is False when field `{f}` differs ({n} interpreted spec pairs{', + symbolic row' if sym else ''})")
    ctx.expect_instances("R08.1", 5)


# ---------------------------------------------------------------------------------------------------
def _gc_spec(ev, loopvar, scenario):
    def conn_tag(e):
        if isinstance(e, ast.Name) and e.id == loopvar:
            return "loop"
        if isinstance(e, ast.Constant) and e.value is None:
            return "None"
        return attr_chain(e) or norm(e)

    def val(expr, st, sp):
        if isinstance(expr, ast.Call) and isinstance(expr.func, ast.Attribute) and expr.func.attr == "connection_spec_matches" and len(expr.args) == 1:
            if attr_chain(expr.func.value) != ev:
                raise AnalysisError(f"connection_spec_matches called on {norm(expr.func.value)}, not on the request being served")
            return ("match", conn_tag(expr.args[0]))
        return None

    def label(node, st, sp):
        out = []
        for n in eval_order(node):
            if isinstance(n, ast.Call):
                if last_attr(n.func) == "GetHttpConnectionCompleted" and len(n.args) == 2:
                    t = n.args[1]
                    if not (isinstance(n.args[0], ast.Name) and n.args[0].id == ev and isinstance(t, ast.Tuple) and len(t.elts) == 2):
                        raise AnalysisError(f"unmodelled completion {norm(n)}")
                    e1 = t.elts[1]
                    err = "None" if isinstance(e1, ast.Constant) and e1.value is None else ("loop.error" if attr_chain(e1) == f"{loopvar}.error" else attr_chain(e1) or norm(e1))
                    out.append(("complete", conn_tag(t.elts[0]), err))
                elif isinstance(n.func, ast.Attribute) and n.func.attr == "append" and isinstance(n.func.value, ast.Subscript) and attr_chain(n.func.value.value) == "self.waiting_for_establishment":
                    out.append(("wait", conn_tag(n.func.value.slice), norm(n.args[0]) if n.args else "?"))
        if isinstance(node, ast.Assign):
            for t in node.targets:
                ch = attr_chain(t)
                if ch == "context.server":
                    v = node.value
                    if isinstance(v, ast.Call) and last_attr(v.func) == "Server" and not v.args:
                        out.append(("new_server", tuple(sorted((k.arg, attr_chain(k.value) or norm(k.value)) for k in v.keywords))))
                    else:
                        out.append(("new_server", ("?", norm(v))))
                elif ch.startswith("context.server."):
                    out.append(("set", ch, attr_chain(node.value) or "<expr>"))
                elif isinstance(t, ast.Subscript) and attr_chain(t.value) == "self.connections":
                    out.append(("register", conn_tag(t.slice), norm(node.value)))
        elif isinstance(node, ast.AugAssign) and isinstance(node.op, ast.Div) and isinstance(node.target, ast.Name) and isinstance(node.value, ast.Call):
            out.append(("push", attr_chain(node.value.func)))
        return out

    def atom(expr, st, sp):
        if isinstance(expr, ast.Name) or isinstance(expr, ast.Call):
            v = sp.v(expr, st)
            if isinstance(v, tuple) and v and v[0] == "match":
                return ({"loop": "M", "self.context.server": "MC"}.get(v[1], "M?" + v[1]), True)
        cp = compare_pair(expr, (ast.In, ast.NotIn))
        if cp:
            pos = isinstance(cp[2], ast.In)
            if isinstance(cp[0], ast.Name) and cp[0].id == loopvar and attr_chain(cp[1]) == "self.waiting_for_establishment":
                return ("W", pos)
            if attr_chain(cp[0]) == "self.context.server" and attr_chain(cp[1]) == "self.connections":
                return ("CTXIN", pos)
        for chain, name in ((f"{loopvar}.error", "ERR"), (f"{loopvar}.connected", "CONN"), ("self.context.server.connected", "CTXCONN"),
                            ("self.context.server.error", "CTXERR"), (f"{ev}.via", "VIA"), (f"{ev}.tls", "TLS")):
            p = truthiness_atom(expr, chain)
            if p is not None:
                return (name, p)
        return None

    return ASpec(label=label, atom=atom, scenario=scenario, val=val, unroll=1, loop_events=True)


def _r082(ctx):
    fn = ctx.func(I, "HttpLayer.get_connection")
    ps = params_of(fn)
    ctx.require(ps[:1] and "reuse" in ps, "HttpLayer.get_connection signature changed")
    ev = ps[0]
    loops = loops_over(fn, lambda it: attr_chain(it) == "self.connections" or (isinstance(it, ast.Call) and attr_chain(it.func) in ("list", "tuple", "self.connections.keys") and "self.connections" in norm(it)))
    ctx.require(len(loops) == 1 and isinstance(loops[0].target, ast.Name), "get_connection: expected one reuse loop over self.connections")
    loopvar = loops[0].target.id
    w = (I, "HttpLayer.get_connection", fn)

    # (a) reuse loop: control dependence on the match
    sp = _gc_spec(ev, loopvar, {})
    traces, _ = run_block(fn.body, sp, {ev: ("param", ev), "reuse": C(True)})
    ctx.paths += len(traces)
    ctx.require(traces, "get_connection: no path")
    seen = {"handout": 0, "wait": 0, "error": 0}
    prob = {}
    for tr, how, _ in traces:
        conds = {}
        inloop = False
        for t in tr:
            if t[0] == "loop":
                inloop = t[2]
                conds = {}
            elif t[0] == "cond":
                conds[t[1]] = t[2]
            elif inloop and t[0] == "complete" and t[1] == "loop":
                seen["handout"] += 1
                if conds.get("M") is not True:
                    prob.setdefault("hand-out under match", "an existing connection is handed to the request without connection_spec_matches(connection) being true in this iteration")
                elif conds.get("W") is not False:
                    prob.setdefault("hand-out while establishing", "a connection that is still being established (in waiting_for_establishment) is handed out")
                elif conds.get("CONN") is not True:
                    prob.setdefault("hand-out connected", "a connection that is not connected is handed out for reuse")
            elif inloop and t[0] == "wait" and t[1] == "loop":
                seen["wait"] += 1
                if conds.get("M") is not True:
                    prob.setdefault("wait under match", "the request waits for a pending connection whose spec was not matched")
            elif inloop and t[0] == "complete" and t[1] == "None":
                seen["error"] += 1
                if conds.get("M") is not True or t[2] != "loop.error" or conds.get("ERR") is not True:
                    prob.setdefault("error under match", "the request is failed with the error of a connection that was not matched / has no error")
            elif inloop and t[0] in ("complete", "wait", "register", "new_server"):
                prob.setdefault("loop effect", f"unmodelled effect inside the reuse loop: {t}")
    ctx.require(prob or all(seen.values()), f"get_connection: reuse-loop outcomes not all found: {seen}")
    kind_of = {"hand-out": "handout", "wait": "wait", "error": "error", "loop": "handout"}
    for k, n in seen.items():
        mine = {c: y for c, y in prob.items() if kind_of[c.split()[0]] == k}
        for cons, why in mine.items():
            ctx.fail("R08.2", w, f"reuse loop: {cons}", why)
        if not mine:
            ctx.ok("R08.2", f"reuse loop {k}: control-dependent on connection_spec_matches(connection) on {n} path-sites")

    # (b) context connection + (c) new server
    n_new = n_reuse = 0
    for MC, CTXIN, CTXCONN in itertools.product((True, False), repeat=3):
        sp = _gc_spec(ev, loopvar, {"MC": MC, "CTXIN": CTXIN, "CTXCONN": CTXCONN})
        traces, _ = run_block(fn.body, sp, {ev: ("param", ev), "reuse": C(False)})
        ctx.paths += len(traces)
        ctx.cells += 1
        ctx.require(traces, "get_connection: no path (reuse=False)")
        prob = {}
        for tr, how, _ in traces:
            if how != "return":
                continue
            eff = proj(tr, ("complete", "wait", "new_server", "set", "push", "register"))
            conds = {t[1]: t[2] for t in tr if t[0] == "cond"}
            errs = [t for t in eff if t[0] == "complete"]
            if errs:
                if errs != [("complete", "None", "self.context.server.error")] or not MC or conds.get("CTXERR") is not True or len(eff) != 1:
                    prob.setdefault("context error", (f"the request is failed with the context connection's error although its spec does not match (or an unmodelled completion): {errs}", eff))
                continue
            regs = [t for t in eff if t[0] == "register"]
            waits = [t for t in eff if t[0] == "wait"]
            if len(regs) != 1 or regs[0][1] != "context.server" or len(waits) != 1 or waits[0][1] != "context.server" or waits[0][2] != ev:
                prob.setdefault("registration", (f"a new attempt must be registered in connections[context.server] and the request appended to waiting_for_establishment[context.server] (saw {regs} {waits})", eff))
                continue
            news = [t for t in eff if t[0] == "new_server"]
            if not news:
                n_reuse += 1
                if not MC:
                    prob.setdefault("context connection reuse", ("the context's server connection is used for the request although connection_spec_matches(self.context.server) is false "
                                                                 "- the request would go to the context's destination instead of its own", eff))
                continue
            n_new += 1
            if news != [("new_server", (("address", f"{ev}.address"), ("transport_protocol", f"{ev}.transport_protocol")))]:
                prob.setdefault("new server spec", (f"a new Server must be built from the request's address and transport_protocol (saw {news})", eff))
            i0 = eff.index(news[0])
            via = [t for t in eff if t[0] == "set" and t[1] == "context.server.via"]
            if conds.get("VIA") is True:
                if via != [("set", "context.server.via", f"{ev}.via")] or eff.index(via[0]) < i0:
                    prob.setdefault("new server via", (f"the request asks for an upstream proxy but the new Server does not get via = {ev}.via (saw {via})", eff))
            elif via:
                prob.setdefault("new server via", (f"the request asks for no upstream proxy but the new Server gets one: {via}", eff))
            if any(t[0] == "set" and t[1] in ("context.server.address", "context.server.transport_protocol") for t in eff):
                prob.setdefault("new server spec", ("address / transport_protocol of the new Server are overwritten after construction", eff))
            tls = [t for t in eff if t[0] == "push" and t[1].split(".")[-1] in ("ServerTLSLayer", "ServerQuicLayer")]
            if conds.get("TLS") is True and len(tls) != 1:
                prob.setdefault("new server tls", ("the request asks for TLS but no TLS/QUIC layer is put on the new connection - an https request would be sent in clear", eff))
            if conds.get("TLS") is False and tls:
                prob.setdefault("new server tls", ("the request asks for no TLS but a TLS layer is put on the new connection", eff))
            if "TLS" not in conds:
                prob.setdefault("new server tls", ("event.tls is not consulted when building the new connection", eff))
        for cons, (why, eff) in prob.items():
            ctx.fail("R08.2", w, f"{cons} [spec_matches(context.server)={MC} already_registered={CTXIN} connected={CTXCONN}]", f"{why}; trace: {show(eff)}")
        if not prob:
            ctx.ok("R08.2", f"fall-through spec_matches(context.server)={MC} already_registered={CTXIN} connected={CTXCONN}: {len(traces)} paths")
    ctx.require(n_new and n_reuse, f"get_connection: new-server / context-reuse paths not found ({n_new}/{n_reuse})")
    ctx.expect_instances("R08.2", 11)


# ---------------------------------------------------------------------------------------------------
def _r083(ctx):
    fn = ctx.func(I, "HttpStream.make_server_connection")
    w = (I, "HttpStream.make_server_connection", fn)
    fields = dataclass_fields(ctx.model.cls(I, "GetHttpConnection"))
    calls = [n for n in ast.walk(fn) if isinstance(n, ast.Call) and last_attr(n.func) == "GetHttpConnection"]
    ctx.require(len(calls) == 1 and isinstance(getattr(calls[0], "_parent", None), ast.Yield), "make_server_connection: expected exactly one `yield GetHttpConnection(...)`")
    call = calls[0]
    args = dict(zip(fields, call.args))
    for k in call.keywords:
        ctx.require(k.arg in fields, f"GetHttpConnection called with unknown keyword {k.arg}")
        args[k.arg] = k.value

    def src(e):
        if isinstance(e, ast.Tuple):
            return tuple(src(x) for x in e.elts)
        cp = compare_pair(e, (ast.Eq,))
        if cp and isinstance(cp[1], ast.Constant):
            return (attr_chain(cp[0]), "==", cp[1].value)
        if cp and isinstance(cp[0], ast.Constant):
            return (attr_chain(cp[1]), "==", cp[0].value)
        return attr_chain(e) or ("?", norm(e))

    want = {
        "address": ("self.flow.request.host", "self.flow.request.port"),
        "tls": ("self.flow.request.scheme", "==", "https"),
        "via": "self.flow.server_conn.via",
        "transport_protocol": "self.flow.server_conn.transport_protocol",
    }
    for f, exp in want.items():
        got = src(args[f]) if f in args else None
        ctx.require(not (isinstance(got, tuple) and "?" in [got[0]] + [g[0] for g in got if isinstance(g, tuple)]), f"make_server_connection: source of GetHttpConnection.{f} has a shape that is not modelled: {got}")
        ctx.check(got == exp, "R08.3", w, f"GetHttpConnection.{f} source",
                  f"the connection request's `{f}` must come from the flow's current {exp} (an addon may have rewritten the destination), saw {got}",
                  desc=f"GetHttpConnection.{f} <- {exp}")
    # result binding
    tgt = getattr(call, "_parent")._parent
    ctx.require(isinstance(tgt, ast.Assign) and isinstance(tgt.targets[0], ast.Tuple) and len(tgt.targets[0].elts) == 2 and all(isinstance(e, ast.Name) for e in tgt.targets[0].elts),
                "make_server_connection: reply is not unpacked as (connection, err)")
    cvar, evar = (e.id for e in tgt.targets[0].elts)

    def label(node, st, sp):
        out = []
        if isinstance(node, ast.Assign):
            for t in node.targets:
                ch = attr_chain(t)
                if ch in ("self.context.server", "self.flow.server_conn"):
                    out.append(("bind", ch, attr_chain(node.value) or norm(node.value)))
        return out

    def atom(expr, st, sp):
        if isinstance(expr, ast.Name) and expr.id == evar:
            return ("ERR", True)
        cp = compare_pair(expr, (ast.Is, ast.IsNot))
        if cp and isinstance(cp[0], ast.Name) and cp[0].id == evar and isinstance(cp[1], ast.Constant) and cp[1].value is None:
            return ("ERR", isinstance(cp[2], ast.IsNot))
        return None

    for ERR in (False, True):
        traces, _ = run_block(fn.body, ASpec(label=label, atom=atom, scenario={"ERR": ERR}))
        ctx.paths += len(traces)
        ctx.require(traces, "make_server_connection: no path")
        for tr, how, s in traces:
            binds = sorted(t for t in tr if t[0] == "bind")
            ret = s.get("$ret")
            if ERR:
                ok = not binds and ret == C(False) and how == "return"
                why = "on a failed connection attempt nothing may be bound and False must be returned"
            else:
                ok = binds == [("bind", "self.context.server", cvar), ("bind", "self.flow.server_conn", cvar)] and ret == C(True) and how == "return"
                why = "on success context.server and flow.server_conn must both be bound to the connection that was returned for this request"
            ctx.check(ok, "R08.3", w, f"result binding err={ERR}", f"{why}; saw {binds} return {ret}", desc=f"make_server_connection err={ERR}: {binds or 'no binding'}, returns {ret[1] if is_const(ret) else ret}")
    ctx.expect_instances("R08.3", 6)


# ---------------------------------------------------------------------------------------------------
def _r084(ctx):
    fn = ctx.func(CONN, "Server.__setattr__")
    ps = params_of(fn)
    ctx.require(len(ps) == 2, "Server.__setattr__ signature changed")
    name_p, value_p = ps
    w = (CONN, "Server.__setattr__", fn)

    def is_state_read(e):
        if attr_chain(e) == "self.state":
            return True
        return isinstance(e, ast.Call) and attr_chain(e.func) == "self.__dict__.get" and e.args and isinstance(e.args[0], ast.Constant) and e.args[0].value == "state"

    def is_cur(e):
        if isinstance(e, ast.Call) and attr_chain(e.func) == "self.__dict__.get" and e.args and isinstance(e.args[0], ast.Name) and e.args[0].id == name_p:
            return True
        return isinstance(e, ast.Call) and attr_chain(e.func) == "getattr" and len(e.args) >= 2 and attr_chain(e.args[0]) == "self" and isinstance(e.args[1], ast.Name) and e.args[1].id == name_p

    def atom(expr, st, sp):
        cp = compare_pair(expr, (ast.Is, ast.IsNot, ast.Eq, ast.NotEq))
        if cp:
            pos = isinstance(cp[2], (ast.Is, ast.Eq))
            for a, b in ((cp[0], cp[1]), (cp[1], cp[0])):
                if is_state_read(a) and attr_chain(b) == "ConnectionState.OPEN":
                    return ("OPEN", pos)
                if is_cur(a) and isinstance(b, ast.Name) and b.id == value_p and isinstance(cp[2], (ast.Eq, ast.NotEq)):
                    return ("CHG", not pos)
        return None

    def label(node, st, sp):
        out = []
        for n in eval_order(node):
            if isinstance(n, ast.Call) and isinstance(n.func, ast.Attribute) and n.func.attr == "__setattr__" and isinstance(n.func.value, ast.Call) and last_attr(n.func.value.func) == "super":
                out.append(("store", tuple(attr_chain(a) for a in n.args)))
        return out

    n = 0
    for name in ("address", "via", "peername", "sni", "state"):
        for OPEN in (True, False):
            for CHG in (True, False):
                traces, _ = run_block(fn.body, ASpec(label=label, atom=atom, scenario={"OPEN": OPEN, "CHG": CHG}), {name_p: C(name), value_p: ("param", value_p)})
                ctx.cells += 1
                ctx.require(traces, "Server.__setattr__: no path")
                must_raise = name in ("address", "via") and OPEN and CHG
                outcomes = {("raise" if how.startswith("raise") else "store" if proj(tr, ("store",)) == (("store", (name_p, value_p)),) else "other") for tr, how, _ in traces}
                ok = outcomes == ({"raise"} if must_raise else {"store"})
                n += ok
                if not ok:
                    if must_raise:
                        why = f"server.{name} can be changed while the connection is open - requests already routed to this connection would go to another destination"
                    else:
                        why = f"assignment of {name} (open={OPEN}, changed={CHG}) must simply store the value"
                    ctx.fail("R08.4", w, f"name={name} open={OPEN} changed={CHG}", f"{why}; outcomes {sorted(outcomes)}")
    ctx.ok("R08.4", f"Server.__setattr__ decision table: {n}/20 cells as required (raise iff name in (address, via) and open and changed)")
    ctx.expect_instances("R08.4", 1)


# ---------------------------------------------------------------------------------------------------
def _r085(ctx):
    fn = ctx.func(I, "HttpLayer.register_connection")
    ps = params_of(fn)
    ctx.require(len(ps) == 1, "register_connection signature changed")
    cmd = ps[0]
    w = (I, "HttpLayer.register_connection", fn)

    def val(expr, st, sp):
        if isinstance(expr, ast.Tuple) and len(expr.elts) == 2:
            return ("tuple",) + tuple("None" if isinstance(e, ast.Constant) and e.value is None else (attr_chain(e) or norm(e)) for e in expr.elts)
        if isinstance(expr, ast.Call) and method_call_on(expr, "self.waiting_for_establishment") == "pop" and len(expr.args) == 1 and attr_chain(expr.args[0]) == f"{cmd}.connection":
            return ("waiters",)
        return None

    def label(node, st, sp):
        out = []
        for n in eval_order(node):
            if isinstance(n, ast.Call) and last_attr(n.func) == "GetHttpConnectionCompleted" and len(n.args) == 2:
                a0 = n.args[0]
                p = n
                while p is not None and not isinstance(p, (ast.For, ast.FunctionDef)):
                    p = getattr(p, "_parent", None)
                tag = "loopvar" if isinstance(p, ast.For) and isinstance(a0, ast.Name) and isinstance(p.target, ast.Name) and p.target.id == a0.id and sp.v(p.iter, st) == ("waiters",) else norm(a0)
                out.append(("complete", tag, sp.v(n.args[1], st)))
        return out

    class RS(ASpec):
        def loop_event(self, node, entered, st):
            return ("loop", "waiters" if self.v(node.iter, st) == ("waiters",) else norm(node.iter), entered)

    def atom(expr, st, sp):
        p = truthiness_atom(expr, f"{cmd}.err")
        return ("ERR", p) if p is not None else None

    for ERR in (True, False):
        sp = RS(label=label, atom=atom, scenario={"ERR": ERR}, val=val, unroll=2)
        traces, _ = run_block(fn.body, sp, {cmd: ("param", cmd)})
        ctx.paths += len(traces)
        ctx.require(traces, "register_connection: no path")
        want = ("tuple", "None", f"{cmd}.err") if ERR else ("tuple", f"{cmd}.connection", "None")
        bad = None
        n_it = 0
        for tr, how, _ in traces:
            toks = proj(tr, ("loop", "complete"))
            its = [i for i, t in enumerate(toks) if t[0] == "loop" and t[1] == "waiters"]
            if not its:
                bad = ("waiters", "the requests waiting for this connection are not taken out of waiting_for_establishment and answered", toks)
                continue
            for a, b in zip(its, its[1:] + [len(toks)]):
                seg = [t for t in toks[a + 1 : b] if t[0] == "complete"]
                if toks[a][2]:
                    n_it += 1
                    if len(seg) != 1 or seg[0][1] != "loopvar":
                        bad = ("answer once", f"a waiting request is not answered exactly once (saw {seg})", toks)
                    elif seg[0][2] != want:
                        bad = ("reply", f"waiters must be answered with {want[1:]} when err is {'set' if ERR else 'empty'} (saw {seg[0][2][1:] if isinstance(seg[0][2], tuple) else seg[0][2]})"
                               + (" - a failed connection would be handed out for use" if ERR else ""), toks)
        ctx.require(bad or n_it, "register_connection: waiter loop not explored")
        ctx.check(bad is None, "R08.5", w, f"register_connection err={ERR}: {bad[0] if bad else ''}", f"{bad[1]}; trace: {show(bad[2])}" if bad else "",
                  desc=f"register_connection err={ERR}: every waiter answered once with {want[1:]}")
    ctx.expect_instances("R08.5", 2)


def check(ctx):
    ctx.rule("R08.1", "connection_spec_matches is False if the candidate is not a Server or any GetHttpConnection field differs")
    ctx.rule("R08.2", "get_connection: reuse only under a successful match (and connected, not pending); context connection only under match; new Server built from the request's spec")
    ctx.rule("R08.3", "make_server_connection asks for the flow's current destination and binds the returned connection on success only")
    ctx.rule("R08.4", "Server.__setattr__ refuses to change address/via while OPEN (decision table)")
    ctx.rule("R08.5", "register_connection answers every waiter once, with an error iff the attempt failed")
    ctx.trust("Connection.__eq__/__hash__, dict/defaultdict semantics")
    _r081(ctx)
    _r082(ctx)
    _r083(ctx)
    _r084(ctx)
    _r085(ctx)


MUTANTS = [
    # R08.1
    Mutant("match-ignores-via", I, "            and self.via == connection.via\n", "", "R08.1"),
    Mutant("match-ignores-tls", I, "            and self.tls == connection.tls\n", "", "R08.1"),
    Mutant("match-address-or", I, "            and self.address == connection.address\n            and self.tls == connection.tls\n", "            and (self.address == connection.address\n            or self.tls == connection.tls)\n", "R08.1"),
    Mutant("match-transport-compares-self", I, "self.transport_protocol == connection.transport_protocol", "self.transport_protocol == self.transport_protocol", "R08.1"),
    Mutant("match-rewritten-case-insensitive-loses-tls", I, "        return (\n            isinstance(connection, Server)\n            and self.address == connection.address\n            and self.tls == connection.tls\n",
           "        if not isinstance(connection, Server) or not connection.address:\n            return False\n        host, port = self.address\n        conn_host, conn_port = connection.address[:2]\n"
           "        return (\n            host.lower() == conn_host.lower()\n            and port == conn_port\n", "R08.1"),
    Mutant("match-ignores-port", I, "            and self.address == connection.address\n", "            and self.address[0] == connection.address[0]\n", "R08.1"),
    Mutant("match-tls-one-directional", I, "            and self.tls == connection.tls\n", "            and (connection.tls or not self.tls)\n", "R08.1"),
    Mutant("match-via-presence-only", I, "            and self.via == connection.via\n", "            and bool(self.via) == bool(connection.via)\n", "R08.1"),
    # R08.2
    Mutant("reuse-without-match", I, "                if connection_suitable:\n                    if connection in self.waiting_for_establishment:", "                if connection_suitable or connection.connected:\n                    if connection in self.waiting_for_establishment:", "R08.2"),
    Mutant("reuse-half-closed", I, "                    elif connection.connected:\n                        # see \"tricky", "                    elif connection.connected or True:\n                        # see \"tricky", "R08.2"),
    Mutant("reuse-before-established", I, "                    if connection in self.waiting_for_establishment:\n                        self.waiting_for_establishment[connection].append(event)\n                        return\n                    elif connection.error:",
           "                    if connection.error:", "R08.2"),
    Mutant("context-connection-without-match", I, "            self.context.server not in self.connections\n            and event.connection_spec_matches(self.context.server)\n", "            self.context.server not in self.connections\n", "R08.2"),
    Mutant("new-server-context-address", I, "address=event.address, transport_protocol=event.transport_protocol", "address=self.context.server.address, transport_protocol=event.transport_protocol", "R08.2"),
    Mutant("new-server-drops-via", I, "                context.server.via = event.via\n", "                pass\n", "R08.2"),
    Mutant("new-server-tls-by-mode", I, "            if event.tls:\n                # Assume that we are in transparent mode", "            if self.mode == HTTPMode.transparent:\n                # Assume that we are in transparent mode", "R08.2"),
    # R08.3
    Mutant("getconn-stale-address", I, "            (self.flow.request.host, self.flow.request.port),\n            self.flow.request.scheme == \"https\",\n            self.flow.server_conn.via,",
           "            self.flow.server_conn.address,\n            self.flow.request.scheme == \"https\",\n            self.flow.server_conn.via,", "R08.3"),
    Mutant("getconn-tls-from-context", I, "            self.flow.request.scheme == \"https\",\n            self.flow.server_conn.via,", "            self.context.server.tls,\n            self.flow.server_conn.via,", "R08.3"),
    Mutant("success-does-not-bind-context", I, "            self.context.server = self.flow.server_conn = connection\n            return True", "            self.flow.server_conn = connection\n            return True", "R08.3"),
    # R08.4
    Mutant("setattr-guard-only-address", CONN, "        if name in (\"address\", \"via\"):\n            connection_open", "        if name in (\"address\",):\n            connection_open", "R08.4"),
    Mutant("setattr-guard-closed", CONN, "                is ConnectionState.OPEN\n            )\n            # assigning", "                is ConnectionState.CLOSED\n            )\n            # assigning", "R08.4"),
    Mutant("setattr-guard-never-changed", CONN, "if connection_open and attr_changed:", "if connection_open and not attr_changed:", "R08.4"),
    # R08.5
    Mutant("register-error-hands-out-connection", I, "        if command.err:\n            reply = (None, command.err)\n        else:", "        if not command.connection:\n            reply = (None, command.err)\n        else:", "R08.5"),
    Mutant("register-keeps-waiters", I, "waiting = self.waiting_for_establishment.pop(command.connection)", "waiting = self.waiting_for_establishment[command.connection]", "R08.5"),
]
