"""C08 - upstream connection reuse never sends a request to the wrong destination.

Decided:
  R08.1 GetHttpConnection.connection_spec_matches is False whenever the candidate is not a Server or ANY ONE dataclass
        field of GetHttpConnection (address, tls, via, transport_protocol - read from the class on every run) differs
        from the same-named attribute of the candidate (decision table: one row per field + the isinstance row).
        The predicate's AST is interpreted (pyint) on (request, candidate) pairs that agree everywhere except in one field,
        both directions, over representative values (other host, other port, tls on/off, no/other upstream proxy by
        scheme, host and port, tcp/udp) - so a rewritten predicate (early returns, unpacked or normalised address, helper
        calls) is analysed, not refused; when it is decided by field equalities alone (conjunction, early returns, tuples
        compared element-wise, aliases - read by path enumeration with equality atoms) the symbolic table (all values)
        must agree too.  Host names differing only in case are not sampled as "different".
  R08.2 HttpLayer.get_connection (path enumeration, conditions as named atoms; everything is named by the VALUE it is bound to:
        loop variables, aliases, predicate temporaries, helper parameters - `self.<helper>()` calls are inlined - so
        guard clauses / `continue`, extracted helpers, renamed locals and added logging / assertions read like the
        original; a completion counts where it is handed to event_to_child): inside a loop iteration the loop's connection is
        handed out / waited on / its error reported only in an iteration where connection_spec_matches(connection) was
        true, and handed out only if it is not still being established and is connected; the context connection is
        reused (no new Server created) only when connection_spec_matches(self.context.server) holds (table over the
        three inputs of that decision) and its error is reported only then; a new Server is built from event.address /
        event.transport_protocol, gets event.via iff event.via, gets a TLS/QUIC layer iff event.tls, and is registered
        in connections and waiting_for_establishment.
  R08.3 HttpStream.make_server_connection builds GetHttpConnection from the flow's CURRENT request host/port/scheme and
        server_conn via/transport_protocol (argument -> field source table), binds context.server and flow.server_conn
        to the returned connection on success only, and returns False on error.
  R08.4 connection.Server.__setattr__: raises iff name in {address, via} and the connection is OPEN and the value
        changes; otherwise stores the value.  The method is INTERPRETED (pyint) on concrete Server objects, one world per
        (name, state incl. "not initialised yet", current value, assigned value: same object / equal / different / None), and
        its outcome (raises before storing | stores exactly (name, value)) is compared with that reference - the spelling of the
        guard (literal or module-level set, .get / try-except KeyError / getattr / vars / hasattr, `connected`, helpers,
        early returns, match, object.__setattr__ vs super()) does not matter.  Half-closed states are not constrained for
        address / via (not "open" today; the property does not say).
  R08.5 HttpLayer.register_connection takes the waiters out of waiting_for_establishment, answers every waiter exactly
        once, with (None, err) iff the attempt failed and (connection, None) otherwise.
Assumption of the value-based reading: a predicate bound to a single-assignment temporary is as true where the temporary is
tested as where it was bound.
NOT decided: that HttpStream only ever sends on context.server after make_server_connection succeeded (C03 explores the
order of GetHttpConnection and sends), what addons do to connections, Connection.__eq__.
"""

from __future__ import annotations

import ast
import itertools
from types import SimpleNamespace

from ..core import AnalysisError
from ..core import norm
from ..model import attr_chain
from ..model import eval_order
from ..model import last_attr
from ..paths import C
from ..paths import class_names
from ..paths import Engine
from ..paths import is_const
from ..paths import Out
from ..paths import R
from ..paths import Spec
from ..paths import State
from ..paths import UNKNOWN
from ..selftest import Mutant
from ._helpers_A import ASpec
from ._helpers_A import compare_pair
from ._helpers_A import dataclass_fields
from ._helpers_A import params_of
from ._helpers_A import proj
from ._helpers_A import show

PROP = "C08"
REG = {
    "strength": "partial",
    "technique": "interpretation of the match predicate's AST over spec pairs differing in one field + decision tables over condition atoms (match predicate), interpretation of Server.__setattr__ in concrete worlds (name x state x current/assigned value), CFG path enumeration with control-dependence facts, argument->field source table",
    "claim": "connection_spec_matches compares every field of GetHttpConnection; get_connection hands out / waits on / creates connections only "
    "under a successful match and builds new Servers from the request's own spec; make_server_connection asks for the flow's current destination "
    "and binds the result; Server.address/via cannot change while OPEN; failed attempts answer waiters with an error.",
    "note": "Connection equality / hashing and the layers below are trusted; one loop iteration is representative (loop body has no cross-iteration state).",
}

I = "mitmproxy/proxy/layers/http/__init__.py"
CONN = "mitmproxy/connection.py"


# ---------------------------------------------------------------------------------------------------
# Value-based path analysis.  The rules below name things by what they ARE BOUND TO, not by how they are spelled:
#   * names are resolved in the frame they belong to (helpers inlined by the engine have their own frame),
#   * an attribute chain is canonicalised through the binding of its root (`command.err` inside a helper called with
#     command=event reads `event.err`; the loop variable of a for-loop reads as the symbol the rule gave it),
#   * predicate temporaries (`pending = c in self.waiting`; `if pending:`) and tuple temporaries are deferred and decided /
#     recorded where they are tested, `return <predicate>` of an inlined helper is decided atom by atom,
#   * `x: T = a if c else b` forks like the if/else it abbreviates, a for-loop over a value known to be empty is not entered,
#   * `name in CONSTANT` is decided through the module-level literal.
EMPTY = ("empty",)
_PRED = (ast.Compare, ast.BoolOp)


def sym(name):
    return ("sym", name)


def _is_pred(e):
    return isinstance(e, _PRED) or (isinstance(e, ast.UnaryOp) and isinstance(e.op, ast.Not))


def _is_deferred(v, kind="cexpr"):
    return isinstance(v, tuple) and len(v) == 3 and v[0] == kind


def canon_chain(expr, st, sp):
    """Dotted text of a Name / attribute chain with the root name replaced by its binding: a parameter of the analysed function
    (('param', p) -> p), a reference (R(chain) -> chain), a rule symbol (('sym', s) -> s), None (-> 'None').  Roots without a known
    binding keep their spelling (marked with the frame depth inside inlined helpers, so that they cannot be mistaken for a name of
    the analysed function).  '' when ``expr`` is not such a chain."""
    parts = []
    e = expr
    while isinstance(e, ast.Attribute):
        parts.append(e.attr)
        e = e.value
    if isinstance(e, ast.Constant) and e.value is None and not parts:
        return "None"
    if not isinstance(e, ast.Name):
        return ""
    root = e.id
    if root != "self":
        v = sp.v(e, st)
        if isinstance(v, tuple) and len(v) == 2 and v[0] in ("param", "sym", "r") and isinstance(v[1], str):
            root = v[1]
        elif is_const(v) and v[1] is None and not parts:
            return "None"
        elif sp.cur_depth and sp.is_local(e):
            root = f"{root}@{sp.cur_depth}"
    return ".".join([root] + parts[::-1])


def truthiness_subject(expr):
    """(subject_expr, polarity) for a leaf that tests truthiness / None-ness of one expression: `x`, `bool(x)`, `x is not None`,
    `x != None` -> (x, True); `x is None`, `x == None` -> (x, False); None for everything else."""
    if isinstance(expr, (ast.Name, ast.Attribute)):
        return expr, True
    if isinstance(expr, ast.Call) and isinstance(expr.func, ast.Name) and expr.func.id == "bool" and len(expr.args) == 1 and not expr.keywords:
        return truthiness_subject(expr.args[0])
    if isinstance(expr, ast.Compare) and len(expr.ops) == 1:
        l, r, op = expr.left, expr.comparators[0], expr.ops[0]
        if isinstance(l, ast.Constant) and l.value is None:
            l, r = r, l
        if isinstance(r, ast.Constant) and r.value is None and isinstance(l, (ast.Name, ast.Attribute)):
            if isinstance(op, (ast.IsNot, ast.NotEq)):
                return l, True
            if isinstance(op, (ast.Is, ast.Eq)):
                return l, False
    return None


def _multi_assigned(fn) -> set:
    """Names bound more than once in ``fn`` (parameters count as one binding)."""
    n: dict = {}
    a = fn.args
    for p in a.posonlyargs + a.args + a.kwonlyargs + ([a.vararg] if a.vararg else []) + ([a.kwarg] if a.kwarg else []):
        n[p.arg] = 1
    for x in ast.walk(fn):
        if isinstance(x, ast.Name) and isinstance(x.ctx, (ast.Store, ast.Del)):
            n[x.id] = n.get(x.id, 0) + 1
        elif isinstance(x, ast.ExceptHandler) and x.name:
            n[x.name] = n.get(x.name, 0) + 1
        elif isinstance(x, ast.AugAssign) and isinstance(x.target, ast.Name):
            n[x.target.id] = n.get(x.target.id, 0) + 1
    return {k for k, c in n.items() if c > 1}


class DSpec(ASpec):
    """ASpec whose hooks see values in the right frame (``cur_depth``), with symbolic loop variables (``loop_value(for_node, st, spec)``)
    and unpacking targets (``bind_value(target_name_node, st, spec)``), deferred predicate / tuple temporaries and module-level
    literals (``const_resolver(expr) -> literal node | None``)."""

    cur_depth = 0
    replaying = 0

    def __init__(self, *a, loop_value=None, const_resolver=None, bind_value=None, **kw):
        super().__init__(*a, **kw)
        self._loop_value = loop_value
        self._bind_value = bind_value
        self._const_resolver = const_resolver
        self._synth: dict = {}
        self._multi: dict = {}

    # ---- frames
    def v(self, expr, st):
        return self.value(expr, st, self.cur_depth)

    def at(self, depth, f, *a):
        old = self.cur_depth
        self.cur_depth = depth
        try:
            return f(*a)
        finally:
            self.cur_depth = old

    def events(self, node, st):
        if self.replaying:
            return []  # a deferred predicate is being decided: it was evaluated (and labelled) where it was bound
        return ASpec.events(self, node, st)

    # ---- values
    def value(self, expr, st, depth):
        return self.at(depth, self._value, expr, st, depth)

    def _value(self, expr, st, depth):
        if expr is None:
            return C(None)
        if self._val is not None:
            v = self._val(expr, st, self)
            if v is not None:
                return v
        if isinstance(expr, ast.Attribute):
            c = canon_chain(expr, st, self)
            if c:
                return st.get(c) if st.has(c) else R(c)
        if (isinstance(expr, (ast.List, ast.Tuple, ast.Set)) and not expr.elts) or (isinstance(expr, ast.Dict) and not expr.keys):
            return EMPTY
        if isinstance(expr, ast.Call) and isinstance(expr.func, ast.Name) and expr.func.id in ("list", "tuple", "set", "frozenset", "dict", "sorted", "reversed") and not expr.keywords:
            if not expr.args or (len(expr.args) == 1 and self.value(expr.args[0], st, depth) == EMPTY):
                return EMPTY
        v = Spec.value(self, expr, st, depth)
        if v == UNKNOWN and (_is_pred(expr) or isinstance(expr, ast.Tuple)) and self.defer_ok(expr):
            return ("cexpr" if _is_pred(expr) else "tup", expr, depth)
        return v

    def is_local(self, name_node) -> bool:
        """Is the Name a local of its function (parameter or bound there) rather than a module-level / builtin name?"""
        fn = name_node
        while fn is not None and not isinstance(fn, (ast.FunctionDef, ast.AsyncFunctionDef)):
            fn = getattr(fn, "_parent", None)
        if fn is None:
            return True
        key = ("locals", id(fn))
        if key not in self._multi:
            a = fn.args
            names = {p.arg for p in a.posonlyargs + a.args + a.kwonlyargs + ([a.vararg] if a.vararg else []) + ([a.kwarg] if a.kwarg else [])}
            names |= {x.id for x in ast.walk(fn) if isinstance(x, ast.Name) and isinstance(x.ctx, (ast.Store, ast.Del))}
            names |= {x.name for x in ast.walk(fn) if isinstance(x, ast.ExceptHandler) and x.name}
            self._multi[key] = names
        return name_node.id in self._multi[key]

    def defer_ok(self, expr) -> bool:
        """May the evaluation of ``expr`` be postponed to the place where the temporary holding it is tested?  Only when every local
        name it reads is bound once in its function (so it reads the same objects there)."""
        fn = expr
        while fn is not None and not isinstance(fn, (ast.FunctionDef, ast.AsyncFunctionDef)):
            fn = getattr(fn, "_parent", None)
        if fn is None:
            return False
        if id(fn) not in self._multi:
            self._multi[id(fn)] = _multi_assigned(fn)
        multi = self._multi[id(fn)]
        return not any(isinstance(n, ast.Name) and n.id in multi for n in ast.walk(expr))

    def tuple_elts(self, expr, st, depth):
        if isinstance(expr, ast.Tuple):
            return list(expr.elts)
        if isinstance(expr, ast.Name):
            v = self.value(expr, st, depth)
            if _is_deferred(v, "tup") and v[2] == depth:
                return list(v[1].elts)
        return None

    def truth(self, expr, st, depth):
        # (a, b) == (c, d)  <=>  a == c and b == d  (element-wise equality of plain tuples), also through tuple temporaries
        if isinstance(expr, ast.Compare) and len(expr.ops) == 1 and isinstance(expr.ops[0], (ast.Eq, ast.NotEq)):
            a, b = self.tuple_elts(expr.left, st, depth), self.tuple_elts(expr.comparators[0], st, depth)
            if a is not None and b is not None:
                if len(a) != len(b):
                    return isinstance(expr.ops[0], ast.NotEq)
                key = ("tupeq", id(expr))
                if key not in self._synth:
                    conj = ast.BoolOp(op=ast.And(), values=[ast.Compare(left=x, ops=[ast.Eq()], comparators=[y]) for x, y in zip(a, b)])
                    for n in ast.walk(conj):
                        if not hasattr(n, "lineno"):
                            ast.copy_location(n, expr)
                    self._synth[key] = conj
                t = self.truth(self._synth[key], st, depth)
                return t if t is None or isinstance(expr.ops[0], ast.Eq) else (not t)
        return ASpec.truth(self, expr, st, depth)

    def decide_leaf(self, cond, st, depth):
        return self.at(depth, self._decide_leaf, cond, st, depth)

    def _decide_leaf(self, cond, st, depth):
        if isinstance(cond, (ast.Name, ast.Attribute)) and self.value(cond, st, depth) == EMPTY:
            return False
        return ASpec.decide_leaf(self, self.resolved_membership(cond, st, depth), st, depth)

    def resolved_membership(self, cond, st, depth):
        """`x in NAME` -> `x in <literal>` when NAME is a module-level literal (asked of the rule's const_resolver)."""
        if self._const_resolver is None or not (isinstance(cond, ast.Compare) and len(cond.ops) == 1 and isinstance(cond.ops[0], (ast.In, ast.NotIn))):
            return cond
        c = cond.comparators[0]
        if isinstance(c, ast.Name) and st.has(f"{depth}:{c.id}"):
            return cond
        if not isinstance(c, (ast.Name, ast.Attribute)):
            return cond
        key = ("member", id(cond))
        if key not in self._synth:
            lit = self._const_resolver(c)
            if lit is None:
                self._synth[key] = cond
            else:
                new = ast.Compare(left=cond.left, ops=cond.ops, comparators=[lit])
                ast.copy_location(new, cond)
                self._synth[key] = new
        return self._synth[key]

    def cond_event(self, expr, value, st):
        return ASpec.cond_event(self, self.resolved_membership(expr, st, self.cur_depth), value, st)

    def iter_is_empty(self, expr, st, depth) -> bool:
        if isinstance(expr, ast.IfExp):
            d = self.decide(expr.test, st, depth)
            return d is not None and self.iter_is_empty(expr.body if d else expr.orelse, st, depth)
        return self.value(expr, st, depth) == EMPTY

    # ---- bindings
    def bind(self, target, value_expr, st, depth, value=None):
        # targets the engine knows nothing about (loop variables, elements of an unpacked value): ask the rule for a symbol
        if value_expr is None and value == UNKNOWN and isinstance(target, ast.Name):
            p = getattr(target, "_parent", None)
            lv = None
            if self._loop_value is not None and isinstance(p, (ast.For, ast.AsyncFor)) and p.target is target:
                lv = self.at(depth, self._loop_value, p, st, self)
            elif self._bind_value is not None:
                lv = self.at(depth, self._bind_value, target, st, self)
            if lv is not None:
                value = lv
        return Spec.bind(self, target, value_expr, st, depth, value=value)


class DEngine(Engine):
    """Path engine for DSpec (see the section comment)."""

    def __init__(self, spec):
        super().__init__(spec)
        self._assigns: dict = {}

    def call(self, fn, call, states, depth):
        sp = self.spec
        res = sp.at(depth + 1, Engine.call, self, fn, call, states, depth)
        # a deferred value of the callee's frame means nothing in the caller's
        fix = lambda s: s.set("$ret", UNKNOWN) if (_is_deferred(s.get("$ret")) or _is_deferred(s.get("$ret"), "tup")) else s  # noqa: E731
        res.ret = {fix(s) for s in res.ret}
        return res

    def cond(self, expr, states, depth):
        sp = self.spec
        if isinstance(expr, ast.Name):
            plain, groups = set(), {}
            for s in states:
                v = sp.value(expr, s, depth)
                if _is_deferred(v):
                    groups.setdefault((id(v[1]), v[2]), (v[1], set()))[1].add(s)
                else:
                    plain.add(s)
            if groups:
                T, F, ab = Engine.cond(self, expr, plain, depth) if plain else (set(), set(), Out.empty())
                for (_, d), (node, ss) in groups.items():
                    sp.replaying += 1
                    try:
                        t, f, a = sp.at(d, self.cond, node, ss, d)
                    finally:
                        sp.replaying -= 1
                    T |= t
                    F |= f
                    ab.merge_abrupt(a)
                return T, F, ab
        return Engine.cond(self, expr, states, depth)

    def stmt(self, node, states, depth):
        sp = self.spec
        if isinstance(node, ast.AnnAssign) and isinstance(node.value, ast.IfExp):
            if id(node) not in self._assigns:
                new = ast.Assign(targets=[node.target], value=node.value)
                ast.copy_location(new, node)
                new._parent = getattr(node, "_parent", None)
                self._assigns[id(node)] = new
            node = self._assigns[id(node)]
        if isinstance(node, ast.Break) and getattr(sp, "break_event", None) is not None:
            out = Out.empty()
            out.brk = {s.emit(sp.break_event(node, s)) for s in states}
            return out
        if isinstance(node, ast.Return) and depth > 0 and node.value is not None:
            # `return <predicate>` of an inlined helper: decided leaf by leaf, so its atoms appear on the caller's path
            if _is_pred(node.value):
                pred = set(states)
            elif isinstance(node.value, ast.Name):
                pred = {s for s in states if _is_deferred(sp.value(node.value, s, depth))}
            else:
                pred = set()
            if pred:
                out = Engine.stmt(self, node, states - pred, depth) if states - pred else Out.empty()
                t, f, ab = self.cond(node.value, pred, depth)
                out.merge_abrupt(ab)
                out.ret |= {s.set("$ret", C(True)) for s in t} | {s.set("$ret", C(False)) for s in f}
                return out
        return Engine.stmt(self, node, states, depth)

    def _loop(self, node, states, depth, is_for):
        sp = self.spec
        if is_for:
            empty = {s for s in states if sp.iter_is_empty(node.iter, s, depth)}
            if empty:
                out = Engine._loop(self, node, states - empty, depth, is_for) if states - empty else Out.empty()
                skipped = {self._loop_ev(node, False, s.emit(*sp.events(node.iter, s))) for s in empty}
                if node.orelse:
                    oe = self.block(node.orelse, skipped, depth)
                    out.merge_abrupt(oe)
                    out.normal |= oe.normal
                else:
                    out.normal |= skipped
                return out
        return Engine._loop(self, node, states, depth, is_for)


def run_d(stmts, spec, bindings=None):
    """Terminal (trace, how, state) triples of a statement list run by DEngine."""
    eng = DEngine(spec)
    o = eng.run(SimpleNamespace(body=list(stmts)), State((), {}), bindings)
    out = [(s.trace, "return", s) for s in o.ret]
    for s in o.exc:
        e = s.get("$exc")
        out.append((s.trace, "raise:" + (e[1] if is_const(e) else "?"), s))
    return out, eng


def _helper_resolver_in(ctx, rel, cls_qual, stop):
    """Inline ``self.<helper>(...)`` calls that resolve to a method defined in module ``rel`` (extracted private helpers), except the
    class's own entry points in ``stop``."""

    def resolver(call):
        f = call.func
        if isinstance(f, ast.Attribute) and isinstance(f.value, ast.Name) and f.value.id == "self" and f.attr not in stop:
            r = ctx.model.method(rel, cls_qual, f.attr)
            if r is not None and r[0].rel == rel:
                return r[1]
        return None

    return resolver


def _helper_resolver(ctx, cls_qual, stop):
    return _helper_resolver_in(ctx, I, cls_qual, stop)


helper_resolver = _helper_resolver  # public name (C15 analyses functions of the same module)


ENTRY_POINTS = ("event_to_child", "get_connection", "register_connection", "make_stream", "_handle_event")


# ---------------------------------------------------------------------------------------------------
def _spec_domain(ctx, cls, fields):
    """Representative values per GetHttpConnection field: base value + alternatives that name a DIFFERENT destination (host names that differ
    only in case are deliberately not among them: DNS names are case-insensitive, so a predicate may or may not tell them apart)."""
    import collections

    SS = collections.namedtuple("ServerSpec", "scheme address")  # stands for mitmproxy.net.server_spec.ServerSpec (a NamedTuple)
    dom = {
        "address": [("example.com", 8080), ("other.org", 8080), ("example.com", 8081)],
        "tls": [False, True],
        "via": [None, SS("http", ("proxy.local", 3128)), SS("https", ("proxy.local", 3128)), SS("http", ("proxy2.local", 3128)), SS("http", ("proxy.local", 3129))],
        "transport_protocol": ["tcp", "udp"],
    }
    ann = {st.target.id: norm(st.annotation) for st in cls.body if isinstance(st, ast.AnnAssign) and isinstance(st.target, ast.Name)}
    for f in fields:
        if f in dom:
            continue
        a = ann.get(f, "")
        if a == "bool":
            dom[f] = [False, True]
        elif a in ("str", "str | None"):
            dom[f] = ["a.example", "b.example"] + ([None] if "None" in a else [])
        elif a in ("int", "int | None"):
            dom[f] = [1, 2] + ([None] if "None" in a else [])
        else:
            raise AnalysisError(f"GetHttpConnection has a new field `{f}: {a}` for which R08.1 has no representative values (extend _spec_domain)")
    return dom


def _r081_paths(ctx, fn, fields, cand):
    """Symbolic reading of the predicate (equality atoms over all values; the compared things are recognised by what they are bound to,
    tuples are compared element-wise, early returns are paths).  {row: (ok, results)} or None when the predicate is not decided by
    the isinstance atom and the field equalities alone (then only the interpretation speaks)."""

    def atom(expr, st, sp):
        if isinstance(expr, ast.Call) and isinstance(expr.func, ast.Name) and expr.func.id == "isinstance" and len(expr.args) == 2 and not expr.keywords:
            if canon_chain(expr.args[0], st, sp) == cand and class_names(expr.args[1]) == ["Server"]:
                return ("IS", True)
        cp = compare_pair(expr, (ast.Eq, ast.NotEq))
        if cp:
            a, b = canon_chain(cp[0], st, sp), canon_chain(cp[1], st, sp)
            for f in fields:
                if {a, b} == {f"self.{f}", f"{cand}.{f}"}:
                    return ("EQ_" + f, isinstance(cp[2], ast.Eq))
        return None

    resolver = _helper_resolver(ctx, "GetHttpConnection", ())
    out = {}
    try:
        for name in [None, "IS"] + ["EQ_" + f for f in fields]:
            sc = {"IS": True}
            sc.update({"EQ_" + f: True for f in fields})
            if name is not None:
                sc[name] = False
            traces, _ = run_d(fn.body, DSpec(atom=atom, scenario=sc, resolver=resolver), {cand: ("param", cand)})
            ctx.cells += 1
            if not traces or any(how != "return" for _, how, _ in traces):
                return None
            res = {s.get("$ret") for _, _, s in traces}
            if not res <= {C(True), C(False)}:
                return None  # something else than the atoms takes part in the decision
            if name is None:
                if res != {C(True)}:
                    return None
            else:
                out[name] = (res == {C(False)}, sorted(map(str, res)))
    except AnalysisError:
        return None
    return out


def _r081(ctx):
    """The predicate is *interpreted* (pyint) on pairs (request spec, candidate connection) that are equal except for exactly one field - so a
    rewritten predicate (early returns, unpacked address, normalised host, helper) is analysed like the one-expression original; where the
    predicate is a plain conjunction of equalities the symbolic path reading (all values, not only representatives) is checked as well."""
    from ..pyint import Interp
    from ..pyint import Raised
    from ..pyint import Rec

    cls = ctx.model.cls(I, "GetHttpConnection")
    fields = dataclass_fields(cls)
    ctx.require(any("dataclass" in norm(d) for d in cls.decorator_list), "GetHttpConnection is not a dataclass any more")
    ctx.require({"address", "tls", "via", "transport_protocol"} <= set(fields), f"GetHttpConnection fields changed: {fields}")
    fn = ctx.func(I, "GetHttpConnection.connection_spec_matches")
    ps = params_of(fn)
    ctx.require(len(ps) == 1, "connection_spec_matches signature changed")
    cand = ps[0]
    w = (I, "GetHttpConnection.connection_spec_matches", fn)
    dom = _spec_domain(ctx, cls, fields)

    def run(want, have, cand_cls="Server"):
        it = Interp(ctx.model)
        me = Rec("GetHttpConnection", _bases=("HttpCommand", "Command"), _impl=(I, "GetHttpConnection"), **want)
        other = Rec(cand_cls, _bases=("Connection",), _name="candidate", **have)
        ctx.cells += 1
        try:
            return bool(it.truthy(it.method(me, "connection_spec_matches", other)))
        except Raised as r:
            raise AnalysisError(f"connection_spec_matches raises {r} on request {want} / candidate {have} (R08.1 domain)")

    bases = []
    for i in range(max(len(v) for k, v in dom.items() if k != "address")):
        b = {f: dom[f][min(i, len(dom[f]) - 1)] for f in fields}
        b["address"] = dom["address"][0]
        if b not in bases:
            bases.append(b)
    for b in bases:
        ctx.require(run(b, dict(b)), f"connection_spec_matches is False although request and connection agree in every field ({b}) - predicate not understood")
    sym = _r081_paths(ctx, fn, fields, cand)
    if sym is None:
        ctx.note("connection_spec_matches is not a plain conjunction of field equalities: decided by interpretation on representative spec pairs only")

    # row: candidate is not a Server
    wit = next((b for b in bases if run(b, dict(b), cand_cls="Client")), None)
    ok = wit is None and (sym is None or sym["IS"][0])
    how = "" if ok else (f"a Client with spec {wit}" if wit else f"result {sym['IS'][1]}")
    ctx.check(ok, "R08.1", w, "match when the candidate is not a Server",
              f"connection_spec_matches can be true although the candidate is not a Server - a request would be sent on a connection to a different destination ({how})",
              desc="connection_spec_matches is False when the candidate is not a Server")
    for f in fields:
        wit = None
        n = 0
        for b in bases:
            for a1, a2 in itertools.permutations(dom[f], 2):
                want, have = dict(b), dict(b)
                want[f], have[f] = a1, a2
                n += 1
                if wit is None and run(want, have):
                    wit = (a1, a2, b)
        ok = wit is None and (sym is None or sym["EQ_" + f][0])
        if wit is not None:
            how = f"request {f}={wit[0]!r} matches a connection with {f}={wit[1]!r} (all other fields equal: {({k: v for k, v in wit[2].items() if k != f})})"
        elif not ok:
            how = f"result {sym['EQ_' + f][1]}"
        else:
            how = ""
        ctx.check(ok, "R08.1", w, f"match when field `{f}` differs",
                  f"connection_spec_matches can be true although field `{f}` differs - a request would be sent on a connection to a different destination ({how})",
                  desc=f"connection_spec_matches is False when field `{f}` differs ({n} interpreted spec pairs{', + symbolic row' if sym else ''})")
    ctx.expect_instances("R08.1", 5)


# ---------------------------------------------------------------------------------------------------
def _conn_tag(e, st, sp):
    return canon_chain(e, st, sp) or norm(e)


def _gc_spec(ctx, ev, scenario, fn):
    """Alphabet of get_connection.  Values: ('match', conn) result of <request>.connection_spec_matches(conn); ('reply', conn, err) a
    2-tuple; ('completion', cmd, conn, err) a GetHttpConnectionCompleted; ('waitlist', conn) = self.waiting_for_establishment[conn];
    the variable of a for-loop is the symbol `loop`.  Events: ('complete', conn, err) when a completion is handed to event_to_child,
    ('wait', conn, cmd), ('new_server', kwargs), ('set', chain, source), ('register', conn, layer), ('push', layer class)."""

    def val(expr, st, sp):
        if isinstance(expr, ast.Call) and isinstance(expr.func, ast.Attribute) and expr.func.attr == "connection_spec_matches" and len(expr.args) == 1 and not expr.keywords:
            if canon_chain(expr.func.value, st, sp) != ev:
                raise AnalysisError(f"connection_spec_matches called on {norm(expr.func.value)}, not on the request being served")
            return ("match", _conn_tag(expr.args[0], st, sp))
        if isinstance(expr, ast.Call) and last_attr(expr.func) == "GetHttpConnectionCompleted":
            r = sp.v(expr.args[1], st) if len(expr.args) == 2 and not expr.keywords else None
            if not (isinstance(r, tuple) and r and r[0] == "reply"):
                raise AnalysisError(f"unmodelled completion {norm(expr)}")
            return ("completion", _conn_tag(expr.args[0], st, sp), r[1], r[2])
        if isinstance(expr, ast.Tuple) and len(expr.elts) == 2 and isinstance(expr.ctx, ast.Load):
            return ("reply", _conn_tag(expr.elts[0], st, sp), _conn_tag(expr.elts[1], st, sp))
        if isinstance(expr, ast.Subscript) and isinstance(expr.ctx, ast.Load) and canon_chain(expr.value, st, sp) == "self.waiting_for_establishment":
            return ("waitlist", _conn_tag(expr.slice, st, sp))
        if isinstance(expr, ast.Call) and not expr.args and not expr.keywords and canon_chain(expr.func, st, sp) == "self.context.fork":
            return sym("context")  # the forked context that gets the (new or reused) server connection, whatever the local is called
        return None

    def label(node, st, sp):
        out = []
        for n in eval_order(node):
            if not isinstance(n, ast.Call):
                if isinstance(n, (ast.Yield, ast.YieldFrom, ast.Return)) and n.value is not None and not isinstance(n.value, ast.Call):
                    if sp.v(n.value, st)[:1] == ("completion",):
                        raise AnalysisError(f"a GetHttpConnectionCompleted leaves get_connection by an unmodelled route: {norm(n)}")
                continue
            if last_attr(n.func) == "GetHttpConnectionCompleted":
                continue  # a value; it counts where it is delivered
            if isinstance(n.func, ast.Attribute) and n.func.attr == "event_to_child" and len(n.args) == 2 and not n.keywords:
                v = sp.v(n.args[1], st)
                if v[:1] == ("completion",):
                    if v[1] != ev:
                        raise AnalysisError(f"get_connection completes another command than the one it serves: {norm(n)}")
                    out.append(("complete", v[2], v[3]))
                continue
            for a in list(n.args) + [k.value for k in n.keywords]:
                if isinstance(a, (ast.Name, ast.Call)) and sp.v(a, st)[:1] == ("completion",):
                    raise AnalysisError(f"a GetHttpConnectionCompleted is passed to something else than event_to_child: {norm(n)}")
            if isinstance(n.func, ast.Attribute) and n.func.attr in ("append", "extend", "insert"):
                r = sp.v(n.func.value, st)
                if r[:1] == ("waitlist",):
                    if n.func.attr != "append" or len(n.args) != 1:
                        raise AnalysisError(f"unmodelled update of waiting_for_establishment: {norm(n)}")
                    out.append(("wait", r[1], _conn_tag(n.args[0], st, sp)))
        if isinstance(node, ast.Assign):
            for t in node.targets:
                ch = canon_chain(t, st, sp)
                if ch == "context.server":
                    v = node.value
                    if isinstance(v, ast.Call) and last_attr(v.func) == "Server" and not v.args:
                        out.append(("new_server", tuple(sorted((k.arg, canon_chain(k.value, st, sp) or norm(k.value)) for k in v.keywords))))
                    else:
                        out.append(("new_server", ("?", norm(v))))
                elif ch.startswith("context.server."):
                    out.append(("set", ch, canon_chain(node.value, st, sp) or "<expr>"))
                elif isinstance(t, ast.Subscript) and canon_chain(t.value, st, sp) == "self.connections":
                    out.append(("register", _conn_tag(t.slice, st, sp), norm(node.value)))
                elif isinstance(t, ast.Subscript) and canon_chain(t.value, st, sp) == "self.waiting_for_establishment":
                    raise AnalysisError(f"unmodelled update of waiting_for_establishment: {norm(node)}")
        elif isinstance(node, ast.AugAssign) and isinstance(node.op, ast.Div) and isinstance(node.target, ast.Name) and isinstance(node.value, ast.Call):
            out.append(("push", attr_chain(node.value.func)))
        return out

    truth_atoms = {"loop.error": "ERR", "loop.connected": "CONN", "self.context.server.connected": "CTXCONN", "self.context.server.error": "CTXERR",
                   f"{ev}.via": "VIA", f"{ev}.tls": "TLS"}

    def atom(expr, st, sp):
        if isinstance(expr, ast.Name) or (isinstance(expr, ast.Call) and isinstance(expr.func, ast.Attribute) and expr.func.attr == "connection_spec_matches"):
            v = sp.v(expr, st)
            if v[:1] == ("match",):
                return ({"loop": "M", "self.context.server": "MC"}.get(v[1], "M?" + v[1]), True)
        cp = compare_pair(expr, (ast.In, ast.NotIn))
        if cp:
            pos = isinstance(cp[2], ast.In)
            coll = cp[1]
            if isinstance(coll, ast.Call) and isinstance(coll.func, ast.Attribute) and coll.func.attr == "keys" and not coll.args:
                coll = coll.func.value
            who, where = canon_chain(cp[0], st, sp), canon_chain(coll, st, sp)
            if (who, where) == ("loop", "self.waiting_for_establishment"):
                return ("W", pos)
            if (who, where) == ("self.context.server", "self.connections"):
                return ("CTXIN", pos)
        ts = truthiness_subject(expr)
        if ts is not None:
            name = truth_atoms.get(canon_chain(ts[0], st, sp))
            if name:
                return (name, ts[1])
        return None

    def loop_value(fornode, st, sp):
        return sym("loop")  # whatever is iterated: the rule is about what may happen to the loop variable within one iteration

    class GC(DSpec):
        def loop_event(self, node, entered, st):
            return ("loop", norm(node.iter), entered)

        def break_event(self, node, st):
            return ("break",)

    return GC(label=label, atom=atom, scenario=scenario, val=val, unroll=1, loop_value=loop_value,
              resolver=_helper_resolver(ctx, "HttpLayer", ENTRY_POINTS))


def _r082(ctx):
    fn = ctx.func(I, "HttpLayer.get_connection")
    ctx.func(I, "HttpLayer.event_to_child")
    ps = params_of(fn)
    ctx.require(ps[:1] and "reuse" in ps, "HttpLayer.get_connection signature changed")
    ev = ps[0]
    w = (I, "HttpLayer.get_connection", fn)

    # (a) reuse loop: control dependence on the match
    sp = _gc_spec(ctx, ev, {}, fn)
    traces, _ = run_d(fn.body, sp, {ev: ("param", ev), "reuse": C(True)})
    ctx.paths += len(traces)
    ctx.require(traces, "get_connection: no path")
    seen = {"handout": 0, "wait": 0, "error": 0}
    prob = {}
    for tr, how, _ in traces:
        conds = {}
        inloop = False  # inside an iteration
        held = False  # the loop was left by `break`: its variable still is this iteration's connection, the iteration's facts hold
        for t in tr:
            mine = inloop or held
            if t[0] == "loop":
                inloop, held = t[2], False
                conds = {}
            elif t[0] == "break":
                inloop, held = False, inloop
            elif t[0] == "cond":
                conds[t[1]] = t[2]
            elif mine and t[0] == "complete" and t[1] == "loop":
                seen["handout"] += 1
                if t[2] != "None":
                    prob.setdefault("hand-out under match", f"an existing connection is handed to the request together with an error ({t[2]})")
                elif conds.get("M") is not True:
                    prob.setdefault("hand-out under match", "an existing connection is handed to the request without connection_spec_matches(connection) being true in this iteration")
                elif conds.get("W") is not False:
                    prob.setdefault("hand-out while establishing", "a connection that is still being established (in waiting_for_establishment) is handed out")
                elif conds.get("CONN") is not True:
                    prob.setdefault("hand-out connected", "a connection that is not connected is handed out for reuse")
            elif mine and t[0] == "wait" and t[1] == "loop":
                seen["wait"] += 1
                if conds.get("M") is not True:
                    prob.setdefault("wait under match", "the request waits for a pending connection whose spec was not matched")
            elif mine and t[0] == "complete" and t[1] == "None" and (inloop or t[2] == "loop.error"):
                seen["error"] += 1
                if conds.get("M") is not True or t[2] != "loop.error" or conds.get("ERR") is not True:
                    prob.setdefault("error under match", "the request is failed with the error of a connection that was not matched / has no error")
            elif inloop and t[0] in ("complete", "wait", "register", "new_server"):
                prob.setdefault("loop effect", f"unmodelled effect inside the reuse loop: {t}")
            elif not mine and t[0] in ("complete", "wait") and (t[1] == "loop" or t[2] == "loop.error"):
                # (leaving the loop by `break` keeps the iteration's facts; this is the variable of an exhausted loop)
                raise AnalysisError(f"get_connection uses the reuse loop's variable after the loop has run out: {t} (shape not modelled)")
    ctx.require(prob or all(seen.values()), f"get_connection: reuse-loop outcomes not all found: {seen}")
    kind_of = {"hand-out": "handout", "wait": "wait", "error": "error", "loop": "handout"}
    for k, n in seen.items():
        mine = {c: y for c, y in prob.items() if kind_of[c.split()[0]] == k}
        for cons, why in mine.items():
            ctx.fail("R08.2", w, f"reuse loop: {cons}", why)
        if not mine:
            ctx.ok("R08.2", f"reuse loop {k}: control-dependent on connection_spec_matches(connection) on {n} path-sites")

    # (b) context connection + (c) new server
    n_new = n_reuse = 0
    for MC, CTXIN, CTXCONN in itertools.product((True, False), repeat=3):
        sp = _gc_spec(ctx, ev, {"MC": MC, "CTXIN": CTXIN, "CTXCONN": CTXCONN}, fn)
        traces, _ = run_d(fn.body, sp, {ev: ("param", ev), "reuse": C(False)})
        ctx.paths += len(traces)
        ctx.cells += 1
        ctx.require(traces, "get_connection: no path (reuse=False)")
        prob = {}
        for tr, how, _ in traces:
            if how != "return":
                continue
            eff = proj(tr, ("complete", "wait", "new_server", "set", "push", "register"))
            conds = {t[1]: t[2] for t in tr if t[0] == "cond"}
            errs = [t for t in eff if t[0] == "complete"]
            if errs:
                if errs != [("complete", "None", "self.context.server.error")] or not MC or conds.get("CTXERR") is not True or len(eff) != 1:
                    prob.setdefault("context error", (f"the request is failed with the context connection's error although its spec does not match (or an unmodelled completion): {errs}", eff))
                continue
            regs = [t for t in eff if t[0] == "register"]
            waits = [t for t in eff if t[0] == "wait"]
            if len(regs) != 1 or regs[0][1] != "context.server" or len(waits) != 1 or waits[0][1] != "context.server" or waits[0][2] != ev:
                prob.setdefault("registration", (f"a new attempt must be registered in connections[context.server] and the request appended to waiting_for_establishment[context.server] (saw {regs} {waits})", eff))
                continue
            news = [t for t in eff if t[0] == "new_server"]
            if not news:
                n_reuse += 1
                if not MC:
                    prob.setdefault("context connection reuse", ("the context's server connection is used for the request although connection_spec_matches(self.context.server) is false "
                                                                 "- the request would go to the context's destination instead of its own", eff))
                continue
            n_new += 1
            if news != [("new_server", (("address", f"{ev}.address"), ("transport_protocol", f"{ev}.transport_protocol")))]:
                prob.setdefault("new server spec", (f"a new Server must be built from the request's address and transport_protocol (saw {news})", eff))
            i0 = eff.index(news[0])
            via = [t for t in eff if t[0] == "set" and t[1] == "context.server.via"]
            if conds.get("VIA") is True:
                if via != [("set", "context.server.via", f"{ev}.via")] or eff.index(via[0]) < i0:
                    prob.setdefault("new server via", (f"the request asks for an upstream proxy but the new Server does not get via = {ev}.via (saw {via})", eff))
            elif via:
                prob.setdefault("new server via", (f"the request asks for no upstream proxy but the new Server gets one: {via}", eff))
            if any(t[0] == "set" and t[1] in ("context.server.address", "context.server.transport_protocol") for t in eff):
                prob.setdefault("new server spec", ("address / transport_protocol of the new Server are overwritten after construction", eff))
            tls = [t for t in eff if t[0] == "push" and t[1].split(".")[-1] in ("ServerTLSLayer", "ServerQuicLayer")]
            if conds.get("TLS") is True and len(tls) != 1:
                prob.setdefault("new server tls", ("the request asks for TLS but no TLS/QUIC layer is put on the new connection - an https request would be sent in clear", eff))
            if conds.get("TLS") is False and tls:
                prob.setdefault("new server tls", ("the request asks for no TLS but a TLS layer is put on the new connection", eff))
            if "TLS" not in conds:
                prob.setdefault("new server tls", ("event.tls is not consulted when building the new connection", eff))
        for cons, (why, eff) in prob.items():
            ctx.fail("R08.2", w, f"{cons} [spec_matches(context.server)={MC} already_registered={CTXIN} connected={CTXCONN}]", f"{why}; trace: {show(eff)}")
        if not prob:
            ctx.ok("R08.2", f"fall-through spec_matches(context.server)={MC} already_registered={CTXIN} connected={CTXCONN}: {len(traces)} paths")
    ctx.require(n_new and n_reuse, f"get_connection: new-server / context-reuse paths not found ({n_new}/{n_reuse})")
    ctx.expect_instances("R08.2", 11)


# ---------------------------------------------------------------------------------------------------
def server_connection_paths(ctx):
    """HttpStream.make_server_connection: (function, {err world: [(events, how, returned value)]}, set of GetHttpConnection argument
    source tables).  Events: ('ask', sources) for `yield GetHttpConnection(..)`, ('bind', chain, value) for assignments to
    self.context.server / self.flow.server_conn, ('protoerr', args) for a ResponseProtocolError; the unpacked reply reads `conn`, `err`
    (also used by C15)."""
    fn = ctx.func(I, "HttpStream.make_server_connection")
    fields = dataclass_fields(ctx.model.cls(I, "GetHttpConnection"))

    def describe(e, st, sp):
        """Where a value comes from, through temporaries: a chain of the flow, a tuple of such, `chain == constant`."""
        if isinstance(e, ast.Name):
            v = sp.v(e, st)
            if _is_deferred(v) or _is_deferred(v, "tup"):
                return sp.at(v[2], describe, v[1], st, sp)
        if isinstance(e, ast.Tuple):
            return tuple(describe(x, st, sp) for x in e.elts)
        cp = compare_pair(e, (ast.Eq,))
        if cp and isinstance(cp[1], ast.Constant):
            return (describe(cp[0], st, sp), "==", cp[1].value)
        if cp and isinstance(cp[0], ast.Constant):
            return (describe(cp[1], st, sp), "==", cp[0].value)
        return canon_chain(e, st, sp) or ("?", norm(e))

    def val(expr, st, sp):
        if isinstance(expr, ast.Call) and last_attr(expr.func) == "GetHttpConnection":
            args = dict(zip(fields, expr.args))
            for k in expr.keywords:
                if k.arg not in fields or k.arg in args:
                    raise AnalysisError(f"GetHttpConnection called with unknown / repeated keyword {k.arg}")
                args[k.arg] = k.value
            if len(expr.args) > len(fields) or any(isinstance(a, ast.Starred) for a in expr.args):
                raise AnalysisError(f"GetHttpConnection call not modelled: {norm(expr)}")
            return ("getconn", tuple(sorted((f, describe(a, st, sp)) for f, a in args.items())))
        return None

    def reply_targets(target):
        """(connection, err) Name nodes if ``target`` is an element of `a, b = yield <GetHttpConnection value>`."""
        tup = getattr(target, "_parent", None)
        asg = getattr(tup, "_parent", None)
        if isinstance(tup, (ast.Tuple, ast.List)) and isinstance(asg, ast.Assign) and isinstance(asg.value, ast.Yield) and len(tup.elts) == 2:
            return asg, tup.elts
        return None, None

    def bind_value(target, st, sp):
        asg, elts = reply_targets(target)
        if asg is not None and asg.value.value is not None and sp.v(asg.value.value, st)[:1] == ("getconn",):
            return sym("conn") if target is elts[0] else sym("err")
        return None

    def label(node, st, sp):
        out = []
        for n in eval_order(node):
            if isinstance(n, ast.Yield) and n.value is not None:
                v = sp.v(n.value, st)
                if v[:1] == ("getconn",):
                    asg = getattr(n, "_parent", None)
                    t = asg.targets[0] if isinstance(asg, ast.Assign) and len(asg.targets) == 1 else None
                    if not (isinstance(t, (ast.Tuple, ast.List)) and len(t.elts) == 2 and all(isinstance(e, ast.Name) for e in t.elts)):
                        raise AnalysisError("make_server_connection: reply is not unpacked as (connection, err)")
                    out.append(("ask", v[1]))
        if isinstance(node, ast.Assign):
            for t in node.targets:
                ch = canon_chain(t, st, sp)
                if ch in ("self.context.server", "self.flow.server_conn"):
                    out.append(("bind", ch, canon_chain(node.value, st, sp) or norm(node.value)))
        for n in eval_order(node):
            if isinstance(n, ast.Call) and last_attr(n.func) == "ResponseProtocolError":
                out.append(("protoerr", tuple(canon_chain(a, st, sp) or norm(a) for a in list(n.args) + [k.value for k in n.keywords])))
        return out

    def atom(expr, st, sp):
        ts = truthiness_subject(expr)
        if ts is not None and sp.v(ts[0], st) == sym("err"):
            return ("ERR", ts[1])
        return None

    resolver = _helper_resolver(ctx, "HttpStream", ("handle_protocol_error", "make_server_connection"))
    results = {}
    asks = set()
    for ERR in (False, True):
        traces, _ = run_d(fn.body, DSpec(label=label, atom=atom, val=val, bind_value=bind_value, scenario={"ERR": ERR}, resolver=resolver))
        ctx.paths += len(traces)
        ctx.require(traces, "make_server_connection: no path")
        results[ERR] = traces
        for tr, how, s in traces:
            a = [t[1] for t in tr if t[0] == "ask"]
            ctx.require(len(a) == 1, f"make_server_connection: expected exactly one `yield GetHttpConnection(...)` per path, saw {len(a)}")
            asks.add(a[0])
    return fn, {k: [(proj(tr, ("ask", "bind", "protoerr")), how, s.get("$ret")) for tr, how, s in v] for k, v in results.items()}, asks


def _r083(ctx):
    fn, results, asks = server_connection_paths(ctx)
    w = (I, "HttpStream.make_server_connection", fn)
    want = {
        "address": ("self.flow.request.host", "self.flow.request.port"),
        "tls": ("self.flow.request.scheme", "==", "https"),
        "via": "self.flow.server_conn.via",
        "transport_protocol": "self.flow.server_conn.transport_protocol",
    }

    def unmodelled(got):
        return isinstance(got, tuple) and (got[:1] == ("?",) or any(unmodelled(g) for g in got))

    ctx.require(len(asks) == 1, "make_server_connection: GetHttpConnection is built differently on different paths (not modelled)")
    args = dict(next(iter(asks)))
    for f, exp in want.items():
        got = args.get(f)
        ctx.require(not unmodelled(got), f"make_server_connection: source of GetHttpConnection.{f} has a shape that is not modelled: {got}")
        ctx.check(got == exp, "R08.3", w, f"GetHttpConnection.{f} source",
                  f"the connection request's `{f}` must come from the flow's current {exp} (an addon may have rewritten the destination), saw {got}",
                  desc=f"GetHttpConnection.{f} <- {exp}")
    # result binding
    for ERR in (False, True):
        for tr, how, ret in results[ERR]:
            binds = sorted(t for t in tr if t[0] == "bind")
            if ERR:
                ok = not binds and ret == C(False) and how == "return"
                why = "on a failed connection attempt nothing may be bound and False must be returned"
            else:
                ok = binds == [("bind", "self.context.server", "conn"), ("bind", "self.flow.server_conn", "conn")] and ret == C(True) and how == "return"
                why = "on success context.server and flow.server_conn must both be bound to the connection that was returned for this request"
            ctx.check(ok, "R08.3", w, f"result binding err={ERR}", f"{why}; saw {binds} return {ret}", desc=f"make_server_connection err={ERR}: {binds or 'no binding'}, returns {ret[1] if is_const(ret) else ret}")
    ctx.expect_instances("R08.3", 6)


# ---------------------------------------------------------------------------------------------------
def _connection_state_flag(model):
    """connection.ConnectionState as a real enum.Flag: the members are evaluated from the class body (integers, earlier members, | & ^ ~)."""
    import enum

    cls = model.cls(CONN, "ConnectionState")
    members: dict = {}

    def ev(e):
        if isinstance(e, ast.Constant) and isinstance(e.value, int) and not isinstance(e.value, bool):
            return e.value
        if isinstance(e, ast.Name) and e.id in members:
            return members[e.id]
        if isinstance(e, ast.Attribute) and isinstance(e.value, ast.Name) and e.value.id == "ConnectionState" and e.attr in members:
            return members[e.attr]
        if isinstance(e, ast.BinOp) and isinstance(e.op, (ast.BitOr, ast.BitAnd, ast.BitXor, ast.LShift, ast.Add)):
            a, b = ev(e.left), ev(e.right)
            return {ast.BitOr: a | b, ast.BitAnd: a & b, ast.BitXor: a ^ b, ast.LShift: a << b, ast.Add: a + b}[type(e.op)]
        if isinstance(e, ast.Call) and last_attr(e.func) == "auto" and not e.args and not e.keywords:
            return 1 << sum(1 for v in members.values() if v and v & (v - 1) == 0)  # enum.auto() of a Flag: the next free bit
        raise AnalysisError(f"connection.ConnectionState member not evaluable: {norm(e)}")

    for st in cls.body:
        if isinstance(st, ast.Assign) and len(st.targets) == 1 and isinstance(st.targets[0], ast.Name):
            members[st.targets[0].id] = ev(st.value)
        elif isinstance(st, ast.AnnAssign) and isinstance(st.target, ast.Name) and st.value is not None:
            members[st.target.id] = ev(st.value)
    if not {"CLOSED", "OPEN"} <= set(members) or members["CLOSED"] != 0 or not members["OPEN"]:
        raise AnalysisError(f"connection.ConnectionState is not the flag set R08.4 assumes (CLOSED = 0, OPEN != 0): {members}")
    return enum.Flag("ConnectionState", members)


def _r084(ctx):
    """Server.__setattr__ is *interpreted* (pyint) on concrete Server objects - one world per (attribute name, connection state,
    current value, assigned value) - and its outcome (raises | stores what) is compared with the reference decision
        raise  iff  name in {address, via}  and  state is OPEN  and  current value != assigned value,   else store exactly (name, value).
    How the guard is spelled (membership in a literal / a module-level frozenset, `.get()` vs try/except KeyError vs getattr with a
    default, temporaries, a private `_is_open()` helper or the `connected` property, early return, message formatting) is irrelevant."""
    import collections

    from ..pyint import Interp
    from ..pyint import Raised
    from ..pyint import Rec

    r = ctx.model.method(CONN, "Server", "__setattr__")  # (defined by Server today; a base class of the same module would do)
    ctx.require(r is not None and r[0].rel == CONN, "connection.Server has no __setattr__ any more: nothing keeps address / via from being changed while the connection is open")
    qual = getattr(r[1], "_qual", "Server.__setattr__")
    fn = ctx.func(CONN, qual)
    ps = params_of(fn)
    ctx.require(len(ps) == 2, f"{qual} signature changed")
    w = (CONN, qual, fn)
    flag = _connection_state_flag(ctx.model)
    OPEN_ = flag["OPEN"]
    SS = collections.namedtuple("ServerSpec", "scheme address")  # stands for mitmproxy.net.server_spec.ServerSpec (a NamedTuple)

    class SI(Interp):
        """The Server under test keeps its instance attributes in ``attrs`` (that is what `self.__dict__` / vars(self) / getattr see);
        the end of the __setattr__ chain (object.__setattr__, reached through super() or called directly) records the store."""

        me = None
        attrs: dict = {}

        def class_attr(self, cref, attr, depth):
            if cref.mod.rel == CONN and cref.node.name == "ConnectionState" and attr in flag.__members__:
                return flag[attr]
            try:
                return Interp.class_attr(self, cref, attr, depth)
            except AnalysisError:
                if attr == "__setattr__" and cref.mod.rel == CONN:
                    return store  # `Connection.__setattr__(self, name, value)`: no class of the hierarchy defines it, it is object's
                raise

        def getattr(self, base, attr, node, depth):
            if base is self.me:
                if attr == "__dict__":
                    return self.attrs
                if attr in self.attrs:
                    return self.attrs[attr]
                if attr == "__class__":
                    return Interp.builtin(self, "type", [base], {}, node, {}, None, depth)
                if self.find_property(base, attr) is None and self.model.method(CONN, "Server", attr) is None and not attr.startswith("_super"):
                    try:
                        return Interp.getattr(self, base, attr, node, depth)  # class-level constants
                    except AnalysisError:
                        raise Raised("AttributeError", attr)  # an instance attribute that has not been assigned yet
            return Interp.getattr(self, base, attr, node, depth)

        def name(self, ident, env, mod, depth, node):
            if ident in ("vars", "object") and ident not in env and mod.get(ident) is None and ident not in mod.imports and not mod.assigns(ident):
                return vars_ if ident == "vars" else OBJECT
            return Interp.name(self, ident, env, mod, depth, node)

    it_box: list = []

    def store(*a):
        # object.__setattr__(self, name, value) / super().__setattr__(name, value)
        it = it_box[0]
        if len(a) == 3 and a[0] is it.me:
            a = a[1:]
        if len(a) != 2 or not isinstance(a[0], str):
            raise AnalysisError(f"Server.__setattr__: the store at the end of the __setattr__ chain is called with {a!r} (not modelled)")
        it.attrs[a[0]] = a[1]
        return None

    store._pyint_accepts_abstract = True

    def vars_(o):
        it = it_box[0]
        if o is not it.me:
            raise AnalysisError("Server.__setattr__: vars() of something else than self (not modelled)")
        return it.attrs

    vars_._pyint_accepts_abstract = True
    OBJECT = Rec("object", _name="object", __setattr__=store)

    def run(name, state, cur, value):
        """('raise', exception) | ('store', [(name, value)]) for `server.<name> = value` on a Server whose attributes are: state (absent
        when ``state`` is None: the dataclass __init__ has not got that far), <name> = cur (absent when cur is ABSENT)."""
        it = SI(ctx.model, max_steps=20000)
        it_box[:] = [it]
        it.me = Rec("Server", _bases=("Connection",), _impl=(CONN, "Server"), _name="server", _super_stubs={"__setattr__": store})
        it.attrs = {}
        if state is not None:
            it.attrs.update(peername=None, sockname=None, state=state, transport_protocol="tcp", error=None, tls=False, sni=None)
        if cur is not ABSENT:
            it.attrs[name] = cur
        ctx.cells += 1
        before = dict(it.attrs)
        try:
            it.method(it.me, "__setattr__", name, value)
        except Raised as r:
            return ("raise", r.name, before, dict(it.attrs))
        return ("store", None, before, dict(it.attrs))

    ABSENT = object()
    a1, a1b, a2 = ("example.com", 8080), ("example.com", int("8080")), ("other.org", 8080)
    a1b = tuple(list(a1b))  # equal to a1, not the same object
    v1, v1b, v2 = SS("http", ("proxy.local", 3128)), SS("http", ("proxy.local", 3128)), SS("http", ("proxy2.local", 3128))
    values = {
        "address": [(a1, a1, False), (a1, a1b, False), (a1, a2, True), (a1, ("example.com", 8081), True), (None, a1, True), (a1, None, True), (None, None, False)],
        "via": [(None, None, False), (v1, v1, False), (v1, v1b, False), (v1, v2, True), (None, v1, True), (v1, None, True), (v1, SS("https", ("proxy.local", 3128)), True)],
        "peername": [(None, ("10.0.0.1", 443), True), (("10.0.0.1", 443), ("10.0.0.1", 443), False)],
        "sni": [(None, "example.com", True), ("example.com", "example.com", False)],
        "state": [(None, None, True)],  # (filled in below: the assigned state differs from / equals the current one)
        "error": [(None, "connection refused", True)],
        "timestamp_end": [(None, 1.5, True)],
    }
    bad: dict = {}
    n = n_cells = 0
    halfopen = [m for m in flag if m not in (flag["CLOSED"], OPEN_)]
    for name, pairs in values.items():
        for state in [None, flag["CLOSED"], OPEN_] + halfopen:
            for cur, value, changed in pairs:
                if name == "state":
                    if state is None:
                        cur, value, changed = ABSENT, flag["CLOSED"], True
                    else:
                        cur, value, changed = state, (flag["CLOSED"] if state is OPEN_ else OPEN_), True
                elif state is None:
                    cur = ABSENT  # (the dataclass __init__ assigns the fields one by one: nothing is there yet)
                    changed = True
                is_open = state is OPEN_
                must_raise = name in ("address", "via") and is_open and changed
                if state in halfopen and name in ("address", "via") and changed:
                    continue  # half-closed connections: not "open" today; the property does not say (either answer is accepted)
                kind, exc, before, after = run(name, state, cur, value)
                n_cells += 1
                # the outcome is read off the object: its attributes afterwards (whichever way they were written)
                if must_raise:
                    ok = kind == "raise" and after == before
                else:
                    ok = kind == "store" and after == {**before, name: value}
                n += ok
                if not ok:
                    cell = (name, is_open, changed)
                    if cell not in bad:
                        st_txt = "not initialised yet" if state is None else state.name
                        diff = {k: v for k, v in after.items() if k not in before or before[k] != v}
                        got = (f"raises {exc}" if kind == "raise" else "returns") + (f" having set {diff}" if diff else " without storing anything")
                        bad[cell] = f"state {st_txt}, current value {'<unset>' if cur is ABSENT else repr(cur)}, assigned {value!r}: {got}"
    for (name, is_open, changed), how in bad.items():
        if name in ("address", "via") and is_open and changed:
            why = f"server.{name} can be changed while the connection is open - requests already routed to this connection would go to another destination"
        else:
            why = f"assignment of {name} (open={is_open}, changed={changed}) must simply store the value"
        ctx.fail("R08.4", w, f"name={name} open={is_open} changed={changed}", f"{why}; {how}")
    ctx.ok("R08.4", f"Server.__setattr__ interpreted in {n_cells} worlds (name x state x current/assigned value): {n} as required (raise iff name in (address, via) and state is OPEN and the value changes, else store)")
    ctx.expect_instances("R08.4", 1)


# ---------------------------------------------------------------------------------------------------
def waiter_replies(ctx, err: bool):
    """HttpLayer.register_connection in the world `command.err is set` = ``err``: (function, name of its command parameter, per path the
    projection onto ('loop', 'waiters' | other, entered) and ('complete', who, ('reply', connection, error)) events).  `who` is `waiter`
    for the variable of the loop over the popped waiters; replies are named by what their elements are bound to (also used by C15)."""
    fn = ctx.func(I, "HttpLayer.register_connection")
    ps = params_of(fn)
    ctx.require(len(ps) == 1, "register_connection signature changed")
    cmd = ps[0]

    def val(expr, st, sp):
        if isinstance(expr, ast.Tuple) and len(expr.elts) == 2 and isinstance(expr.ctx, ast.Load):
            return ("reply", _conn_tag(expr.elts[0], st, sp), _conn_tag(expr.elts[1], st, sp))
        if isinstance(expr, ast.Call) and isinstance(expr.func, ast.Attribute) and expr.func.attr == "pop" and canon_chain(expr.func.value, st, sp) == "self.waiting_for_establishment":
            if len(expr.args) in (1, 2) and canon_chain(expr.args[0], st, sp) == f"{cmd}.connection":
                return ("waiters",)
        if isinstance(expr, ast.Call) and last_attr(expr.func) == "GetHttpConnectionCompleted":
            if len(expr.args) != 2 or expr.keywords:
                raise AnalysisError(f"unmodelled completion {norm(expr)}")
            return ("completion", _conn_tag(expr.args[0], st, sp), sp.v(expr.args[1], st))
        if isinstance(expr, ast.Call) and isinstance(expr.func, ast.Name) and expr.func.id in ("list", "tuple") and len(expr.args) == 1 and sp.v(expr.args[0], st) == ("waiters",):
            return ("waiters",)
        return None

    def label(node, st, sp):
        out = []
        for n in eval_order(node):
            if isinstance(n, ast.Call) and isinstance(n.func, ast.Attribute) and n.func.attr == "event_to_child" and len(n.args) == 2 and not n.keywords:
                v = sp.v(n.args[1], st)
                if v[:1] == ("completion",):
                    out.append(("complete", v[1], v[2]))
            elif isinstance(n, ast.Call) and last_attr(n.func) != "GetHttpConnectionCompleted":
                for a in list(n.args) + [k.value for k in n.keywords]:
                    if isinstance(a, (ast.Name, ast.Call)) and sp.v(a, st)[:1] == ("completion",):
                        raise AnalysisError(f"a GetHttpConnectionCompleted is passed to something else than event_to_child: {norm(n)}")
            elif isinstance(n, (ast.Yield, ast.YieldFrom)) and n.value is not None and not isinstance(n.value, ast.Call) and sp.v(n.value, st)[:1] == ("completion",):
                raise AnalysisError(f"a GetHttpConnectionCompleted leaves register_connection by an unmodelled route: {norm(n)}")
        return out

    def loop_value(fornode, st, sp):
        return sym("waiter") if sp.v(fornode.iter, st) == ("waiters",) else None

    class RS(DSpec):
        def loop_event(self, node, entered, st):
            return ("loop", "waiters" if self.value(node.iter, st, self.cur_depth) == ("waiters",) else norm(node.iter), entered)

    def atom(expr, st, sp):
        ts = truthiness_subject(expr)
        if ts is not None and canon_chain(ts[0], st, sp) == f"{cmd}.err":
            return ("ERR", ts[1])
        return None

    ctx.func(I, "HttpLayer.event_to_child")
    sp = RS(label=label, atom=atom, scenario={"ERR": err}, val=val, unroll=2, loop_value=loop_value, resolver=_helper_resolver(ctx, "HttpLayer", ENTRY_POINTS))
    traces, _ = run_d(fn.body, sp, {cmd: ("param", cmd)})
    ctx.paths += len(traces)
    ctx.require(traces, "register_connection: no path")
    return fn, cmd, [proj(tr, ("loop", "complete")) for tr, how, _ in traces]


def _r085(ctx):
    for ERR in (True, False):
        fn, cmd, paths = waiter_replies(ctx, ERR)
        w = (I, "HttpLayer.register_connection", fn)
        want = ("reply", "None", f"{cmd}.err") if ERR else ("reply", f"{cmd}.connection", "None")
        bad = None
        n_it = 0
        for toks in paths:
            its = [i for i, t in enumerate(toks) if t[0] == "loop" and t[1] == "waiters"]
            if not its:
                bad = ("waiters", "the requests waiting for this connection are not taken out of waiting_for_establishment and answered", toks)
                continue
            for a, b in zip(its, its[1:] + [len(toks)]):
                seg = [t for t in toks[a + 1 : b] if t[0] == "complete"]
                if toks[a][2]:
                    n_it += 1
                    if len(seg) != 1 or seg[0][1] != "waiter":
                        bad = ("answer once", f"a waiting request is not answered exactly once (saw {seg})", toks)
                    elif seg[0][2] != want:
                        bad = ("reply", f"waiters must be answered with {want[1:]} when err is {'set' if ERR else 'empty'} (saw {seg[0][2][1:] if isinstance(seg[0][2], tuple) else seg[0][2]})"
                               + (" - a failed connection would be handed out for use" if ERR else ""), toks)
        ctx.require(bad or n_it, "register_connection: waiter loop not explored")
        ctx.check(bad is None, "R08.5", w, f"register_connection err={ERR}: {bad[0] if bad else ''}", f"{bad[1]}; trace: {show(bad[2])}" if bad else "",
                  desc=f"register_connection err={ERR}: every waiter answered once with {want[1:]}")
    ctx.expect_instances("R08.5", 2)


def check(ctx):
    ctx.rule("R08.1", "connection_spec_matches is False if the candidate is not a Server or any GetHttpConnection field differs")
    ctx.rule("R08.2", "get_connection: reuse only under a successful match (and connected, not pending); context connection only under match; new Server built from the request's spec")
    ctx.rule("R08.3", "make_server_connection asks for the flow's current destination and binds the returned connection on success only")
    ctx.rule("R08.4", "Server.__setattr__ refuses to change address/via while OPEN (decision table)")
    ctx.rule("R08.5", "register_connection answers every waiter once, with an error iff the attempt failed")
    ctx.trust("Connection.__eq__/__hash__, dict/defaultdict semantics")
    ctx.assume("a predicate bound to a single-assignment temporary has the same truth where the temporary is tested (nothing it reads is rebound in between)")
    _r081(ctx)
    _r082(ctx)
    _r083(ctx)
    _r084(ctx)
    _r085(ctx)


MUTANTS = [
    # R08.1
    Mutant("match-ignores-via", I, "            and self.via == connection.via\n", "", "R08.1"),
    Mutant("match-ignores-tls", I, "            and self.tls == connection.tls\n", "", "R08.1"),
    Mutant("match-address-or", I, "            and self.address == connection.address\n            and self.tls == connection.tls\n", "            and (self.address == connection.address\n            or self.tls == connection.tls)\n", "R08.1"),
    Mutant("match-transport-compares-self", I, "self.transport_protocol == connection.transport_protocol", "self.transport_protocol == self.transport_protocol", "R08.1"),
    Mutant("match-rewritten-case-insensitive-loses-tls", I, "        return (\n            isinstance(connection, Server)\n            and self.address == connection.address\n            and self.tls == connection.tls\n",
           "        if not isinstance(connection, Server) or not connection.address:\n            return False\n        host, port = self.address\n        conn_host, conn_port = connection.address[:2]\n"
           "        return (\n            host.lower() == conn_host.lower()\n            and port == conn_port\n", "R08.1"),
    Mutant("match-ignores-port", I, "            and self.address == connection.address\n", "            and self.address[0] == connection.address[0]\n", "R08.1"),
    Mutant("match-tls-one-directional", I, "            and self.tls == connection.tls\n", "            and (connection.tls or not self.tls)\n", "R08.1"),
    Mutant("match-via-presence-only", I, "            and self.via == connection.via\n", "            and bool(self.via) == bool(connection.via)\n", "R08.1"),
    # R08.2
    Mutant("reuse-without-match", I, "                if connection_suitable:\n                    if connection in self.waiting_for_establishment:", "                if connection_suitable or connection.connected:\n                    if connection in self.waiting_for_establishment:", "R08.2"),
    Mutant("reuse-half-closed", I, "                    elif connection.connected:\n                        # see \"tricky", "                    elif connection.connected or True:\n                        # see \"tricky", "R08.2"),
    Mutant("reuse-before-established", I, "                    if connection in self.waiting_for_establishment:\n                        self.waiting_for_establishment[connection].append(event)\n                        return\n                    elif connection.error:",
           "                    if connection.error:", "R08.2"),
    Mutant("context-connection-without-match", I, "            self.context.server not in self.connections\n            and event.connection_spec_matches(self.context.server)\n", "            self.context.server not in self.connections\n", "R08.2"),
    Mutant("new-server-context-address", I, "address=event.address, transport_protocol=event.transport_protocol", "address=self.context.server.address, transport_protocol=event.transport_protocol", "R08.2"),
    Mutant("new-server-drops-via", I, "                context.server.via = event.via\n", "                pass\n", "R08.2"),
    Mutant("new-server-tls-by-mode", I, "            if event.tls:\n                # Assume that we are in transparent mode", "            if self.mode == HTTPMode.transparent:\n                # Assume that we are in transparent mode", "R08.2"),
    # R08.3
    Mutant("getconn-stale-address", I, "            (self.flow.request.host, self.flow.request.port),\n            self.flow.request.scheme == \"https\",\n            self.flow.server_conn.via,",
           "            self.flow.server_conn.address,\n            self.flow.request.scheme == \"https\",\n            self.flow.server_conn.via,", "R08.3"),
    Mutant("getconn-tls-from-context", I, "            self.flow.request.scheme == \"https\",\n            self.flow.server_conn.via,", "            self.context.server.tls,\n            self.flow.server_conn.via,", "R08.3"),
    Mutant("success-does-not-bind-context", I, "            self.context.server = self.flow.server_conn = connection\n            return True", "            self.flow.server_conn = connection\n            return True", "R08.3"),
    # R08.4
    Mutant("setattr-guard-only-address", CONN, "        if name in (\"address\", \"via\"):\n            connection_open", "        if name in (\"address\",):\n            connection_open", "R08.4"),
    Mutant("setattr-guard-closed", CONN, "                is ConnectionState.OPEN\n            )\n            # assigning", "                is ConnectionState.CLOSED\n            )\n            # assigning", "R08.4"),
    Mutant("setattr-guard-never-changed", CONN, "if connection_open and attr_changed:", "if connection_open and not attr_changed:", "R08.4"),
    Mutant("setattr-guard-only-when-set", CONN, "attr_changed = self.__dict__.get(name) != value", "attr_changed = self.__dict__.get(name) is not None and self.__dict__.get(name) != value", "R08.4"),
    Mutant("setattr-store-before-guard", CONN, "        if name in (\"address\", \"via\"):\n            connection_open", "        super().__setattr__(name, value)\n        if name in (\"address\", \"via\"):\n            connection_open", "R08.4"),
    Mutant("setattr-guard-half-open-only", CONN, "                is ConnectionState.OPEN\n            )\n            # assigning", "                is ConnectionState.CAN_WRITE\n            )\n            # assigning", "R08.4"),
    Mutant("setattr-guard-clearing-allowed", CONN, "if connection_open and attr_changed:", "if connection_open and attr_changed and value is not None:", "R08.4"),
    # R08.5
    Mutant("register-error-hands-out-connection", I, "        if command.err:\n            reply = (None, command.err)\n        else:", "        if not command.connection:\n            reply = (None, command.err)\n        else:", "R08.5"),
    Mutant("register-keeps-waiters", I, "waiting = self.waiting_for_establishment.pop(command.connection)", "waiting = self.waiting_for_establishment[command.connection]", "R08.5"),
]
