"""C45 - command-line arguments reach commands unchanged.

Decided (structural clauses, narrow):
  R45.1 escape pairing: every substitution quote() applies to the value has an inverse in unquote().  Semantic: quote() is
        interpreted on probe values holding both quote characters (+ one protected character); the segments that differ between the
        value and the delimited text are the substitutions (however they are written: replace(), split/join, a helper, a temporary),
        the segments that still differ after unquote() are not inverted.  The finding is keyed by the substitution's *values*
        (`replace('"', '\\x22')`), not by the code that performs it.
        (Today: '"' -> r'\\x22' has no inverse - known finding F-C45, the FIXME in the test-suite.)
  R45.2 the character tables agree: the lexer's whitespace class + both quote characters == the characters NOT in the
        bare-word class (partition), and every one of them makes quote() add quotes; so a string quote() leaves bare is one
        bare token.  (Quoting MORE than the lexer needs is harmless and only noted.)  The lexer's classes are taken from the
        *interpreted* ``command_lexer.expr``: the module constant is evaluated from its AST (pyint) with ``pyparsing`` bound to the
        model of props/_helpers_pp.py - literals, module constants (WHITESPACE, QUOTE_CHARS), string concatenation, helper
        functions, named sub-expressions, method chains or separate ``expr.leave_whitespace()`` statements all give the same element
        tree (ZeroOrMore / [...] of MatchFirst alternatives Word / CharsNotIn / Regex / White ..., whitespace not skipped): the whitespace,
        bare-word and quoted alternatives are recognised by what they match (" ", "a", a quoted string), and their character
        sets are read off by matching every candidate character (0..127, Latin-1 and Unicode spaces, letters), so a class
        written as a character list and the same class written as a regex are the same to the rule, while a class that
        became wider than quote()'s trigger set (the regex whitespace category instead of the four characters space/CR/LF/TAB: seed C45a) is a violation.
  R45.3 what quote() emits is one lexer token: "[^"]*" and '[^']*' are included in the language of the lexer's
        quoted-string regex (language inclusion on the parsed regex); unquote() strips exactly one matching quote pair.
  R45.4 CommandManager.execute drops only Space tokens and unquotes every other token exactly once (execute interpreted from its AST
        on a token list holding every token type and quote shape; parse_partial / call_strings replaced by stubs).  How execute collects
        the words does not matter: a generator expression, a list, map()/filter(), a loop, or a module-level generator helper that is
        star-unpacked (``name, *args = _argv(parts)``) are all interpreted.
  R45.5 (E3, pyint) end to end, from the command line to the argument type: ``CommandManager.execute`` -> ``parse_partial`` ->
        ``call_strings`` -> ``Command.call`` -> ``prepare_args`` -> ``parsearg`` are interpreted from their AST on the line
        ``<cmd> quote(v) <tail>`` (the lexer replaced by the token model above, ``inspect.Signature.bind`` real, the argument type an
        identity stub that records the string it is asked to parse).  For every representative value v the strings reaching the
        argument types must be exactly [v, tail] - clause "any string, quoted with the console's quoting rule and placed in a command
        line, is passed to the executed command unchanged, and arguments are split exactly at unquoted whitespace".  Representatives:
        plain / inner whitespace / leading+trailing whitespace / one kind of quote inside / values that themselves begin and end with
        a quote character / empty / backslashes / unicode / ``a<c>b`` for every candidate character c  (obligation A), and values made
        only of characters that ``str.isspace`` accepts but quote() leaves bare (obligation B).  A second quote-stripping anywhere
        behind execute (seed C45b), a strip()/normalisation of the argument, a token class or Space test that is wider than what
        quote() protects all change what the command receives.
        (Obligation B found the genuine defect F-C45ws - parse_partial typed such tokens Space via str.isspace and execute dropped them;
        fixed in /repo 98c12efba, repro findings/F-C45ws/repro.py, mutant F-C45ws-reverted.)
Not decided: equality for all strings at run time (pyparsing's tokenisation is library behaviour: ZeroOrMore / MatchFirst /
Word / CharsNotIn / Regex are modelled as documented, `re` is trusted); what an argument *type* does with the string it receives
(``_StrType.parse`` interprets backslash escapes by design); values containing both quote characters (R45.1, known finding).
"""

from __future__ import annotations

import ast
import re

from .. import rx
from ..model import attr_chain
from ..selftest import Mutant

PROP = "C45"
REG = {
    "strength": "narrow",
    "technique": "escape-pair agreement (quote/unquote interpreted on probe values), character-table agreement over the interpreted lexer expression (pyparsing model), "
    "regex language inclusion, AST interpretation of the execute path",
    "claim": "quote()'s substitutions are inverted by unquote() (one known finding), the quoting trigger set equals the lexer's separator sets, "
    "quote()'s output forms are single lexer tokens, execute() drops only whitespace tokens.",
    "note": "pyparsing (Regex, Word, CharsNotIn, White, MatchFirst, ZeroOrMore, leave_whitespace, parse_with_tabs) is trusted as modelled in props/_helpers_pp.py.",
}

LEX = "mitmproxy/command_lexer.py"
CMD = "mitmproxy/command.py"


def _str_const(node):
    if isinstance(node, ast.Constant) and isinstance(node.value, str):
        return node.value
    return None


class _Alt:
    """One alternative of the lexer's MatchFirst: ``match(text, pos)`` -> end position of the token or None (pyparsing semantics)."""

    def __init__(self, kind, label, node, match, pattern=None, flags=0):
        self.kind, self.label, self.node, self.match, self.pattern, self.flags = kind, label, node, match, pattern, flags


def _lexer_model(ctx, mod):
    """``command_lexer.expr`` as the repository code builds it: the module constant is INTERPRETED (pyint) with ``pyparsing`` bound to the
    model of props/_helpers_pp.py, so literals, module constants (WHITESPACE, QUOTE_CHARS ...), string concatenation, helper functions and
    named sub-expressions all evaluate to the same element tree.  -> (the element, its token alternatives in MatchFirst order)"""
    from ._helpers_pp import El
    from ._helpers_pp import PPInterp

    vals = mod.assigns("expr")
    ctx.require(bool(vals), "command_lexer.expr vanished")
    it = PPInterp(ctx.model, trusted_modules={"re": re})
    top = it.modconst(mod, "expr", 0)
    ctx.require(isinstance(top, El), f"command_lexer.expr does not evaluate to a pyparsing expression: {top!r}")
    for st in mod.tree.body:  # module-level statements applied to the expression afterwards: expr.parse_with_tabs()
        if isinstance(st, ast.Expr) and isinstance(st.value, ast.Call) and attr_chain(st.value.func).split(".")[0] == "expr":
            it.ev(st.value, {}, mod, 0)
    rep = top
    while rep.kind in ("Group", "Suppress", "Forward") and rep.expr is not None and not rep.actions:
        rep = rep.expr
    ctx.require(rep.kind in ("ZeroOrMore", "OneOrMore") and not rep.actions and not top.actions, f"lexer expr: not one ZeroOrMore(<alternatives>): {top!r}")

    def flat(e):
        if e.kind == "MatchFirst" and not e.actions:
            return [x for c in e.exprs for x in flat(c)]
        return [e]

    node = vals[-1]
    alts = []
    for e in flat(rep.expr):
        ctx.require(not e.skipWhitespace or not e.callPreparse, "lexer expr: an alternative skips leading whitespace (no leave_whitespace()) - token classes with implicit whitespace skipping are not modelled")
        ctx.require(not e.actions, "lexer expr: an alternative has a parse action (tokens would no longer be the matched text)")
        alts.append(_Alt(e.kind, e.kind, node, e.matches_at, e.a.get("pattern") if e.kind == "Regex" else None, e.a.get("flags", 0) if e.kind == "Regex" else 0))
    ctx.require(len(alts) >= 3, f"lexer: only {len(alts)} token alternatives found")
    return top, alts


def _tokens(lexer, text):
    """expr.parse_string(text, parse_all=True) on the model: list of tokens, None = ParseException."""
    from ._helpers_pp import ParseException

    try:
        return list(lexer.parse_string(text, parse_all=True))
    except ParseException:
        return None


def _changes(v, w):
    """[(a, b)]: the segments of v that were replaced on the way to w"""
    import difflib

    return [(v[i1:i2], w[j1:j2]) for tag, i1, i2, j1, j2 in difflib.SequenceMatcher(None, v, w, autojunk=False).get_opcodes() if tag != "equal"]


def check(ctx):
    ctx.rule("R45.1", "every substitution quote() applies to a value has an inverse in unquote()")
    ctx.rule("R45.2", "quote trigger characters == lexer whitespace + quotes == CharsNotIn set")
    ctx.rule("R45.3", "quote()'s output forms are single quoted-string tokens; unquote strips one matching pair")
    ctx.rule("R45.4", "execute drops only Space tokens and unquotes the rest")
    ctx.rule("R45.5", "interpreted path execute -> parse_partial -> Command.call -> parsearg hands the argument types exactly [v, tail] for the line `cmd quote(v) tail`")
    ctx.rule("R45.6", "the lexer keeps TABs: parse_with_tabs() is applied to an expression whose grammar matches TAB (pyparsing expands tabs to spaces otherwise)")
    m = ctx.model
    q = ctx.func(LEX, "quote")
    u = ctx.func(LEX, "unquote")
    mod = m.module(LEX)

    # ---- quote() and unquote() are pure string functions: interpret their AST (pyint, `re` trusted)
    import re as _re

    from ..pyint import Interp
    from ..pyint import NullLog
    from ..pyint import Raised

    def run(fname, arg):
        it = _interp_cls()(m, trusted_modules={"re": _re, "logging": NullLog()})
        try:
            return it.call(LEX, fname, arg)
        except Raised as r:
            return f"<raises {r.name}>"

    # the lexer's token classes, recognised by what they match (model of the pyparsing expression)
    lexer, alts = _lexer_model(ctx, mod)
    quoted_alts = [a for a in alts if a.match('"x"', 0) == 3 and a.match("'x'", 0) == 3]
    ws_alts = [a for a in alts if a not in quoted_alts and a.match(" ", 0) == 1]
    bare_alts = [a for a in alts if a not in quoted_alts and a.match("a", 0) == 1]
    ctx.require(len(quoted_alts) == 1 and len(ws_alts) == 1 and len(bare_alts) == 1 and ws_alts[0] is not bare_alts[0] and len(alts) == 3,
                f"lexer: expected one quoted-string, one whitespace and one bare-word alternative, found {[(a.label, a.kind) for a in alts]}")
    quoted_alt, ws_alt, bare_alt = quoted_alts[0], ws_alts[0], bare_alts[0]
    candidates = [chr(i) for i in range(0, 128)] + ["\u0085", "\u00a0", "\u2003", "\u2028", "\u3000", "\u200b", "\u00e9", "\u4e2d"]
    ws = {c for c in candidates if ws_alt.match(c, 0) == 1}
    bare = {c for c in candidates if bare_alt.match(c, 0) == 1}
    excl = set(candidates) - bare  # separators: what ends a bare word
    where = (LEX, "<module>", mod.assigns("expr")[-1])
    both = sorted(ws & bare)
    neither = sorted(set(candidates) - ws - bare - {'"', "'"})
    quote_in_class = sorted((ws | bare) & {'"', "'"})
    ctx.check(not both and not neither and not quote_in_class, "R45.2", where, "whitespace class, bare-word class and the quote characters partition the characters",
              f"bare words and separators/quotes do not partition the characters: in both classes {both!r}, in no class {neither!r}, quote characters inside a class {quote_in_class!r}",
              desc=f"lexer classes partition ({ws_alt.kind} whitespace {sorted(ws)!r}, {bare_alt.kind} bare words)")
    # which characters make quote() add quotes?  (semantic: interpret quote on 'a<c>b' for every candidate character)
    trig = {c for c in candidates if run("quote", f"a{c}b") != f"a{c}b"}
    ctx.cells += 3 * len(candidates)

    # ---- R45.6  library contract: ParserElement.parse_string() replaces every TAB by spaces before parsing unless parse_with_tabs()
    # was called on the expression.  quote() protects a TAB by quoting the value, so without it a quoted argument containing a TAB
    # reaches the command altered (F-C45tab).  Decided on the interpreted expression object: its keep-tabs flag and whether any of its
    # token classes can match a TAB.
    matches_tab = any(a.match(t, 0) == len(t) for a in alts for t in ("\t", "'\t'", '"\t"', "a\tb"))
    ctx.check(lexer.keepTabs or not matches_tab, "R45.6", (LEX, "<module>", mod.assigns("expr")[-1]), "expr ... .parse_with_tabs()",
              "the lexer's grammar matches TAB characters but the expression is parsed with pyparsing's default tab expansion: a TAB inside a quoted argument reaches the command as spaces",
              desc="command_lexer.expr is parsed with tabs kept")
    ctx.expect_instances("R45.6", 1)

    # ---- R45.1  which substitutions does quote() apply to a value, and does unquote() invert them?  Semantic: quote() is interpreted on
    # probe values holding both quote characters (the only case in which a value cannot be delimited as it is) plus one protected
    # character; what changed between the value and the delimited text are the substitutions; what still differs after unquote() is not inverted.
    applied: dict = {}
    uninverted: dict = {}
    probes = ["p\"q'r", "p'q\"r", "\"'", "p\"q'r\\s"] + [f"p\"q'r{c}s" for c in sorted(trig - {'"', "'"})]
    for v in probes:
        out = run("quote", v)
        ctx.cells += 1
        if not (isinstance(out, str) and len(out) >= 2 and out[0] == out[-1] and out[0] in "'\""):
            continue  # not a delimited form: R45.3 reports it
        for ab in _changes(v, out[1:-1]):
            applied.setdefault(ab, v)
        back = run("unquote", out)
        if isinstance(back, str) and not back.startswith("<raises"):
            for ab in _changes(v, back):
                uninverted.setdefault(ab, (v, out, back))
    ctx.require(len(applied) <= 6, f"quote: more substitutions than the rule was confirmed on: {sorted(applied)}")
    if not applied:
        ctx.ok("R45.1", "quote applies no substitution")
    for (a, b), v in sorted(applied.items()):
        ctx.check((a, b) not in uninverted, "R45.1", (LEX, "quote", q), f"replace({a!r}, {b!r})", f"unquote() never turns {b!r} back into {a!r}: a value containing {a!r} (and the other quote character) reaches the command altered",
                  desc=f"replace({a!r},{b!r}) inverted")
    for (a, b), (v, out, back) in sorted(uninverted.items()):
        if (a, b) not in applied:
            ctx.fail("R45.1", (LEX, "unquote", u), f"unquote(quote(v)) turns {a!r} into {b!r}", f"quote({v!r}) = {out!r} but unquote() gives {back!r}")
    # necessary direction only: every character that ends a bare word must make quote() add quotes.  Quoting more than the lexer needs
    # (e.g. every str.isspace character) is harmless - the quoted form is one token (R45.3) and is unquoted again (R45.5).
    ctx.check(excl <= trig, "R45.2", (LEX, "quote", q), "every character that ends a bare word in the lexer makes quote() add quotes",
              f"quote() leaves a string bare although the lexer would split or re-interpret it: characters the lexer separates on but quote() does not protect {sorted(excl - trig)!r}",
              desc=f"quote trigger {sorted(trig)!r} covers the lexer separators {sorted(excl)!r}")
    if trig - excl:
        ctx.note(f"R45.2: quote() also quotes {sorted(trig - excl)!r}, which the lexer would accept inside a bare word (harmless)")
    ctx.check(run("quote", "") not in ("", None), "R45.2", (LEX, "quote", q), "empty string is quoted", "the empty string must be quoted (a bare empty token does not exist, the argument would vanish)", desc="empty value is quoted")

    # ---- R45.3
    ctx.require(quoted_alt.kind == "Regex", "the quoted-string alternative is no longer a pyparsing.Regex over a literal pattern")
    pat, flags = quoted_alt.pattern, quoted_alt.flags
    lang = rx.nfa_of(pat, flags)
    for label, ref in (("double", r'"[^"]*"'), ("single", r"'[^']*'")):
        only_ref, only_code = rx.compare(rx.nfa_of(ref), lang, exclude=frozenset())
        ctx.check(only_ref is None, "R45.3", (LEX, "<module>", quoted_alt.node), f"{label}-quoted strings are one token",
                  f"quote() can emit {rx.show(only_ref)} which the quoted-string token does not accept as a whole", desc=f"{label}-quoted form accepted")
    SAMPLES = ["", "a", "abc", "a b", " a", "a ", "a\tb", "a\nb", "a\r\nb", "it's", 'say "hi"', "back\\slash", "\\x22", "~q ! ~s", "caf\u00e9 \u4e2d", "a  b   c", "'", '"', "''", '""', "'a'", '"a"', "it's \"x\"", "\"'", "a'b\"c d"]
    bad_form, bad_rt = [], []
    for v in SAMPLES:
        out = run("quote", v)
        ctx.cells += 1
        if not isinstance(out, str):
            bad_form.append((v, out))
            continue
        bare_ok = out == v and v != "" and not (set(v) & set(excl))
        quoted_ok = len(out) >= 2 and out[0] in "'\"" and out[-1] == out[0] and out[0] not in out[1:-1] and lang.accepts(out)
        if not (bare_ok or quoted_ok):
            bad_form.append((v, out))
        back = run("unquote", out)
        if back != v and not ("'" in v and '"' in v):  # both quote characters: the escape of R45.1 (known finding) applies
            bad_rt.append((v, out, back))
    ctx.check(not bad_form, "R45.3", (LEX, "quote", q), "quote() output is a bare word or one matching-quote token",
              f"quote() emits something the lexer does not read as exactly one token: {bad_form[:3]}", desc="quote output is one token")
    ctx.check(not bad_rt, "R45.3", (LEX, "unquote", u), "unquote(quote(v)) == v for values without both quote characters",
              f"quote/unquote do not round-trip: {bad_rt[:3]}", desc="quote/unquote round-trip on representatives")
    UNQ = [("plain", "plain"), ("'a b'", "a b"), ('"a b"', "a b"), ("'", "'"), ('"', '"'), ("'a\"", "'a\""), ("\"a'", "\"a'"), ("a'b'", "a'b'"), ("''", ""), ("'a'b'", "a'b")]
    bad_u = [(x, run("unquote", x), w) for x, w in UNQ if run("unquote", x) != w]
    ctx.cells += len(UNQ)
    ctx.check(not bad_u, "R45.3", (LEX, "unquote", u), "unquote strips exactly one matching quote pair and nothing else", f"unquote misbehaves: {bad_u[:3]}", desc="unquote strips one matching pair")
    ctx.bounds.append("R45.2/R45.3: quote()/unquote() interpreted on 132 candidate characters and 22+10 representative strings (both-quote-characters strings are the known finding of R45.1)")

    # ---- R45.4: execute() interpreted on a token list of every token type (parse_partial and call_strings replaced by stubs)
    ctx.guard(_execute_rule, ctx)

    # ---- R45.5: the whole path from the command line to the argument types, interpreted
    ctx.guard(_pipeline_rule, ctx, lexer, run, candidates, trig)
    ctx.expect_instances("R45.1", 1)
    ctx.expect_instances("R45.2", 3)
    ctx.expect_instances("R45.3", 5)
    ctx.expect_instances("R45.4", 1)
    ctx.expect_instances("R45.5", 2)


TYPES = "mitmproxy/types.py"


class _Sig:
    """inspect.Signature of the test command ``def show(*values: str)``, with ``parameters`` as a plain dict (same mapping interface)."""

    def __init__(self):
        import inspect

        self._sig = inspect.Signature([inspect.Parameter("values", inspect.Parameter.VAR_POSITIONAL, annotation=str)])
        self.parameters = dict(self._sig.parameters)
        self.return_annotation = inspect.Signature.empty

    def bind(self, *a, **kw):
        return self._sig.bind(*a, **kw)


_CINTERP: list = []


def _interp_cls():
    """pyint with star-unpacking of a lazily iterated generator (``name, *rest = gen_helper(parts)``): the core's ``assign`` takes ``len()`` of
    the iterated value, which a generator helper's lazy iterator does not have - the values are drawn first (workaround, see report)."""
    if _CINTERP:
        return _CINTERP[0]
    from ..pyint import Gen
    from ..pyint import Interp

    class _CInterp(Interp):
        def assign(self, target, value, env, mod, depth):
            if isinstance(target, (ast.Tuple, ast.List)) and (isinstance(value, Gen) or (hasattr(value, "__next__") and not isinstance(value, (list, tuple)))):
                value = list(self.iterate(value, target))
            return super().assign(target, value, env, mod, depth)

    _CINTERP.append(_CInterp)
    return _CInterp


def _harness(ctx):
    """A pyint interpreter for mitmproxy/command.py with `mitmproxy.types` bound to the real module except for CommandTypes (identity
    argument type for str / Cmd / CmdArgs), a CommandManager record with one command ``show(*values: str)`` and the list of calls it received."""
    import inspect
    import types as _types

    from ..pyint import ClassRef
    from ..pyint import Func
    from ..pyint import Interp
    from ..pyint import NullLog
    from ..pyint import Rec

    m = ctx.model
    tm = m.module(TYPES)

    def marker(name):
        node = tm.get(name)
        ctx.require(isinstance(node, ast.ClassDef), f"mitmproxy.types.{name} vanished")
        return ClassRef(tm, node)

    received: list = []
    ident = Func(m.module(CMD), ast.parse("lambda manager, t, s: s").body[0].value)
    argtype = Rec("ArgType", parse=ident)
    it = _interp_cls()(m, trusted_modules={"inspect": inspect, "logging": NullLog()})
    it.overrides[(CMD, "mitmproxy")] = _types.SimpleNamespace(types=("$module", tm))
    it.overrides[(TYPES, "CommandTypes")] = {str: argtype, marker("Cmd"): argtype, marker("CmdArgs"): argtype}
    mgr = Rec("CommandManager", _impl=(CMD, "CommandManager"), master=None)
    show = Rec("Command", _impl=(CMD, "Command"), name="show", manager=mgr, func=lambda *a, **kw: received.append(a), signature=_Sig(), help=None)
    object.__setattr__(mgr, "commands", {"show": show})
    return it, mgr, received, marker


def _execute_rule(ctx):
    from ..pyint import Raised
    from ..pyint import Rec

    ex = ctx.func(CMD, "CommandManager.execute")
    it, mgr, _, marker = _harness(ctx)
    space, cmd, unknown = marker("Space"), marker("Cmd"), marker("Unknown")
    toks = [("show", cmd), (" ", space), ("'a b'", str), ("  ", space), ('"x"', unknown), ("\t", space), ("plain", str), (" \r\n", space), ('"', str), (" ", space),
            ("''", str), (" ", space), ("'a\"", str), (" ", space), ("\"'q'\"", str), (" ", space), ("a'b'", unknown), (" ", space)]
    want = ["show", "a b", "x", "plain", '"', "", "'a\"", "'q'", "a'b'"]
    calls: list = []
    object.__setattr__(mgr, "parse_partial", lambda cmdstr: ([Rec("ParseResult", value=v, type=t, valid=True) for v, t in toks], []))
    object.__setattr__(mgr, "call_strings", lambda name, args: calls.append([name, *args]))
    try:
        it.call(CMD, "CommandManager.execute", mgr, "".join(v for v, _ in toks))
    except Raised as r:
        calls.append(f"<raises {r.name}>")
    ctx.cells += len(toks)
    ctx.check(calls == [want], "R45.4", (CMD, "CommandManager.execute", ex), "execute hands call_strings every non-Space token, unquoted once",
              f"arguments are dropped, merged or passed still quoted: tokens {[v for v, _ in toks]!r} reach call_strings as {calls!r}, expected {want!r}",
              desc=f"execute: {len(want)} non-space tokens of every type unquoted once, {len(toks) - len(want)} Space tokens dropped")


def _execute(ctx, lexer, line):
    """Interpret CommandManager.execute(line) -> the strings that reach the argument types (identity stub), or '<raises X>'."""
    from ..pyint import Raised

    it, mgr, received, _ = _harness(ctx)
    it.overrides[(LEX, "expr")] = lexer  # the interpreted expression object: parse_string() of the pyparsing model (a ParseException becomes an interpreted exception)
    try:
        it.call(CMD, "CommandManager.execute", mgr, line)
    except Raised as r:
        return f"<raises {r.name}>"
    if len(received) != 1:
        return f"<command called {len(received)} times>"
    return list(received[0])


def _pipeline_rule(ctx, lexer, run, candidates, trig):
    for qual in ("CommandManager.execute", "CommandManager.parse_partial", "CommandManager.call_strings", "Command.call", "Command.prepare_args"):
        ctx.func(CMD, qual)
    pa = ctx.func(CMD, "parsearg")
    VALUES = ["a", "abc", "a b", " a", "a ", "  ", "a\tb", "a\nb", "a\r\nb", "it's", 'say "hi"', "back\\slash", "C:\\dir\\x", "~q ! ~s", "caf\u00e9 \u4e2d", "a  b   c", "",
              "'", '"', "''", '""', "'a'", '"a"', '"hello world"', "'O Brien'", "'a' or 'b'", '"33a64df5"', "x='1'", '"a" b', "true", "-1", "@focus", "a=b,c"]
    VALUES += [f"a{c}b" for c in candidates if c not in "'\""]
    # obligation B: only characters str.isspace accepts, none of which makes quote() add quotes
    BLANK = [c for c in candidates if c.isspace() and c not in trig]
    BLANKS = BLANK + ([BLANK[0] * 2, BLANK[0] + BLANK[-1]] if BLANK else [])
    bad_a, bad_b = [], []
    for group, bad in ((VALUES, bad_a), (BLANKS, bad_b)):
        for v in group:
            qv = run("quote", v)
            ctx.require(isinstance(qv, str), f"quote({v!r}) -> {qv!r}")
            got = _execute(ctx, lexer, f"show {qv} tail")
            ctx.cells += 1
            if got != [v, "tail"]:
                bad.append((v, qv, got))
    # several arguments on one line: split between the arguments only
    many = ["plain", "with space", "", "it's", 'say "hi"', "'x'", "t\tab", "end"]
    got = _execute(ctx, lexer, "show " + "  ".join(run("quote", v) for v in many))
    ctx.cells += 1
    if got != many:
        bad_a.append((many, "(one line)", got))
    chars = sorted({v[1] for v, _, _ in bad_a if isinstance(v, str) and len(v) == 3 and v[0] == "a" and v[2] == "b"})
    other = [b for b in bad_a if not (isinstance(b[0], str) and len(b[0]) == 3 and b[0][1] in chars and b[0][0] == "a")]
    why = []
    if other:
        why.append("; ".join(f"{v!r} quoted as {qv} arrives as {g!r}" for v, qv, g in other[:4]) + (f" (+{len(other) - 4} more)" if len(other) > 4 else ""))
    if chars:
        why.append(f"a<c>b does not arrive as one unchanged argument for c in {chars!r}")
    ctx.check(not bad_a, "R45.5", (CMD, "parsearg", pa), "cmd quote(v) tail delivers [v, tail] to the argument types",
              "the interpreted path execute -> parse_partial -> call_strings -> Command.call -> prepare_args -> parsearg changes, splits or drops a quoted argument: " + " | ".join(why),
              desc=f"{len(VALUES) + 1} command lines: the argument types receive exactly the quoted values", examples=[repr(b) for b in bad_a[:8]])
    ctx.check(not bad_b, "R45.5", (CMD, "CommandManager.parse_partial", ctx.func(CMD, "CommandManager.parse_partial")), "a bare argument made only of Unicode whitespace reaches the command",
              f"quote() leaves a value made only of whitespace characters outside its trigger set bare ({[v for v, _, _ in bad_b][:6]!r} ...), but the token does not "
              f"reach the command as one unchanged argument (typed Space and dropped, or merged with the separating blanks): `show {bad_b[0][1]!r} tail` delivers {bad_b[0][2]!r}" if bad_b else "",
              desc=f"{len(BLANKS)} whitespace-only bare values reach the argument types", examples=[repr(b) for b in bad_b[:8]])
    ctx.bounds.append(f"R45.5: {len(VALUES) + len(BLANKS) + 1} command lines interpreted (representative values + a<c>b for {len(candidates)} candidate characters)")
    ctx.trust("pyparsing tokenisation as modelled (ZeroOrMore/MatchFirst/Word/CharsNotIn/Regex, leave_whitespace); inspect.Signature.bind")


MUTANTS = [
    # reverse of the F-C45tab fix (5a3229b09)
    Mutant("F-C45tab-reverted-tabs-expanded", LEX, "    .parse_with_tabs()\n", "", "R45.6"),
    Mutant("second-escape-without-inverse", LEX, "return '\"' + val.replace('\"', r\"\\x22\") + '\"'", "return '\"' + val.replace('\"', r\"\\x22\").replace(\"\\t\", r\"\\x09\") + '\"'", "R45.1"),
    Mutant("tab-not-trigger", LEX, "for char in \"'\\\" \\r\\n\\t\")", "for char in \"'\\\" \\r\\n\")", "R45.2"),
    Mutant("lexer-splits-on-comma", LEX, 'pyparsing.Word(" \\r\\n\\t")', 'pyparsing.Word(" \\r\\n\\t,")', "R45.2"),
    Mutant("empty-string-bare", LEX, "    if val and all(char", "    if all(char", "R45.2"),
    Mutant("quoted-token-stops-at-space", LEX, '"[^"]*(?:"|$)  # double', '"[^" ]*(?:"|$)  # double', "R45.3"),
    Mutant("unquote-strips-mismatched", LEX, "and x[0] == x[-1]:", "and x[-1] in \"'\\\"\":", "R45.3"),
    Mutant("double-quote-even-if-present", LEX, "    if '\"' not in val:\n        return f'\"{val}\"'", "    if \"'\" in val:\n        return f'\"{val}\"'", "R45.3"),
    # seed C45a: token classes rewritten as regexes over the Unicode whitespace category (and harmless variants must stay silent: see R45.2)
    Mutant("lexer-classes-as-unicode-regexes", LEX, '        | pyparsing.Word(" \\r\\n\\t")\n        | pyparsing.CharsNotIn("""\'" \\r\\n\\t""")',
           '        | pyparsing.Regex(r"\\s+")\n        | pyparsing.Regex(r"""[^\'"\\s]+""")', "R45.2"),
    Mutant("lexer-whitespace-adds-formfeed", LEX, 'pyparsing.Word(" \\r\\n\\t")\n        | pyparsing.CharsNotIn("""\'" \\r\\n\\t""")',
           'pyparsing.Word(" \\r\\n\\t\\f")\n        | pyparsing.CharsNotIn("""\'" \\r\\n\\t\\f""")', "R45.2"),
    Mutant("execute-keeps-quotes", CMD, "unquote(part.value) for part in parts if part.type != mitmproxy.types.Space", "part.value for part in parts if part.type != mitmproxy.types.Space", "R45.4"),
    # R45.5 - seed C45b (a second unquote behind execute) and other edits of the argument on its way to the type
    Mutant("parsearg-unquotes-again", CMD, "        return t.parse(manager, argtype, spec)", "        return t.parse(manager, argtype, unquote(spec))", "R45.5"),
    Mutant("execute-unquotes-twice", CMD, "unquote(part.value) for part in parts if part.type != mitmproxy.types.Space", "unquote(unquote(part.value)) for part in parts if part.type != mitmproxy.types.Space", "R45.5"),
    Mutant("prepare-args-strips", CMD, "parsearg(self.manager, x, convert_to) for x in value", "parsearg(self.manager, x.strip(), convert_to) for x in value", "R45.5"),
    Mutant("empty-quoted-argument-typed-space", CMD, '            if not part.strip(" \\r\\n\\t"):', '            if not unquote(part).strip(" \\r\\n\\t"):', "R45.5"),
    # reverse of the F-C45ws fix (98c12efba): Space typed by str.isspace, wider than the lexer's whitespace class
    Mutant("F-C45ws-reverted", CMD, '            if not part.strip(" \\r\\n\\t"):', "            if part.isspace():", "R45.5"),
    Mutant("call-strings-drops-empty-arguments", CMD, "        return self.commands[command_name].call(args)", "        return self.commands[command_name].call([a for a in args if a])", "R45.5"),
]
