"""C45 - command-line arguments reach commands unchanged.

Decided (structural clauses, narrow):
  R45.1 escape pairing: every substitution quote() applies to the value (`str.replace(a, b)`) has an inverse in
        unquote().   (Today: '"' -> r'\\x22' has none - known finding F-C45, the FIXME in the test-suite.)
  R45.2 the three character tables agree: the characters that make quote() add quotes == the lexer's whitespace
        class + both quote characters == the characters excluded from the bare-word class; so a string quote()
        leaves bare is one bare token, and everything else is quoted.
  R45.3 what quote() emits is one lexer token: "[^"]*" and '[^']*' are included in the language of the lexer's
        quoted-string regex (language inclusion on the parsed regex); unquote() strips exactly one matching quote pair.
  R45.4 CommandManager.execute drops only Space tokens and unquotes every other token.
Not decided: equality for all strings at run time (pyparsing's tokenisation is library behaviour).
"""

from __future__ import annotations

import ast
import re

from .. import rx
from ..core import AnalysisError
from ..core import norm
from ..model import attr_chain
from ..model import last_attr
from ..model import walk_in_order
from ..selftest import Mutant

PROP = "C45"
REG = {
    "strength": "narrow",
    "technique": "escape-pair agreement, character-table agreement, regex language inclusion",
    "claim": "quote()'s substitutions are inverted by unquote() (one known finding), the quoting trigger set equals the lexer's separator sets, "
    "quote()'s output forms are single lexer tokens, execute() drops only whitespace tokens.",
    "note": "pyparsing (Regex, Word, CharsNotIn, ZeroOrMore) is trusted.",
}

LEX = "mitmproxy/command_lexer.py"
CMD = "mitmproxy/command.py"


def _str_const(node):
    if isinstance(node, ast.Constant) and isinstance(node.value, str):
        return node.value
    return None


def check(ctx):
    ctx.rule("R45.1", "every replace() in quote has an inverse in unquote")
    ctx.rule("R45.2", "quote trigger characters == lexer whitespace + quotes == CharsNotIn set")
    ctx.rule("R45.3", "quote()'s output forms are single quoted-string tokens; unquote strips one matching pair")
    ctx.rule("R45.4", "execute drops only Space tokens and unquotes the rest")
    m = ctx.model
    q = ctx.func(LEX, "quote")
    u = ctx.func(LEX, "unquote")
    mod = m.module(LEX)

    # ---- R45.1
    subs = []
    for c in walk_in_order(q):
        if isinstance(c, ast.Call) and isinstance(c.func, ast.Attribute) and c.func.attr == "replace" and len(c.args) == 2:
            a, b = _str_const(c.args[0]), _str_const(c.args[1])
            ctx.require(a is not None and b is not None, f"quote: replace() with non-literal operands: {norm(c)}")
            subs.append((a, b, c))
    inverse = set()
    for c in walk_in_order(u):
        if isinstance(c, ast.Call) and isinstance(c.func, ast.Attribute) and c.func.attr == "replace" and len(c.args) == 2:
            a, b = _str_const(c.args[0]), _str_const(c.args[1])
            if a is not None and b is not None:
                inverse.add((a, b))
    decodes = any(isinstance(c, ast.Call) and last_attr(c.func) in ("escape_decode", "unicode_escape_decode", "literal_eval") for c in walk_in_order(u))
    ctx.require(len(subs) <= 4, "quote: more substitutions than the rule was confirmed on")
    if not subs:
        ctx.ok("R45.1", "quote applies no substitution")
    for a, b, c in subs:
        ctx.check((b, a) in inverse or decodes, "R45.1", (LEX, "quote", c), f"replace({a!r}, {b!r})", f"unquote() never turns {b!r} back into {a!r}: a value containing {a!r} (and the other quote character) reaches the command altered",
                  desc=f"replace({a!r},{b!r}) inverted")

    # ---- R45.2 / R45.3: quote() and unquote() are pure string functions: interpret their AST (pyint, `re` trusted)
    import re as _re

    from ..pyint import Interp
    from ..pyint import Raised

    def run(fname, arg):
        it = Interp(m, trusted_modules={"re": _re})
        try:
            return it.call(LEX, fname, arg)
        except Raised as r:
            return f"<raises {r.name}>"

    # the lexer's character classes (literals or module-level string constants)
    def str_arg(call):
        a0 = call.args[0] if call.args else None
        v = _str_const(a0)
        if v is None and isinstance(a0, ast.Name) and mod.assigns(a0.id):
            v = _str_const(mod.assigns(a0.id)[-1])
        return v

    words = [c for v in mod.assigns("expr") for c in ast.walk(v) if isinstance(c, ast.Call) and last_attr(c.func) == "Word"]
    notin = [c for v in mod.assigns("expr") for c in ast.walk(v) if isinstance(c, ast.Call) and last_attr(c.func) == "CharsNotIn"]
    ctx.require(len(words) == 1 and len(notin) == 1, "lexer expr: Word(...) / CharsNotIn(...) alternatives not found")
    ws, excl = str_arg(words[0]), str_arg(notin[0])
    ctx.require(ws is not None and excl is not None, "lexer expr: non-literal character classes")
    where = (LEX, "<module>", mod.assigns("expr")[-1])
    ctx.check(set(excl) == set(ws) | {'"', "'"}, "R45.2", where, f"CharsNotIn({excl!r}) vs Word({ws!r}) + quotes", "bare words and separators/quotes do not partition the characters: some character is in no token class or in two",
              desc="lexer classes partition")
    # which characters make quote() add quotes?  (semantic: interpret quote on 'a<c>b' for every candidate character)
    candidates = [chr(i) for i in range(0, 128)] + ["\u00a0", "\u2003", "\u00e9", "\u4e2d"]
    trig = {c for c in candidates if run("quote", f"a{c}b") != f"a{c}b"}
    ctx.cells += len(candidates)
    ctx.check(trig == set(excl), "R45.2", (LEX, "quote", q), f"characters that make quote() add quotes == lexer separators {sorted(excl)!r}",
              f"quote() leaves a string bare although the lexer would split or re-interpret it (or quotes needlessly): differing characters {sorted(trig ^ set(excl))!r}",
              desc="quote trigger == lexer separators")
    ctx.check(run("quote", "") not in ("", None), "R45.2", (LEX, "quote", q), "empty string is quoted", "the empty string must be quoted (a bare empty token does not exist, the argument would vanish)", desc="empty value is quoted")

    # ---- R45.3
    pats = rx.find_call_patterns(mod.assigns("PartialQuotedString")[-1], funcs=("compile",)) if mod.assigns("PartialQuotedString") else []
    ctx.require(len(pats) == 1, "PartialQuotedString is no longer pyparsing.Regex(re.compile(<literal>, flags))")
    _, pat, flags = pats[0]
    lang = rx.nfa_of(pat, flags)
    for label, ref in (("double", r'"[^"]*"'), ("single", r"'[^']*'")):
        only_ref, only_code = rx.compare(rx.nfa_of(ref), lang, exclude=frozenset())
        ctx.check(only_ref is None, "R45.3", (LEX, "<module>", mod.assigns("PartialQuotedString")[-1]), f"{label}-quoted strings are one token",
                  f"quote() can emit {rx.show(only_ref)} which the quoted-string token does not accept as a whole", desc=f"{label}-quoted form accepted")
    SAMPLES = ["", "a", "abc", "a b", " a", "a ", "a\tb", "a\nb", "a\r\nb", "it's", 'say "hi"', "back\\slash", "\\x22", "~q ! ~s", "caf\u00e9 \u4e2d", "a  b   c", "'", '"', "''", '""', "'a'", '"a"', "it's \"x\"", "\"'", "a'b\"c d"]
    bad_form, bad_rt = [], []
    for v in SAMPLES:
        out = run("quote", v)
        ctx.cells += 1
        if not isinstance(out, str):
            bad_form.append((v, out))
            continue
        bare_ok = out == v and v != "" and not (set(v) & set(excl))
        quoted_ok = len(out) >= 2 and out[0] in "'\"" and out[-1] == out[0] and out[0] not in out[1:-1] and lang.accepts(out)
        if not (bare_ok or quoted_ok):
            bad_form.append((v, out))
        back = run("unquote", out)
        if back != v and not ("'" in v and '"' in v):  # both quote characters: the escape of R45.1 (known finding) applies
            bad_rt.append((v, out, back))
    ctx.check(not bad_form, "R45.3", (LEX, "quote", q), "quote() output is a bare word or one matching-quote token",
              f"quote() emits something the lexer does not read as exactly one token: {bad_form[:3]}", desc="quote output is one token")
    ctx.check(not bad_rt, "R45.3", (LEX, "unquote", u), "unquote(quote(v)) == v for values without both quote characters",
              f"quote/unquote do not round-trip: {bad_rt[:3]}", desc="quote/unquote round-trip on representatives")
    UNQ = [("plain", "plain"), ("'a b'", "a b"), ('"a b"', "a b"), ("'", "'"), ('"', '"'), ("'a\"", "'a\""), ("\"a'", "\"a'"), ("a'b'", "a'b'"), ("''", ""), ("'a'b'", "a'b")]
    bad_u = [(x, run("unquote", x), w) for x, w in UNQ if run("unquote", x) != w]
    ctx.cells += len(UNQ)
    ctx.check(not bad_u, "R45.3", (LEX, "unquote", u), "unquote strips exactly one matching quote pair and nothing else", f"unquote misbehaves: {bad_u[:3]}", desc="unquote strips one matching pair")
    ctx.bounds.append("R45.2/R45.3: quote()/unquote() interpreted on 132 candidate characters and 22+10 representative strings (both-quote-characters strings are the known finding of R45.1)")

    # ---- R45.4
    ex = ctx.func(CMD, "CommandManager.execute")
    gens = [n for n in walk_in_order(ex) if isinstance(n, ast.GeneratorExp)]
    ok = False
    for g in gens:
        if isinstance(g.elt, ast.Call) and last_attr(g.elt.func) == "unquote" and norm(g.elt.args[0]) == "part.value":
            ifs_ = g.generators[0].ifs
            ok = len(ifs_) == 1 and norm(ifs_[0]) == "part.type != mitmproxy.types.Space"
    ctx.check(ok, "R45.4", (CMD, "CommandManager.execute", ex), "unquote(part.value) for part in parts if part.type != Space", "arguments are dropped, merged or passed still quoted", desc="execute unquotes all non-space tokens")


MUTANTS = [
    Mutant("second-escape-without-inverse", LEX, "return '\"' + val.replace('\"', r\"\\x22\") + '\"'", "return '\"' + val.replace('\"', r\"\\x22\").replace(\"\\t\", r\"\\x09\") + '\"'", "R45.1"),
    Mutant("tab-not-trigger", LEX, "for char in \"'\\\" \\r\\n\\t\")", "for char in \"'\\\" \\r\\n\")", "R45.2"),
    Mutant("lexer-splits-on-comma", LEX, 'pyparsing.Word(" \\r\\n\\t")', 'pyparsing.Word(" \\r\\n\\t,")', "R45.2"),
    Mutant("empty-string-bare", LEX, "    if val and all(char", "    if all(char", "R45.2"),
    Mutant("quoted-token-stops-at-space", LEX, '"[^"]*(?:"|$)  # double', '"[^" ]*(?:"|$)  # double', "R45.3"),
    Mutant("unquote-strips-mismatched", LEX, "and x[0] == x[-1]:", "and x[-1] in \"'\\\"\":", "R45.3"),
    Mutant("double-quote-even-if-present", LEX, "    if '\"' not in val:\n        return f'\"{val}\"'", "    if \"'\" in val:\n        return f'\"{val}\"'", "R45.3"),
    Mutant("execute-keeps-quotes", CMD, "unquote(part.value) for part in parts if part.type != mitmproxy.types.Space", "part.value for part in parts if part.type != mitmproxy.types.Space", "R45.4"),
]
