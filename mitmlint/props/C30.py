"""C30 - QUIC streams are demultiplexed onto correctly paired streams (RawQuicLayer).

Decided:
  R30.1  finite evaluation of `RawQuicLayer.get_next_available_stream_id` (its AST, with the `next_stream_id` table
         read from `__init__`): for every sequence of allocations over the four (initiator, directionality) classes up
         to length 6 the returned ids are pairwise distinct, bit 0 = initiator (0 client / 1 server) and bit 1 =
         directionality (0 bidi / 1 uni) exactly as requested (RFC 9000 s.2.1).
  R30.2  symbolic path analysis of the stream branch of `RawQuicLayer._handle_event`, case-split on the direction:
         an unknown stream creates ONE QuicStreamLayer that is registered under its client id (= the event's id for
         client streams; = a fresh id allocated with is_client=False and the SAME directionality for server streams)
         and, for server streams, bound to and registered under the event's server id; known streams are looked up in
         the map of the side the event came from; data / end-of-stream go to that layer's virtual connection of the
         same side; a reset is re-issued as ResetQuicStream only for the FIN the child sends on the paired stream id,
         with the peer's error code.  `QuicStreamLayer` stores both ids where `stream_id()` reads them.
  R30.3  symbolic path analysis of `RawQuicLayer.event_to_child`, case-split on the target side: SendData /
         CloseConnection on a stream's virtual connection become SendQuicStreamData / StopSendingQuicStream on the REAL
         connection of the same side with `child_layer.stream_id(<same side>)`, payload = the command's data; OpenConnection
         allocates the server id with is_client=True and the client stream's directionality, binds it and registers
         it in `server_stream_ids`.
  R30.4  (seed C30a) the stream-id maps only grow.  Use classification of EVERY occurrence of `client_stream_ids` /
         `server_stream_ids` in the repository, also through local aliases (`stream_ids = A if c else B`, `for m in
         (A, B)`): the attributes are bound once, in `RawQuicLayer.__init__`, to an empty dict; entries are only looked
         up, tested for membership, iterated or stored; nothing removes an entry (`pop` / `popitem` / `clear` / `del
         m[k]` / `__delitem__`) or re-binds / deletes the attribute.  Necessary for "every client stream is relayed to
         exactly ONE server stream ... for any interleaving": QUIC never reuses a stream id, but events for an id may
         still arrive after both halves finished (RESET_STREAM racing with / answering a FIN or STOP_SENDING, late
         data); membership in these maps is the ONLY thing that lets `_handle_event` attribute such an event to the
         layer that owns the id (R30.2 shows creation is decided by `event.stream_id in stream_ids`), so a forgotten
         id makes the late event create a second layer and a second paired stream.  A map that escapes (passed to a
         callee that is no pure builtin, stored elsewhere, returned) is not modelled -> exit 2.
  R30.5  (seed C30b) decision table of the two halves' initial capabilities, by finite evaluation (pyint) of the ASTs of
         `QuicStreamLayer.__init__` (client half) and `QuicStreamLayer.open_server_stream` (server half) for stream ids
         of all four (initiator, directionality) classes x every state the *other* connection / the copied real
         connection can be in at that moment: bidirectional -> OPEN / OPEN; unidirectional client-initiated -> client
         CAN_READ, server CAN_WRITE; unidirectional server-initiated -> client CAN_WRITE, server CAN_READ (RFC 9000
         s.2.1: only the initiator sends) - a function of the id class ALONE.  Necessary because `event_to_child`
         forwards SendData / FIN only under `state & CAN_WRITE` and the child relays / finishes by CAN_READ: a half
         whose capability depends on what already happened on the other half (e.g. the client's FIN processed before
         the server stream is opened) silently drops the stream's data and FIN, or writes on a receive-only stream.
         `ConnectionState` members are read from mitmproxy/connection.py.
NOT decided: aioquic's stream state machine, flow control, datagrams.
"""

from __future__ import annotations

import ast
import enum
import itertools

from ..core import AnalysisError
from ..core import norm
from ..model import attr_chain
from ..model import last_attr
from ..paths import C
from ..paths import is_const
from ..paths import traces_of
from ..pyint import Interp
from ..pyint import Raised as PyRaised
from ..pyint import Rec
from ..selftest import Mutant
from ._helpers_D import attr_of
from ._helpers_D import Concrete
from ._helpers_D import Raised
from ._helpers_D import show
from ._helpers_D import sym
from ._helpers_D import SymSpec

PROP = "C30"
REG = {
    "strength": "partial",
    "technique": "finite evaluation of the stream-id allocator AST + symbolic path analysis (case split on direction) of stream registration "
    "and of the command translation in RawQuicLayer + repository-wide use classification of the stream-id maps (grow-only) + decision table "
    "of the stream halves' initial capabilities (pyint evaluation over id classes x states of the other half)",
    "claim": "allocated stream ids are unique with correct initiator/direction bits; a new stream creates exactly one layer registered under "
    "the paired ids of the same directionality; events are routed via the map of their own side; commands on a stream's virtual connection "
    "are translated to the real connection of the same side with that side's stream id; resets hit only the paired stream id; a registered "
    "stream id is never forgotten (late events cannot create a second stream); each half's read/write capability is a function of the "
    "stream id class alone (RFC 9000 table), independent of what already happened on the other half.",
    "note": "stream_is_unidirectional / stream_is_client_initiated are aioquic library predicates (opaque, assumed to implement RFC 9000 bits); "
    "event.stream_id and allocated ids are ints (never None). Loops unrolled once.",
}

RAW = "mitmproxy/proxy/layers/quic/_raw_layers.py"


# ---------------------------------------------------------------------------------------------------
# R30.1


def check_r301(ctx):
    m = ctx.model
    fn = ctx.func(RAW, "RawQuicLayer.get_next_available_stream_id")
    init = ctx.func(RAW, "RawQuicLayer.__init__")
    table = None
    for st in ast.walk(init):
        if isinstance(st, ast.Assign) and any(attr_chain(t) == "self.next_stream_id" for t in st.targets):
            try:
                table = ast.literal_eval(st.value)
            except Exception:
                raise AnalysisError(f"RawQuicLayer.next_stream_id is not initialised with a literal: {norm(st.value)}")
    ctx.require(isinstance(table, list) and all(isinstance(x, int) for x in table), "RawQuicLayer.__init__ no longer initialises next_stream_id with a list of ints")
    params = [a.arg for a in fn.args.args]
    ctx.require(params == ["self", "is_client", "is_unidirectional"], f"get_next_available_stream_id signature changed: {params}")
    classes = [(c, u) for c in (True, False) for u in (True, False)]
    where = (RAW, "RawQuicLayer.get_next_available_stream_id", fn)
    depth = 6 if ctx.tier == "thorough" else 5
    bad = {}
    n = 0
    # per-class behaviour is independent of history only if the rule shows it: enumerate all sequences
    for seq in itertools.product(range(4), repeat=depth):
        attrs = {"next_stream_id": list(table)}
        seen = {}
        ev = Concrete(self_attrs=attrs, max_steps=20000)
        for k, ci in enumerate(seq):
            is_client, uni = classes[ci]
            try:
                sid = ev.call(fn, is_client, uni)
            except Raised as r:
                bad.setdefault("allocation raises", (seq[: k + 1], f"raises {r.name}"))
                break
            n += 1
            if not isinstance(sid, int) or isinstance(sid, bool) or sid < 0:
                bad.setdefault("allocated id is not a non-negative int", (seq[: k + 1], repr(sid)))
                break
            if (sid & 1) != (0 if is_client else 1):
                bad.setdefault("initiator bit of the allocated id is wrong", (seq[: k + 1], f"id {sid} for is_client={is_client}"))
            if (sid >> 1 & 1) != (1 if uni else 0):
                bad.setdefault("directionality bit of the allocated id is wrong", (seq[: k + 1], f"id {sid} for is_unidirectional={uni}"))
            if sid in seen:
                bad.setdefault("the same stream id is allocated twice", (seq[: k + 1], f"id {sid} already returned by call #{seen[sid] + 1}"))
            seen.setdefault(sid, k)
    ctx.cells += n
    for why, (seq, what) in bad.items():
        calls = [f"(is_client={classes[c][0]}, uni={classes[c][1]})" for c in seq]
        ctx.fail("R30.1", where, why, f"starting from next_stream_id={table}, the allocation sequence {calls}: {what}")
    if not bad:
        ctx.ok("R30.1", f"{4 ** depth} allocation sequences of length {depth} ({n} calls): ids unique, initiator and directionality bits correct")
    # default of is_unidirectional must be bidirectional
    d = fn.args.defaults
    if d:
        ctx.check(isinstance(d[-1], ast.Constant) and d[-1].value is False, "R30.1", where, "is_unidirectional defaults to False",
                  "omitting is_unidirectional would allocate a unidirectional id", desc="default directionality = bidirectional")


# ---------------------------------------------------------------------------------------------------
# R30.2 / R30.3


class QuicSpec(SymSpec):
    def stmt_events(self, stmt, st, depth):
        out = []
        v = stmt.value if isinstance(stmt, (ast.Expr, ast.Assign)) else None
        if isinstance(v, ast.Yield) and isinstance(v.value, ast.Call):
            out.append(("yield", last_attr(v.value.func), self.args(v.value, st, depth)))
        elif isinstance(v, ast.Yield) and v.value is not None:
            out.append(("yield_value", self.value(v.value, st, depth)))
        elif isinstance(v, ast.YieldFrom) and isinstance(v.value, ast.Call):
            out.append(("sub", attr_chain(v.value.func), self.args(v.value, st, depth)))
        elif isinstance(stmt, ast.Expr) and isinstance(v, ast.Call) and isinstance(v.func, ast.Attribute):
            out.append(("mcall", self.value(v.func.value, st, depth), v.func.attr, self.args(v, st, depth)))
        if isinstance(stmt, ast.Assign):
            for t in stmt.targets:
                if isinstance(t, ast.Subscript):
                    out.append(("store", self.value(t.value, st, depth), self.value(t.slice, st, depth), self.value(stmt.value, st, depth)))
        return out

    def args(self, call, st, depth):
        return tuple(self.value(a, st, depth) for a in call.args) + tuple(("kw", k.arg, self.value(k.value, st, depth)) for k in call.keywords)

    def events(self, node, st):
        if isinstance(node, ast.Call) and attr_chain(node.func) in ("self.close_stream_layer", "self.event_to_child"):
            return [("iter", attr_chain(node.func), self.args(node, st, self._depth))]
        return []

    def cond_event(self, expr, value, st):
        if isinstance(expr, ast.Compare) and len(expr.ops) == 1:
            return ("cond", norm(expr), value, self.value(expr.left, st, self._depth), self.value(expr.comparators[0], st, self._depth))
        return ("cond", norm(expr), value, None, None)

    def decide_leaf(self, cond, st, depth):
        # named assumption: stream ids (event.stream_id, allocator results) are ints, never None
        if isinstance(cond, ast.Compare) and len(cond.ops) == 1 and isinstance(cond.ops[0], (ast.Is, ast.IsNot)):
            a, b = self.value(cond.left, st, depth), self.value(cond.comparators[0], st, depth)
            if b == C(None) and (a == sym("event.stream_id") or (isinstance(a, tuple) and a[0] == "call" and a[1].endswith("get_next_available_stream_id"))):
                return isinstance(cond.ops[0], ast.IsNot)
        return SymSpec.decide_leaf(self, cond, st, depth)


def kwargs_of(v, params):
    """symbolic call -> {param: value} (positional mapped through ``params``)"""
    if not (isinstance(v, tuple) and v and v[0] == "call"):
        return None
    return argmap(v[2], params)


def argmap(args, params):
    out = {}
    pos = [a for a in args if not (isinstance(a, tuple) and a and a[0] == "kw")]
    if len(pos) > len(params):
        return None
    for p, a in zip(params, pos):
        out[p] = a
    for a in args:
        if isinstance(a, tuple) and a and a[0] == "kw":
            out[a[1]] = a[2]
    return out


ALLOC = ["is_client", "is_unidirectional"]


def is_alloc(v, is_client, same_direction_as):
    kw = kwargs_of(v, ALLOC)
    if kw is None or not v[1].endswith("get_next_available_stream_id"):
        return False, f"{show(v)} is not an id from get_next_available_stream_id"
    if kw.get("is_client") != C(is_client):
        return False, f"id allocated with is_client={show(kw.get('is_client'))}, must be {is_client} (initiator bit)"
    u = kw.get("is_unidirectional")
    if not (isinstance(u, tuple) and u[0] == "call" and u[1] == "stream_is_unidirectional" and u[2] == (same_direction_as,)):
        return False, f"id allocated with is_unidirectional={show(u) if u is not None else 'default (bidirectional)'}, must be stream_is_unidirectional({show(same_direction_as)})"
    return True, ""


def check_r302(ctx):
    m = ctx.model
    fn = ctx.func(RAW, "RawQuicLayer._handle_event")
    where = (RAW, "RawQuicLayer._handle_event", fn)
    loop_vars = SymSpec.loop_vars_of(fn)
    EID = sym("event.stream_id")
    seen = {"create": 0, "lookup": 0, "data": 0, "end": 0, "reset": 0}
    for from_client in (True, False):
        side = "client" if from_client else "server"
        own_map = sym(f"self.{side}_stream_ids")
        spec = QuicSpec(loop_vars=loop_vars, forced={"from_client": from_client})
        traces, eng = traces_of(fn, spec)
        ctx.paths += len(traces)
        for trace, how, st in traces:
            conds = {e[1]: e[2] for e in trace if e[0] == "cond"}
            if not conds.get("isinstance(event, QuicStreamEvent)") or how != "return":
                continue
            known = conds.get("event.stream_id in stream_ids")
            if known is None:
                continue  # the second conjunct of the branch condition was false: another branch handled the event
            stores = [e for e in trace if e[0] == "store"]
            layers = [e for e in stores if e[1] in (sym("self.client_stream_ids"), sym("self.server_stream_ids"))]
            opens = [e for e in trace if e[0] == "mcall" and e[2] == "open_server_stream"]
            # which layer do the forwarding statements use?
            if known:
                seen["lookup"] += 1
                SL = ("idx", own_map, EID)
                ctx.check(not layers and not opens, "R30.2", where, "known stream: no new registration",
                          f"[from {side}] an already registered stream id registers again: {[(show(e[1]), show(e[2])) for e in layers]}", desc=f"[from {side}] known stream only looked up")
            else:
                seen["create"] += 1
                news = [e for e in layers if isinstance(e[3], tuple) and e[3][0] == "call" and e[3][1] == "QuicStreamLayer"]
                Ls = {e[3] for e in news}
                if len(Ls) != 1:
                    ctx.fail("R30.2", where, "a new stream creates exactly one registered QuicStreamLayer", f"[from {side}] {len(Ls)} distinct stream layers are registered for one new stream ({[(show(e[1]), show(e[2])) for e in layers]})")
                    continue
                SL = next(iter(Ls))
                kw = kwargs_of(SL, ["context", "force_raw", "stream_id"])
                cid = kw.get("stream_id") if kw else None
                cl = [e for e in layers if e[1] == sym("self.client_stream_ids")]
                sv = [e for e in layers if e[1] == sym("self.server_stream_ids")]
                if from_client:
                    ok = cid == EID and [(e[2], e[3]) for e in cl] == [(EID, SL)] and not sv and not opens
                    ctx.check(ok, "R30.2", where, "client stream: layer(stream_id=event.stream_id) registered under event.stream_id only",
                              f"[from client] new client stream: layer client id {show(cid)}, client map {[(show(e[2])) for e in cl]}, server map {[(show(e[2])) for e in sv]}, "
                              f"open_server_stream {[show(a) for e in opens for a in e[3]]}; expected client id = event.stream_id, no server id yet", desc="[from client] new stream registered under its own id")
                else:
                    good, why = is_alloc(cid, False, EID)
                    ok = good and [(e[2], e[3]) for e in cl] == [(cid, SL)] and [(e[2], e[3]) for e in sv] == [(EID, SL)] and [(e[1], e[3]) for e in opens] == [(SL, (EID,))]
                    if good and not ok:
                        why = (f"client map {[(show(e[2])) for e in cl]}, server map {[(show(e[2])) for e in sv]}, open_server_stream {[show(a) for e in opens for a in e[3]]}; "
                               "expected: client map[new id], server map[event.stream_id], open_server_stream(event.stream_id), all for the same layer")
                    ctx.check(ok, "R30.2", where, "server stream: client id allocated (is_client=False, same directionality), both maps registered, server id bound",
                              f"[from server] new server-initiated stream: {why}", desc="[from server] new stream: paired ids registered in both maps")
            # forwarding
            conn = attr_of(SL, side)
            for e in trace:
                if e[0] == "sub" and e[1] == "self.event_to_child" and len(e[2]) == 2 and isinstance(e[2][1], tuple) and e[2][1][0] == "call" and e[2][1][1] == "events.DataReceived":
                    seen["data"] += 1
                    a = e[2][1][2]
                    ok = e[2][0] == SL and a == (conn, sym("event.data"))
                    ctx.check(ok, "R30.2", where, "stream data goes to the stream's layer on its own side's virtual connection",
                              f"[from {side}] data is delivered as DataReceived({', '.join(show(x) for x in a)}) to {show(e[2][0])}; expected ({show(conn)}, event.data) to the stream's layer {show(SL)}",
                              desc=f"[from {side}] data -> DataReceived(layer.{side}, event.data)")
                if (e[0] in ("sub", "iter")) and e[1] == "self.close_stream_layer":
                    seen["end"] += 1
                    ok = e[2] == (SL, C(from_client))
                    ctx.check(ok, "R30.2", where, "end of stream / reset closes the same side of the stream's layer",
                              f"[from {side}] close_stream_layer({', '.join(show(x) for x in e[2])}); expected ({show(SL)}, {from_client})", desc=f"[from {side}] end/reset closes layer.{side}")
            resets = [e for e in trace if e[0] == "yield" and e[1] == "ResetQuicStream"]
            for e in resets:
                seen["reset"] += 1
                CMD = ("elem", ("call", "self.close_stream_layer", (SL, C(from_client)), 0))
                kw = argmap(e[2], ["connection", "stream_id", "error_code"])
                paired = [c for c in trace if c[0] == "cond" and c[2] is True and c[3] == attr_of(CMD, "stream_id")
                          and isinstance(c[4], tuple) and c[4][:3] == ("call", "stream_layer.stream_id", (C(not from_client),))]
                ok = kw is not None and kw.get("connection") == attr_of(CMD, "connection") and kw.get("stream_id") == attr_of(CMD, "stream_id") and kw.get("error_code") == sym("event.error_code") and len(paired) >= 1
                ctx.check(ok, "R30.2", where, "reset re-issued on the paired stream id with the peer's error code",
                          f"[from {side}] ResetQuicStream({', '.join(show(x) for x in e[2])}) guarded by {[c[1] for c in trace if c[0] == 'cond' and 'command' in c[1] and c[2]]}; "
                          f"expected the child's FIN command's connection/stream_id, compared with stream_layer.stream_id({not from_client}), and event.error_code",
                          desc=f"[from {side}] reset -> ResetQuicStream(paired id, event.error_code)")
    need = {"create": 2, "lookup": 2, "data": 2, "end": 4, "reset": 2}
    if not ctx.findings:
        for k, n in need.items():
            ctx.require(seen[k] >= n, f"_handle_event: only {seen[k]} '{k}' paths analysed (expected >= {n})")
    # QuicStreamLayer id storage
    qi = ctx.func(RAW, "QuicStreamLayer.__init__")
    qo = ctx.func(RAW, "QuicStreamLayer.open_server_stream")
    qs = ctx.func(RAW, "QuicStreamLayer.stream_id")
    res = {}
    for client in (True, False):
        try:
            res[client] = Concrete(self_attrs={"_client_stream_id": 1001, "_server_stream_id": 2002}).call(qs, client)
        except Raised as r:
            res[client] = f"raises {r.name}"
    ctx.check(res == {True: 1001, False: 2002}, "R30.2", (RAW, "QuicStreamLayer.stream_id", qs), "stream_id(client) selects the client / server id",
              f"stream_id(True)/stream_id(False) evaluate to {res[True]}/{res[False]} for client id 1001 and server id 2002", desc="stream_id(client) -> client id, stream_id(False) -> server id")
    for f, attr, param in ((qi, "self._client_stream_id", "stream_id"), (qo, "self._server_stream_id", "server_stream_id")):
        traces, eng = traces_of(f, SymSpec())
        finals = {st.get(attr) for t, how, st in traces if how == "return"}
        ctx.check(finals == {sym(param)}, "R30.2", (RAW, f"QuicStreamLayer.{f.name}", f), f"{attr} = {param}",
                  f"{f.name} leaves {attr} = {[show(v) for v in finals]}: stream_id() would report another id than the one registered", desc=f"{f.name}: {attr} <- {param}")


def check_r303(ctx):
    fn = ctx.func(RAW, "RawQuicLayer.event_to_child")
    where = (RAW, "RawQuicLayer.event_to_child", fn)
    ctx.require([a.arg for a in fn.args.args] == ["self", "child_layer", "event"], "event_to_child signature changed")
    loop_vars = SymSpec.loop_vars_of(fn)
    CMD = ("elem", ("call", "child_layer.handle_event", (sym("event"),), 0))
    CH = sym("child_layer")
    seen = {"data": 0, "fin": 0, "stop": 0, "open": 0}
    for to_client in (True, False):
        side = "client" if to_client else "server"
        real = sym(f"self.context.{side}")
        spec = QuicSpec(loop_vars=loop_vars, forced={"to_client": to_client})
        traces, eng = traces_of(fn, spec)
        ctx.paths += len(traces)
        for trace, how, st in traces:
            if how != "return":
                continue
            conds = {e[1]: e[2] for e in trace if e[0] == "cond"}
            if not conds.get("isinstance(child_layer, QuicStreamLayer)"):
                continue
            for e in trace:
                if e[0] != "yield" or e[1] not in ("SendQuicStreamData", "StopSendingQuicStream", "ResetQuicStream"):
                    continue
                kw = argmap(e[2], ["connection", "stream_id", "data", "end_stream"] if e[1] == "SendQuicStreamData" else ["connection", "stream_id", "error_code"])
                if kw is None:
                    raise AnalysisError(f"event_to_child: cannot read the arguments of {e[1]}: {e[2]}")
                sid = kw.get("stream_id")
                own = isinstance(sid, tuple) and sid[0] == "call" and sid[1] == "child_layer.stream_id" and argmap(sid[2], ["client"]) == {"client": C(to_client)}
                ok = kw.get("connection") == real and own
                what = "data"
                if e[1] == "SendQuicStreamData":
                    if conds.get("isinstance(command, commands.SendData)"):
                        seen["data"] += 1
                        ok = ok and kw.get("data") == attr_of(CMD, "data") and kw.get("end_stream", C(False)) == C(False)
                    else:
                        seen["fin"] += 1
                        what = "FIN"
                        ok = ok and kw.get("data") == C(b"") and kw.get("end_stream") == C(True)
                else:
                    seen["stop"] += 1
                    what = "STOP_SENDING"
                ctx.check(ok, "R30.3", where, f"{what} for the stream's virtual {side} connection -> real {side} connection, that side's stream id",
                          f"[to {side}] {e[1]}({', '.join(show(x) for x in e[2])}); expected connection {show(real)}, stream id child_layer.stream_id({to_client})"
                          + (", payload command.data" if what == "data" else ""), desc=f"[to {side}] {what} -> {e[1]}(real {side} conn, {side} stream id)")
            if conds.get("isinstance(command, commands.OpenConnection)") and not to_client and st.has("0:stream_id"):
                # (st.has: the translating branch binds the local `stream_id`; the pass-through branch tests the same condition text)
                seen["open"] += 1
                stores = [e for e in trace if e[0] == "store" and e[1] == sym("self.server_stream_ids")]
                opens = [e for e in trace if e[0] == "mcall" and e[2] == "open_server_stream"]
                if len(stores) != 1:
                    ctx.fail("R30.3", where, "OpenConnection registers the new server stream id", f"OpenConnection on a stream registers {len(stores)} server stream ids")
                    continue
                nid = stores[0][2]
                csid = None
                kw = kwargs_of(nid, ALLOC)
                if kw and isinstance(kw.get("is_unidirectional"), tuple) and kw["is_unidirectional"][0] == "call" and len(kw["is_unidirectional"][2]) == 1:
                    csid = kw["is_unidirectional"][2][0]
                is_cid = isinstance(csid, tuple) and csid[0] == "call" and csid[1] == "child_layer.stream_id" and argmap(csid[2], ["client"]) == {"client": C(True)}
                good, why = is_alloc(nid, True, csid) if is_cid else (False, f"directionality is taken from {show(csid) if csid else 'nothing'}, must be that of child_layer.stream_id(client=True)")
                ok = good and stores[0][3] == CH and [(e[1], e[3]) for e in opens] == [(CH, (nid,))]
                if good and not ok:
                    why = f"registered layer {show(stores[0][3])}, open_server_stream {[(show(e[1]), [show(a) for a in e[3]]) for e in opens]}"
                ctx.check(ok, "R30.3", where, "OpenConnection: server id allocated (is_client=True, client stream's directionality), bound and registered",
                          f"OpenConnection of a stream layer: {why}", desc="OpenConnection -> paired server stream id allocated, bound, registered")
    need = {"data": 2, "fin": 2, "stop": 2, "open": 1}
    if not ctx.findings:
        for k, n in need.items():
            ctx.require(seen[k] >= n, f"event_to_child: only {seen[k]} '{k}' paths analysed (expected >= {n})")


# ---------------------------------------------------------------------------------------------------
# R30.4: the stream-id maps only grow

MAPS = ("client_stream_ids", "server_stream_ids")
REMOVERS = {"pop", "popitem", "clear", "__delitem__"}
READERS = {"get", "items", "keys", "values", "copy", "__contains__", "__getitem__", "__len__", "__iter__"}
ADDERS = {"setdefault", "update", "__setitem__"}
PURE_CALLEES = {"len", "list", "sorted", "iter", "bool", "dict", "tuple", "set", "frozenset", "any", "all", "max", "min", "repr", "str", "enumerate", "reversed", "print", "isinstance"}
TRANSPARENT = (ast.IfExp, ast.BoolOp, ast.NamedExpr)


def _scope(node):
    n = getattr(node, "_parent", None)
    while n is not None and not isinstance(n, (ast.FunctionDef, ast.AsyncFunctionDef, ast.Lambda)):
        n = getattr(n, "_parent", None)
    return n


def _qual(node):
    n = node
    while n is not None and not hasattr(n, "_qual"):
        n = getattr(n, "_parent", None)
    return getattr(n, "_qual", "<module>") if n is not None else "<module>"


class MapUses:
    """classification of every occurrence of the stream-id maps in one module"""

    def __init__(self, mod):
        self.mod = mod
        self.aliases = {}  # scope node -> {local name: set of map names}
        self.nodes = list(ast.walk(mod.tree))
        self._fix_aliases()

    def maps_of(self, e, scope):
        """the maps an expression may evaluate to (empty: none)"""
        if isinstance(e, ast.Attribute) and e.attr in MAPS:
            return {e.attr}
        if isinstance(e, ast.Name):
            return set(self.aliases.get(scope, {}).get(e.id, ()))
        if isinstance(e, ast.IfExp):
            return self.maps_of(e.body, scope) | self.maps_of(e.orelse, scope)
        if isinstance(e, ast.BoolOp):
            out = set()
            for v in e.values:
                out |= self.maps_of(v, scope)
            return out
        if isinstance(e, ast.NamedExpr):
            return self.maps_of(e.value, scope)
        return set()

    def _bind(self, target, value, scope):
        changed = False
        if isinstance(target, ast.Name):
            got = self.maps_of(value, scope)
            if isinstance(value, (ast.Tuple, ast.List)):  # `for m in (A, B)`: handled by the caller elementwise
                got = set()
            cur = self.aliases.setdefault(scope, {}).setdefault(target.id, set())
            if not got <= cur:
                cur |= got
                changed = True
        elif isinstance(target, (ast.Tuple, ast.List)) and isinstance(value, (ast.Tuple, ast.List)) and len(target.elts) == len(value.elts):
            for t, v in zip(target.elts, value.elts):
                changed |= self._bind(t, v, scope)
        return changed

    def _fix_aliases(self):
        for _ in range(8):
            changed = False
            for n in self.nodes:
                sc = _scope(n)
                if isinstance(n, ast.Assign):
                    for t in n.targets:
                        changed |= self._bind(t, n.value, sc)
                elif isinstance(n, ast.AnnAssign) and n.value is not None:
                    changed |= self._bind(n.target, n.value, sc)
                elif isinstance(n, ast.NamedExpr):
                    changed |= self._bind(n.target, n.value, sc)
                elif isinstance(n, (ast.For, ast.AsyncFor, ast.comprehension)):
                    it = n.iter
                    if isinstance(it, (ast.Tuple, ast.List, ast.Set)):
                        for v in it.elts:
                            changed |= self._bind(n.target, v, sc)
            if not changed:
                return
        raise AnalysisError(f"{self.mod.rel}: alias analysis of the stream-id maps does not converge")

    def occurrences(self):
        """(node, maps) for every expression node that denotes one of the maps: the attribute itself or a local alias"""
        for n in self.nodes:
            if isinstance(n, ast.Attribute) and n.attr in MAPS:
                yield n, {n.attr}
            elif isinstance(n, ast.Name) and not isinstance(n.ctx, ast.Store):
                got = self.maps_of(n, _scope(n))
                if got:
                    yield n, got

    def classify(self, n):
        """-> (kind, text)   kind in bind | alias | read | add | remove | rebind | escape"""
        if isinstance(n, ast.Attribute) and isinstance(n.ctx, ast.Store):
            p = n._parent
            if isinstance(p, ast.AnnAssign) and p.value is None:
                return "read", "declaration"
            if isinstance(p, (ast.Assign, ast.AnnAssign)):
                return "bind", norm(p)
            return "rebind", norm(p)
        if isinstance(n.ctx, ast.Del):
            if isinstance(n, ast.Name):
                return "read", "local alias unbound"
            return "remove", norm(n._parent)
        top, p = n, n._parent
        while isinstance(p, TRANSPARENT):
            if isinstance(p, ast.IfExp) and p.test is top:
                return "read", "truth value"
            if isinstance(p, ast.NamedExpr) and p.target is top:
                return "alias", norm(p)
            top, p = p, p._parent
        if isinstance(p, (ast.Assign, ast.AnnAssign)) and p.value is top:
            tg = p.targets if isinstance(p, ast.Assign) else [p.target]
            if all(isinstance(t, ast.Name) for t in tg):
                return "alias", norm(p)
            return "escape", f"stored in {norm(tg[0])}"
        if isinstance(p, (ast.Tuple, ast.List, ast.Set)):
            pp = p._parent
            if isinstance(pp, (ast.For, ast.AsyncFor, ast.comprehension)) and pp.iter is p:
                return "alias", f"for {norm(pp.target)} in {norm(p)}"
            if isinstance(pp, ast.Assign) and pp.value is p and all(isinstance(t, (ast.Tuple, ast.List)) and len(t.elts) == len(p.elts) and all(isinstance(x, ast.Name) for x in t.elts) for t in pp.targets):
                return "alias", norm(pp)
            return "escape", f"put into {norm(p)[:60]}"
        if isinstance(p, ast.Subscript) and p.value is top:
            if isinstance(p.ctx, ast.Del):
                return "remove", f"del {norm(p)}"
            if isinstance(p.ctx, ast.Store):
                if isinstance(p._parent, ast.AugAssign):
                    return "escape", norm(p._parent)
                return "add", norm(p._parent)
            return "read", norm(p)
        if isinstance(p, ast.Compare):
            return "read", norm(p)
        if isinstance(p, ast.Attribute) and p.value is top:
            if p.attr in REMOVERS:
                return "remove", norm(p)
            pp = p._parent
            if isinstance(pp, ast.Call) and pp.func is p:
                if p.attr in READERS:
                    return "read", norm(pp)
                if p.attr in ADDERS:
                    return "add", norm(pp)
            return "escape", f"{norm(p)}: method not modelled"
        if isinstance(p, ast.Call) and top is not p.func:
            if isinstance(p.func, ast.Name) and p.func.id in PURE_CALLEES:
                return "read", norm(p)
            return "escape", f"passed to {norm(p.func)}"
        if isinstance(p, (ast.For, ast.AsyncFor, ast.comprehension)) and p.iter is top:
            return "read", "iteration"
        if isinstance(p, (ast.If, ast.While, ast.Assert)) and p.test is top:
            return "read", "truth value"
        if isinstance(p, ast.UnaryOp) and isinstance(p.op, ast.Not):
            return "read", "truth value"
        if isinstance(p, (ast.FormattedValue, ast.Expr)):
            return "read", "formatting"
        if isinstance(p, ast.Delete):
            return "remove", norm(p)
        if isinstance(p, ast.AugAssign):
            return "escape", norm(p)
        return "escape", f"used in {norm(p)[:80]}"


def is_empty_dict(v):
    return (isinstance(v, ast.Dict) and not v.keys) or (isinstance(v, ast.Call) and isinstance(v.func, ast.Name) and v.func.id == "dict" and not v.args and not v.keywords)


def check_r304(ctx):
    binds = {m: [] for m in MAPS}
    seen = {"read": 0, "add": 0, "alias": 0}
    rels = sorted({p.relative_to(ctx.model.repo).as_posix() for p in (ctx.model.repo / "mitmproxy").rglob("*.py")} | {r for r in ctx.model.overrides if r.startswith("mitmproxy/")})
    for rel in rels:
        if rel.startswith("mitmproxy/contrib/") or not any(m in ctx.model.source(rel) for m in MAPS):
            continue  # (textual pre-filter only: a module that never spells the attribute names cannot touch the maps directly)
        mod = ctx.model.module(rel)
        uses = MapUses(mod)
        for n, maps in uses.occurrences():
            kind, text = uses.classify(n)
            qual = _qual(n)
            where = (mod.rel, qual, n)
            names = "/".join(sorted(maps))
            if kind == "escape":
                raise AnalysisError(f"{mod.rel}:{n.lineno} [{qual}] stream-id map {names} escapes the use classification of R30.4 ({text})")
            if kind == "bind":
                p = n._parent
                ok = qual == "RawQuicLayer.__init__" and mod.rel == RAW and is_empty_dict(p.value) and _scope(n) is not None and all(
                    not isinstance(a, (ast.For, ast.While, ast.If, ast.Try)) for a in _ancestors(n, _scope(n)))
                binds[n.attr].append((mod.rel, qual, ok))
                ctx.check(ok, "R30.4", where, f"{n.attr} is bound once, to an empty dict, in RawQuicLayer.__init__",
                          f"`{text}` re-binds the stream-id map: every stream registered so far is forgotten, a later event for one of them creates a second stream layer",
                          desc=f"{n.attr} initialised empty in RawQuicLayer.__init__")
            elif kind in ("remove", "rebind"):
                ctx.fail("R30.4", where, f"{names}: `{text}` removes registered stream ids",
                         f"`{text}` forgets a registered stream id: QUIC never reuses stream ids, but a late event for it (RESET_STREAM after FIN, data after STOP_SENDING) "
                         "is then no longer attributed to the layer that owns the stream - a second stream layer and a second paired stream are created")
            else:
                seen[kind] += 1
                ctx.ok("R30.4", f"[{qual}] {names}: {kind}: {text[:70]}")
    for m in MAPS:
        if len(binds[m]) != 1 and not any(f.rule == "R30.4" for f in ctx.findings):
            if not binds[m]:
                raise AnalysisError(f"R30.4: no binding of {m} found (anchor moved)")
            ctx.fail("R30.4", (binds[m][1][0], binds[m][1][1], 0), f"{m} is bound once, to an empty dict, in RawQuicLayer.__init__",
                     f"{m} is bound {len(binds[m])} times ({[b[1] for b in binds[m]]})")
    if not any(f.rule == "R30.4" for f in ctx.findings):
        ctx.require(seen["add"] >= 3 and seen["read"] >= 2, f"R30.4: only {seen} uses of the stream-id maps classified (registration / lookup anchors moved)")


def _ancestors(n, stop):
    p = getattr(n, "_parent", None)
    while p is not None and p is not stop:
        yield p
        p = getattr(p, "_parent", None)


# ---------------------------------------------------------------------------------------------------
# R30.5: initial capabilities of the two halves = function of the stream id class

CONN = "mitmproxy/connection.py"


def connection_state_flag(ctx):
    """the ConnectionState Flag, rebuilt from the class body in mitmproxy/connection.py"""
    cls = ctx.model.cls(CONN, "ConnectionState")
    vals = {}

    def ev(e):
        if isinstance(e, ast.Constant) and isinstance(e.value, int) and not isinstance(e.value, bool):
            return e.value
        if isinstance(e, ast.Name) and e.id in vals:
            return vals[e.id]
        if isinstance(e, ast.BinOp) and isinstance(e.op, (ast.BitOr, ast.BitAnd, ast.LShift)):
            a, b = ev(e.left), ev(e.right)
            return a | b if isinstance(e.op, ast.BitOr) else (a & b if isinstance(e.op, ast.BitAnd) else a << b)
        raise AnalysisError(f"ConnectionState member value not modelled: {norm(e)}")

    for st in cls.body:
        if isinstance(st, ast.Assign) and len(st.targets) == 1 and isinstance(st.targets[0], ast.Name):
            vals[st.targets[0].id] = ev(st.value)
    ctx.require({"CLOSED", "CAN_READ", "CAN_WRITE", "OPEN"} <= set(vals), f"ConnectionState members changed: {sorted(vals)}")
    r, w = vals["CAN_READ"], vals["CAN_WRITE"]
    ctx.require(vals["CLOSED"] == 0 and r and w and not (r & w) and vals["OPEN"] == r | w and bin(r).count("1") == 1 and bin(w).count("1") == 1,
                f"ConnectionState is no longer CLOSED=0 / two distinct bits / OPEN = both: {vals}")
    return enum.Flag("ConnectionState", {k: v for k, v in vals.items()})


class _Clock:
    @staticmethod
    def time():
        return 1.0


def half_table(CS):
    """(unidirectional, client_initiated) -> (client half, server half)    RFC 9000 s.2.1: only the initiator of a unidirectional stream sends"""
    return {
        (False, True): (CS.OPEN, CS.OPEN),
        (False, False): (CS.OPEN, CS.OPEN),
        (True, True): (CS.CAN_READ, CS.CAN_WRITE),
        (True, False): (CS.CAN_WRITE, CS.CAN_READ),
    }


def substates(CS, s):
    """the states a connection that started in ``s`` can be in later (capabilities are only ever removed)"""
    return [x for x in (CS.OPEN, CS.CAN_READ, CS.CAN_WRITE, CS.CLOSED) if (x & s) == x]


def _interp(ctx, CS, extra_externals=None):
    it = Interp(ctx.model, trusted_modules={"time": _Clock}, externals=extra_externals or {}, max_steps=20000)
    it.overrides[(RAW, "stream_is_unidirectional")] = lambda sid: bool(sid & 2)
    it.overrides[(RAW, "stream_is_client_initiated")] = lambda sid: not (sid & 1)
    return it


def check_r305(ctx):
    CS = connection_state_flag(ctx)
    table = half_table(CS)
    qi = ctx.func(RAW, "QuicStreamLayer.__init__")
    qo = ctx.func(RAW, "QuicStreamLayer.open_server_stream")
    ctx.require([a.arg for a in qo.args.args] == ["self", "server_stream_id"], "open_server_stream signature changed")
    ctx.require([a.arg for a in qi.args.args] == ["self", "context", "force_raw", "stream_id"], "QuicStreamLayer.__init__ signature changed")
    ids = {cls: [b, b + 4, b + 4 * 37] for cls, b in (((False, True), 0), ((False, False), 1), ((True, True), 2), ((True, False), 3))}
    name = {(False, True): "bidirectional client-initiated", (False, False): "bidirectional server-initiated",
            (True, True): "unidirectional client-initiated", (True, False): "unidirectional server-initiated"}
    n = 0

    # --- server half: open_server_stream(server_stream_id), the client half being in any state it can have reached
    bad = {}
    for cls, sids in ids.items():
        for sid in sids:
            for cstate in substates(CS, table[cls][0]):
                for sprev in (CS.CLOSED,):
                    it = _interp(ctx, CS, {"self.refresh_metadata": lambda: None})
                    it.overrides[(RAW, "connection")] = Rec("connection", ConnectionState=CS)
                    me = Rec("QuicStreamLayer", _impl=(RAW, "QuicStreamLayer"), _client_stream_id=sid ^ 0, _server_stream_id=None,
                             client=Rec("Client", state=cstate, timestamp_start=1.0, timestamp_end=None),
                             server=Rec("Server", state=sprev, timestamp_start=None, timestamp_end=None), child_layer=None)
                    try:
                        it.method(me, "open_server_stream", sid)
                    except PyRaised as r:
                        raise AnalysisError(f"open_server_stream({sid}) raises {r.name} in the R30.5 evaluation (not modelled)")
                    n += 1
                    got = me.server.state
                    if not isinstance(got, CS):
                        raise AnalysisError(f"open_server_stream leaves server.state = {got!r} (no ConnectionState)")
                    if got != table[cls][1]:
                        bad.setdefault(name[cls], (sid, cstate, got, table[cls][1]))
    for k, (sid, cstate, got, want) in bad.items():
        ctx.fail("R30.5", (RAW, "QuicStreamLayer.open_server_stream", qo), f"server half of a {k} stream starts as {want.name}",
                 f"open_server_stream({sid}) while the client half is {cstate.name} leaves server.state = {got.name}, expected {want.name}: "
                 + ("event_to_child drops SendData and the FIN for a connection without CAN_WRITE - the stream's data never reaches the paired server stream"
                    if (want & CS.CAN_WRITE) and not (got & CS.CAN_WRITE) else "the capability of a half must follow from the stream id class alone (RFC 9000 s.2.1)"))
    if not bad:
        ctx.ok("R30.5", f"open_server_stream: server half = f(id class) for {n} (server id, client state) cases: bidi OPEN, uni client-initiated CAN_WRITE, uni server-initiated CAN_READ")

    # --- client half: __init__(context, force_raw, stream_id), the real client connection being in any state
    bad = {}
    m = 0
    for cls, sids in ids.items():
        for sid in sids:
            for real in (CS.OPEN, CS.CAN_READ, CS.CAN_WRITE, CS.CLOSED):
                child = Rec("ChildLayer", handle_event="handle_event", _handle_event="_handle_event", flow=None, layer=None)
                it = _interp(ctx, CS, {"self.refresh_metadata": lambda: None, "super().__init__": lambda *a, **k: None,
                                       "TCPLayer": lambda *a, **k: child, "QuicStreamNextLayer": lambda *a, **k: child})

                def server_conn(**kw):
                    return Rec("Server", state=CS.CLOSED, timestamp_start=None, timestamp_end=None, **{k: v for k, v in kw.items() if k not in ("state",)})

                it.overrides[(RAW, "connection")] = Rec("connection", ConnectionState=CS, Server=server_conn)

                def client_copy(real=real):
                    return Rec("Client", state=real, transport_protocol="udp", timestamp_start=1.0, timestamp_end=None)

                context = Rec("Context", client=Rec("Client", state=real, transport_protocol="udp", copy=client_copy),
                              server=Rec("Server", address=("example", 443), state=CS.OPEN), layers=[], options=None)
                me = Rec("QuicStreamLayer", _impl=(RAW, "QuicStreamLayer"))
                try:
                    it.method(me, "__init__", context, True, sid)
                except PyRaised as r:
                    raise AnalysisError(f"QuicStreamLayer.__init__(stream_id={sid}) raises {r.name} in the R30.5 evaluation (not modelled)")
                m += 1
                cl = me.__dict__.get("client")
                got = getattr(cl, "state", None) if isinstance(cl, Rec) else None
                if not isinstance(got, CS):
                    raise AnalysisError(f"QuicStreamLayer.__init__ leaves client.state = {got!r} (no ConnectionState)")
                if got != table[cls][0]:
                    bad.setdefault(name[cls], (sid, real, got, table[cls][0]))
    for k, (sid, real, got, want) in bad.items():
        ctx.fail("R30.5", (RAW, "QuicStreamLayer.__init__", qi), f"client half of a {k} stream starts as {want.name}",
                 f"QuicStreamLayer(stream_id={sid}) with the QUIC client connection {real.name} leaves client.state = {got.name}, expected {want.name}: "
                 "the capability of a half must follow from the stream id class alone (RFC 9000 s.2.1); event_to_child sends only under CAN_WRITE, the child finishes by CAN_READ")
    if not bad:
        ctx.ok("R30.5", f"QuicStreamLayer.__init__: client half = f(id class) for {m} (client id, real connection state) cases: bidi OPEN, uni client-initiated CAN_READ, uni server-initiated CAN_WRITE")
    ctx.cells += n + m


def check(ctx):
    ctx.rule("R30.1", "allocated stream ids: unique, initiator bit and directionality bit as requested (finite evaluation of all short sequences)")
    ctx.rule("R30.2", "one layer per new stream, registered under paired ids of the same directionality; routing by own side's map; reset only on the paired id")
    ctx.rule("R30.3", "commands on a stream's virtual connection are translated to the real connection / stream id of the same side; OpenConnection pairs the server id")
    ctx.rule("R30.4", "the stream-id maps only grow: bound once (empty) in RawQuicLayer.__init__, no removal / re-binding anywhere (late events must find the owning layer)")
    ctx.rule("R30.5", "initial read/write capability of a stream's client and server half is the RFC 9000 function of the stream id class alone")
    ctx.assume("stream ids are ints (event.stream_id and allocator results are never None)")
    ctx.trust("aioquic stream_is_unidirectional / stream_is_client_initiated implement the RFC 9000 id bits")
    check_r301(ctx)
    check_r302(ctx)
    check_r303(ctx)
    ctx.guard(check_r304, ctx)
    ctx.guard(check_r305, ctx)
    for rule, n in (("R30.1", 2), ("R30.2", 15), ("R30.3", 7), ("R30.4", 9), ("R30.5", 2)):
        if not any(f.rule == rule for f in ctx.findings):
            ctx.expect_instances(rule, n)


MUTANTS = [
    # R30.1
    Mutant("allocator-step-2", RAW, "        self.next_stream_id[index] = stream_id + 4\n", "        self.next_stream_id[index] = stream_id + 2\n", "R30.1"),
    Mutant("allocator-never-advances", RAW, "        self.next_stream_id[index] = stream_id + 4\n", "", "R30.1"),
    Mutant("allocator-initiator-bit-inverted", RAW, "index = (int(is_unidirectional) << 1) | int(not is_client)", "index = (int(is_unidirectional) << 1) | int(is_client)", "R30.1"),
    Mutant("allocator-bits-swapped", RAW, "index = (int(is_unidirectional) << 1) | int(not is_client)", "index = (int(not is_client) << 1) | int(is_unidirectional)", "R30.1"),
    Mutant("allocator-table-permuted", RAW, "        self.next_stream_id = [0, 1, 2, 3]\n", "        self.next_stream_id = [0, 2, 1, 3]\n", "R30.1"),
    Mutant("allocator-shared-counter", RAW, "        self.next_stream_id[index] = stream_id + 4\n", "        self.next_stream_id[index ^ 2] = stream_id + 4\n", "R30.1"),
    # R30.2
    Mutant("server-stream-client-id-as-client-initiated", RAW, "                    client_stream_id = self.get_next_available_stream_id(\n                        is_client=False,", "                    client_stream_id = self.get_next_available_stream_id(\n                        is_client=True,", "R30.2"),
    Mutant("server-stream-directionality-lost", RAW, "                        is_client=False,\n                        is_unidirectional=stream_is_unidirectional(event.stream_id),\n", "                        is_client=False,\n", "R30.2"),
    Mutant("server-stream-not-registered", RAW, "                    self.server_stream_ids[server_stream_id] = stream_layer\n", "", "R30.2"),
    Mutant("client-map-keyed-by-event-id", RAW, "                self.client_stream_ids[client_stream_id] = stream_layer\n", "                self.client_stream_ids[event.stream_id] = stream_layer\n", "R30.2"),
    Mutant("lookup-in-wrong-map", RAW, "                self.client_stream_ids if from_client else self.server_stream_ids\n", "                self.server_stream_ids if from_client else self.client_stream_ids\n", "R30.2"),
    Mutant("data-to-wrong-virtual-connection", RAW, "                stream_layer.client if from_client else stream_layer.server\n            )\n            if isinstance(event, QuicStreamDataReceived):",
           "                stream_layer.server if from_client else stream_layer.client\n            )\n            if isinstance(event, QuicStreamDataReceived):", "R30.2"),
    Mutant("end-of-stream-closes-other-side", RAW, "                    yield from self.close_stream_layer(stream_layer, from_client)\n", "                    yield from self.close_stream_layer(stream_layer, not from_client)\n", "R30.2"),
    Mutant("reset-on-own-stream-id", RAW, "and command.stream_id == stream_layer.stream_id(not from_client)", "and command.stream_id == stream_layer.stream_id(from_client)", "R30.2"),
    Mutant("reset-error-code-dropped", RAW, "                            command.connection, command.stream_id, event.error_code\n", "                            command.connection, command.stream_id, 0\n", "R30.2"),
    Mutant("stream-id-selector-inverted", RAW, "        return self._client_stream_id if client else self._server_stream_id", "        return self._server_stream_id if client else self._client_stream_id", "R30.2"),
    # R30.3
    Mutant("translate-to-other-real-connection", RAW, "                quic_conn = self.context.client if to_client else self.context.server\n", "                quic_conn = self.context.server if to_client else self.context.client\n", "R30.3"),
    Mutant("translate-with-other-sides-stream-id", RAW, "                stream_id = child_layer.stream_id(to_client)\n", "                stream_id = child_layer.stream_id(not to_client)\n", "R30.3"),
    Mutant("fin-carries-no-end-stream", RAW, "                            quic_conn, stream_id, b\"\", end_stream=True\n", "                            quic_conn, stream_id, b\"\"\n", "R30.3"),
    Mutant("open-allocates-server-initiated-id", RAW, "                    stream_id = self.get_next_available_stream_id(\n                        is_client=True,", "                    stream_id = self.get_next_available_stream_id(\n                        is_client=False,", "R30.3"),
    Mutant("open-directionality-lost", RAW, "                        is_client=True,\n                        is_unidirectional=stream_is_unidirectional(client_stream_id),\n", "                        is_client=True,\n", "R30.3"),
    Mutant("open-not-registered", RAW, "                    self.server_stream_ids[stream_id] = child_layer\n", "", "R30.3"),
    # R30.4 (first = the essence of seed C30a)
    Mutant("finished-stream-forgotten", RAW, "            yield from self.event_to_child(stream_layer, events.ConnectionClosed(conn))\n",
           "            yield from self.event_to_child(stream_layer, events.ConnectionClosed(conn))\n            if stream_layer.client.timestamp_end and stream_layer.server.timestamp_end:\n"
           "                self.client_stream_ids.pop(stream_layer.stream_id(client=True), None)\n                self.server_stream_ids.pop(stream_layer.stream_id(client=False), None)\n", "R30.4"),
    Mutant("reset-stream-deleted-through-alias", RAW, "                # preserve stream resets\n", "                del stream_ids[event.stream_id]\n", "R30.4"),
    Mutant("server-map-rebound-on-connection-close", RAW, "            other_conn = self.context.server if from_client else self.context.client\n",
           "            other_conn = self.context.server if from_client else self.context.client\n            if not from_client:\n                self.server_stream_ids = {}\n", "R30.4"),
    Mutant("maps-cleared-in-a-loop", RAW, "            other_conn = self.context.server if from_client else self.context.client\n",
           "            other_conn = self.context.server if from_client else self.context.client\n            for ids in (self.client_stream_ids, self.server_stream_ids):\n                ids.clear()\n", "R30.4"),
    # R30.5 (first = the essence of seed C30b)
    Mutant("server-half-mirrors-current-client-state", RAW, "                if stream_is_client_initiated(server_stream_id)\n", "                if self.client.state & connection.ConnectionState.CAN_READ\n", "R30.5"),
    Mutant("server-half-capabilities-swapped", RAW, "                connection.ConnectionState.CAN_WRITE\n                if stream_is_client_initiated(server_stream_id)\n                else connection.ConnectionState.CAN_READ\n",
           "                connection.ConnectionState.CAN_READ\n                if stream_is_client_initiated(server_stream_id)\n                else connection.ConnectionState.CAN_WRITE\n", "R30.5"),
    Mutant("server-half-always-open", RAW, "            if stream_is_unidirectional(server_stream_id)\n            else connection.ConnectionState.OPEN\n", "            if False\n            else connection.ConnectionState.OPEN\n", "R30.5"),
    Mutant("client-half-capabilities-swapped", RAW, "                connection.ConnectionState.CAN_READ\n                if stream_is_client_initiated(stream_id)\n                else connection.ConnectionState.CAN_WRITE\n",
           "                connection.ConnectionState.CAN_WRITE\n                if stream_is_client_initiated(stream_id)\n                else connection.ConnectionState.CAN_READ\n", "R30.5"),
    Mutant("client-half-inherits-real-connection-state", RAW, "        self.client.state = connection.ConnectionState.OPEN\n", "", "R30.5"),
    Mutant("senddata-payload-dropped", RAW, "                        yield SendQuicStreamData(quic_conn, stream_id, command.data)\n", "                        yield SendQuicStreamData(quic_conn, stream_id, b\"\")\n", "R30.3"),
]
