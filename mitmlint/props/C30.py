"""C30 - QUIC streams are demultiplexed onto correctly paired streams (RawQuicLayer).

R30.1 / R30.2 / R30.3 / R30.5 are decided by INTERPRETING the analysed source (mitmlint.pyint, AST only - nothing is imported or run):
a `RawQuicLayer` record is built by its own `__init__`, its child layers are recording stubs, stream / connection events are fed to
`_handle_event` and every observable (the two stream-id maps, the ids `QuicStreamLayer.stream_id()` reports, the events each stream's
child receives, the commands that leave the layer) is compared with a small reference model of "relay one stream onto its paired
stream".  Nothing depends on the names of locals or private helpers, on branch order, `if` vs `match`, or on where a statement lives.

Decided:
  R30.1  finite evaluation of `RawQuicLayer.get_next_available_stream_id` on the state `RawQuicLayer.__init__` builds: for every
         sequence of allocations over the four (initiator, directionality) classes up to length 5 (thorough: 6) the returned ids are
         pairwise distinct, bit 0 = initiator (0 client / 1 server) and bit 1 = directionality (0 bidi / 1 uni) exactly as
         requested (RFC 9000 s.2.1); omitting `is_unidirectional` allocates a bidirectional id.
  R30.2  bounded exploration (all schedules of legitimate stream events up to a depth, see `EXPLORE`) of `_handle_event` with relaying
         child stubs, against the reference model: an unknown stream creates exactly ONE QuicStreamLayer, registered under its client
         id (= the event's id for client streams; = a fresh id with the server-initiator bit and the SAME directionality for
         server streams) and, for server streams, bound to and registered under the event's server id; a known stream (also a
         finished one: late RESET after FIN) is attributed to the layer that owns the id ON THAT SIDE - ids of the two connections
         overlap numerically in the explored worlds; data / end-of-stream reach only that layer's child, on the virtual connection
         of the side the event came from; a reset is re-issued as ResetQuicStream (peer's error code) exactly for the FIN the child
         sends on the paired stream; a QUIC connection close ends that side's half of every stream.  `QuicStreamLayer` reports the
         ids it was created with / bound to (`stream_id(True/False)`).
  R30.3  same exploration, the commands the child stubs issue on their stream's virtual connections: SendData becomes exactly one
         SendQuicStreamData(real connection of the SAME side, that side's stream id, the same bytes) while that half may send;
         a close becomes the FIN (b"", end_stream) there, once; StopSendingQuicStream only targets a half the child closed;
         no command for a virtual connection leaves the layer untranslated; OpenConnection allocates the server id with the
         client-initiator bit and the client stream's directionality, unique on the server connection, binds it and registers it
         in the server map.  Child close styles explored: half close, CloseConnection, CloseTcpConnection(half_close=False).
  R30.4  (seed C30a) the stream-id maps only grow.  Use classification of EVERY occurrence of `client_stream_ids` /
         `server_stream_ids` in the repository, also through local aliases (`stream_ids = A if c else B`, `for m in
         (A, B)`): the attributes are bound once, in `RawQuicLayer.__init__`, to an empty dict; entries are only looked
         up, tested for membership, iterated or stored; nothing removes an entry (`pop` / `popitem` / `clear` / `del
         m[k]` / `__delitem__`) or re-binds / deletes the attribute.  Necessary for "every client stream is relayed to
         exactly ONE server stream ... for any interleaving": QUIC never reuses a stream id, but events for an id may
         still arrive after both halves finished (RESET_STREAM racing with / answering a FIN or STOP_SENDING, late
         data); membership in these maps is the ONLY thing that lets `_handle_event` attribute such an event to the
         layer that owns the id, so a forgotten id makes the late event create a second layer and a second paired stream.
         A map that escapes (passed to a callee that is no pure builtin, stored elsewhere, returned) is not modelled -> exit 2.
  R30.5  (seed C30b) decision table of the two halves' initial capabilities, by interpretation of `QuicStreamLayer(...)` (client
         half) and `open_server_stream` (server half) for stream ids of all four (initiator, directionality) classes x every state
         the *other* half / the copied real connection can be in at that moment: bidirectional -> OPEN / OPEN; unidirectional
         client-initiated -> client CAN_READ, server CAN_WRITE; unidirectional server-initiated -> client CAN_WRITE, server CAN_READ
         (RFC 9000 s.2.1: only the initiator sends) - a function of the id class ALONE.  Necessary because the command translation
         forwards SendData / FIN only under `state & CAN_WRITE` and the child relays / finishes by CAN_READ: a half whose capability
         depends on what already happened on the other half silently drops the stream's data and FIN, or writes on a receive-only
         stream.  `ConnectionState` members are read from mitmproxy/connection.py.
NOT decided: aioquic's stream state machine, flow control, datagrams; schedules longer than the explored depth; peers that violate
RFC 9000 (data on a stream they may not send on, data after their own FIN, a foreign stream id of the class mitmproxy allocates).
"""

from __future__ import annotations

import ast
import collections
import enum
import re

from ..core import AnalysisError
from ..core import norm
from ..model import last_attr
from ..pyint import _Break
from ..pyint import _Continue
from ..pyint import _Return
from ..pyint import ClassRef
from ..pyint import Func
from ..pyint import Gen
from ..pyint import Interp
from ..pyint import NullLog
from ..pyint import Raised as PyRaised
from ..pyint import Rec
from ..selftest import Mutant

PROP = "C30"
REG = {
    "strength": "partial",
    "technique": "interpretation of the analysed source (pyint, AST only): finite evaluation of the stream-id allocator + bounded exploration of "
    "RawQuicLayer._handle_event over all short schedules of stream events with recording / relaying child stubs against a reference model "
    "(maps, reported ids, events per child, translated commands) + repository-wide use classification of the stream-id maps (grow-only) + "
    "decision table of the stream halves' initial capabilities (id classes x states of the other half)",
    "claim": "allocated stream ids are unique with correct initiator/direction bits; a new stream creates exactly one layer registered under "
    "the paired ids of the same directionality; events are routed via the map of their own side; commands on a stream's virtual connection "
    "are translated to the real connection of the same side with that side's stream id; resets hit only the paired stream id; a registered "
    "stream id is never forgotten (late events cannot create a second stream); each half's read/write capability is a function of the "
    "stream id class alone (RFC 9000 table), independent of what already happened on the other half.",
    "note": "stream_is_unidirectional / stream_is_client_initiated are aioquic library predicates (opaque, assumed to implement RFC 9000 bits); "
    "child layers are stubs that relay like TCPLayer (data to the other half, close as half close / full close); schedules bounded "
    "(quick: depth 2 over four concurrent streams + depth 3 per stream; thorough: one deeper).",
}

RAW = "mitmproxy/proxy/layers/quic/_raw_layers.py"
QEV = "mitmproxy/proxy/layers/quic/_events.py"
CMDS = "mitmproxy/proxy/commands.py"
CONN = "mitmproxy/connection.py"

SIDES = ("client", "server")
OTHER = {"client": "server", "server": "client"}
ALPHABET = ("SendQuicStreamData", "ResetQuicStream", "StopSendingQuicStream")


# ---------------------------------------------------------------------------------------------------
# generator functions of the analysed source, run as (native) coroutines of the interpreter


class NativeGen(Gen):
    """A call of a repository generator function, advanced statement by statement like CPython does: the body runs up to the next
    `yield` when the consumer asks for a value, and never twice.  (pyint's own `Gen` replays the body from the start for every value,
    which is exact only for consumers that do not touch the generator's state and quadratic in the number of yields; the layers
    analysed here nest four generators deep.)"""

    def __init__(self, interp, f, node, env, depth):
        Gen.__init__(self, interp, f, node, env, depth)
        self._g = interp.gen_body(node, env, f.mod, depth)

    def __iter__(self):
        return self

    def __next__(self):
        return next(self._g)


class LazyInterp(Interp):
    """pyint.Interp whose generator calls are NativeGen.  `yield` / `yield from` are supported where CPython code has them in practice:
    as an expression statement or as the whole right-hand side of an assignment, anywhere below if / for / while / match / try / with
    (suppress, nullcontext).  A yield in any other position is refused by the base interpreter (AnalysisError)."""

    def __init__(self, *a, **k):
        Interp.__init__(self, *a, **k)
        self._yields: dict = {}

    def stmt(self, st, env, mod, depth):
        if isinstance(st, ast.FunctionDef) and (st.args.defaults or any(d is not None for d in st.args.kw_defaults)):
            # a nested def: its parameter defaults are evaluated now, in the defining scope (the base interpreter evaluates them at the
            # call, in an empty scope)
            self.tick()
            f = Func(mod, st, closure=env)
            a = st.args
            names = [p.arg for p in a.posonlyargs + a.args][len(a.posonlyargs + a.args) - len(a.defaults):]
            f.def_time = {n: self.ev(d, env, mod, depth) for n, d in zip(names, a.defaults)}
            f.def_time.update({p.arg: self.ev(d, env, mod, depth) for p, d in zip(a.kwonlyargs, a.kw_defaults) if d is not None})
            env[st.name] = f
            return
        Interp.stmt(self, st, env, mod, depth)

    def call_func(self, f, args, kwargs, depth):
        dt = getattr(f, "def_time", None)
        if dt:
            a = f.node.args
            params = [p.arg for p in a.posonlyargs + a.args]
            given = set(params[: len(args) + (1 if f.bound is not None else 0)]) | set(kwargs)
            kwargs = dict(kwargs)
            kwargs.update({k: v for k, v in dt.items() if k not in given})
        r = Interp.call_func(self, f, args, kwargs, depth)
        if type(r) is Gen:
            return NativeGen(self, r.f, r.node, r.env, r.depth)
        return r

    def has_yield(self, st) -> bool:
        k = id(st)
        if k not in self._yields:
            found = False
            todo = [] if isinstance(st, (ast.FunctionDef, ast.AsyncFunctionDef, ast.ClassDef)) else [st]  # (a nested def is its own generator)
            while todo and not found:
                n = todo.pop()
                for c in ast.iter_child_nodes(n):
                    if isinstance(c, (ast.Yield, ast.YieldFrom)):
                        found = True
                        break
                    if not isinstance(c, (ast.FunctionDef, ast.AsyncFunctionDef, ast.Lambda, ast.ClassDef)):
                        todo.append(c)
            self._yields[k] = found
        return self._yields[k]

    def gen_body(self, node, env, mod, depth):
        try:
            yield from self.gblock(node.body, env, mod, depth)
        except _Return as r:
            return r.value
        return None

    def gblock(self, stmts, env, mod, depth):
        for st in stmts:
            if self.has_yield(st):
                yield from self.gstmt(st, env, mod, depth)
            else:
                self.stmt(st, env, mod, depth)

    def gyield(self, e, env, mod, depth):
        """the value of a `yield` / `yield from` expression (consumers of the analysed layers never send)"""
        if isinstance(e, ast.Yield):
            yield (self.ev(e.value, env, mod, depth) if e.value is not None else None)
            return None
        sub = self.ev(e.value, env, mod, depth)
        if isinstance(sub, NativeGen):
            return (yield from sub._g)
        for x in self.iterate(sub, e.value):
            yield x
        return None

    def gstmt(self, st, env, mod, depth):
        self.tick()
        v = getattr(st, "value", None)
        if isinstance(st, ast.Expr) and isinstance(v, (ast.Yield, ast.YieldFrom)):
            yield from self.gyield(v, env, mod, depth)
        elif isinstance(st, (ast.Assign, ast.AnnAssign)) and isinstance(v, (ast.Yield, ast.YieldFrom)):
            got = yield from self.gyield(v, env, mod, depth)
            for t in st.targets if isinstance(st, ast.Assign) else [st.target]:
                self.assign(t, got, env, mod, depth)
        elif isinstance(st, ast.Return) and isinstance(v, (ast.Yield, ast.YieldFrom)):
            raise _Return((yield from self.gyield(v, env, mod, depth)))
        elif isinstance(st, ast.If):
            yield from self.gblock(st.body if self.truthy(self.ev(st.test, env, mod, depth)) else st.orelse, env, mod, depth)
        elif isinstance(st, (ast.For, ast.While)):
            broke = False
            if isinstance(st, ast.For):
                items = self.iterate(self.ev(st.iter, env, mod, depth), st.iter)
            else:
                items = iter(lambda: self.truthy(self.ev(st.test, env, mod, depth)), False)
            for x in items:
                self.tick()
                if isinstance(st, ast.For):
                    self.assign(st.target, x, env, mod, depth)
                try:
                    yield from self.gblock(st.body, env, mod, depth)
                except _Break:
                    broke = True
                    break
                except _Continue:
                    continue
            if not broke:
                yield from self.gblock(st.orelse, env, mod, depth)
        elif isinstance(st, ast.Match):
            subj = self.ev(st.subject, env, mod, depth)
            for case in st.cases:
                if self.match(case.pattern, subj, env, mod, depth) and (case.guard is None or self.truthy(self.ev(case.guard, env, mod, depth))):
                    yield from self.gblock(case.body, env, mod, depth)
                    break
        elif isinstance(st, ast.Try):
            try:
                try:
                    yield from self.gblock(st.body, env, mod, depth)
                except PyRaised as r:
                    for h in st.handlers:
                        names = ["BaseException"] if h.type is None else [last_attr(e) for e in (h.type.elts if isinstance(h.type, ast.Tuple) else [h.type])]
                        if any(self.exc_isa(r.name, n, mod) for n in names):
                            if h.name:
                                env[h.name] = f"<exc:{r.name}>"
                            prev = env.get("$handling")
                            env["$handling"] = r.name
                            try:
                                yield from self.gblock(h.body, env, mod, depth)
                            finally:
                                if prev is None:
                                    env.pop("$handling", None)
                                else:
                                    env["$handling"] = prev
                            break
                    else:
                        raise
                else:
                    yield from self.gblock(st.orelse, env, mod, depth)
            finally:
                if st.finalbody:
                    if any(self.has_yield(x) for x in st.finalbody):
                        raise AnalysisError(f"yield inside a finally block is not modelled: {norm(st)[:80]}")
                    self.block(st.finalbody, env, mod, depth)
        elif isinstance(st, ast.With) and len(st.items) == 1 and st.items[0].optional_vars is None and isinstance(st.items[0].context_expr, ast.Call) \
                and last_attr(st.items[0].context_expr.func) in ("suppress", "nullcontext") and not st.items[0].context_expr.keywords:
            call = st.items[0].context_expr
            names = [last_attr(a) for a in call.args]
            try:
                yield from self.gblock(st.body, env, mod, depth)
            except PyRaised as r:
                if last_attr(call.func) == "nullcontext" or not any(self.exc_isa(r.name, n, mod) for n in names):
                    raise
        else:
            raise AnalysisError(f"a yield inside this statement is not modelled: {norm(st)[:100]}")


# ---------------------------------------------------------------------------------------------------
# the abstract world: one RawQuicLayer record, built and driven by interpretation


def connection_state_flag(ctx):
    """the ConnectionState Flag, rebuilt from the class body in mitmproxy/connection.py"""
    cls = ctx.model.cls(CONN, "ConnectionState")
    vals = {}

    def ev(e):
        if isinstance(e, ast.Constant) and isinstance(e.value, int) and not isinstance(e.value, bool):
            return e.value
        if isinstance(e, ast.Name) and e.id in vals:
            return vals[e.id]
        if isinstance(e, ast.BinOp) and isinstance(e.op, (ast.BitOr, ast.BitAnd, ast.LShift)):
            a, b = ev(e.left), ev(e.right)
            return a | b if isinstance(e.op, ast.BitOr) else (a & b if isinstance(e.op, ast.BitAnd) else a << b)
        raise AnalysisError(f"ConnectionState member value not modelled: {norm(e)}")

    for st in cls.body:
        if isinstance(st, ast.Assign) and len(st.targets) == 1 and isinstance(st.targets[0], ast.Name):
            vals[st.targets[0].id] = ev(st.value)
    ctx.require({"CLOSED", "CAN_READ", "CAN_WRITE", "OPEN"} <= set(vals), f"ConnectionState members changed: {sorted(vals)}")
    r, w = vals["CAN_READ"], vals["CAN_WRITE"]
    ctx.require(vals["CLOSED"] == 0 and r and w and not (r & w) and vals["OPEN"] == r | w and bin(r).count("1") == 1 and bin(w).count("1") == 1,
                f"ConnectionState is no longer CLOSED=0 / two distinct bits / OPEN = both: {vals}")
    return enum.Flag("ConnectionState", {k: v for k, v in vals.items()})


class _Clock:
    @staticmethod
    def time():
        return 1.0


def _memoise(model):
    """`Model.mro` / `Model.exists` stat the working tree on every call and pyint asks for the MRO on every attribute access of a bound
    record; the tree does not change during a run, so both are memoised on this Model instance (semantically transparent)."""
    if getattr(model, "_c30_memo", False):
        return

    def memo(f):
        cache = {}

        def cached(*a):
            if a not in cache:
                cache[a] = f(*a)
            return cache[a]

        return cached

    for name in ("mro", "exists"):
        setattr(model, name, memo(getattr(model, name)))
    model._c30_memo = True


class _ErrorCodes(enum.IntEnum):
    NO_ERROR = 0


class _Aioquic:
    """trusted stand-in for the three names the layer takes from aioquic (however they are imported): RFC 9000 s.2.1 id bits"""

    class quic:
        class connection:
            QuicErrorCode = _ErrorCodes

            @staticmethod
            def stream_is_unidirectional(stream_id):
                return bool(stream_id & 2)

            @staticmethod
            def stream_is_client_initiated(stream_id):
                return not (stream_id & 1)


def _snap(roots):
    """saved state of every record / list / dict / set reachable from ``roots`` (restored in place: identities survive)"""
    seen, out, todo = set(), [], list(roots)
    while todo:
        v = todo.pop()
        if id(v) in seen:
            continue
        if isinstance(v, Rec):
            seen.add(id(v))
            d = dict(v.__dict__)
            out.append((v, d))
            todo.extend(d.values())
        elif isinstance(v, (list, set)):
            seen.add(id(v))
            out.append((v, type(v)(v)))
            todo.extend(v)
        elif isinstance(v, dict):
            seen.add(id(v))
            out.append((v, dict(v)))
            todo.extend(v.values())
            todo.extend(k for k in v if isinstance(k, Rec))
        elif isinstance(v, tuple):
            todo.extend(v)
    return out


def _unsnap(snap):
    for obj, saved in snap:
        if isinstance(obj, Rec):
            obj.__dict__.clear()
            obj.__dict__.update(saved)
        elif isinstance(obj, list):
            obj[:] = saved
        else:
            obj.clear()
            obj.update(saved)


class Crash(Exception):
    """the interpreted layer raised on an input the rule considers legitimate"""

    def __init__(self, name, translating):
        super().__init__(name)
        self.name = name
        self.translating = translating  # a child stub had issued a command in this step: the layer was translating it


class World:
    """A RawQuicLayer record between two real connections.  Child layers are stubs that record what they receive and answer like a
    relaying TCP layer: Start -> OpenConnection(server) unless the server half is already open; DataReceived(conn, d) ->
    SendData(other half, d); ConnectionClosed(conn) -> close of the other half in the world's close style."""

    def __init__(self, ctx, CS, close_style="half"):
        self.model = ctx.model
        self.CS = CS
        self.close_style = close_style
        self.n_sent = 0  # commands issued by child stubs so far (monotone; only compared before / after a step)
        self.anomalies: list[str] = []
        m = ctx.model
        stubs = {}
        for kind, texts in (("TCPLayer", ("TCPLayer", "tcp.TCPLayer")), ("UDPLayer", ("UDPLayer", "udp.UDPLayer")),
                            ("NextLayer", ("layer.NextLayer", "NextLayer", "QuicStreamNextLayer"))):
            for t in texts:
                stubs[t] = self._child_factory(kind)
        self.it = LazyInterp(m, trusted_modules={"time": _Clock, "logging": NullLog(), "collections": collections, "aioquic": _Aioquic}, externals=stubs, max_steps=400000)
        ov = self.it.overrides
        ov[(RAW, "connection")] = Rec("connection", ConnectionState=CS, Server=self._server_conn)
        ov[(RAW, "ConnectionState")] = CS
        ov[(RAW, "Server")] = self._server_conn
        self.real = {"client": self._conn("Client"), "server": self._conn("Server")}
        self.top_context = self._context(self.real["client"], self.real["server"])
        self.me = Rec("RawQuicLayer", _bases=self.bases(RAW, "RawQuicLayer"), _impl=(RAW, "RawQuicLayer"))
        try:
            self.it.method(self.me, "__init__", self.top_context, True)
        except PyRaised as r:
            raise AnalysisError(f"RawQuicLayer.__init__ raises {r.name} in the abstract world of C30 (not modelled)")
        for a in ("client_stream_ids", "server_stream_ids"):
            if not isinstance(self.me.__dict__.get(a), dict):
                raise AnalysisError(f"RawQuicLayer.__init__ does not bind {a} to a dict (anchor moved)")

    # -- records
    def bases(self, rel, cls):
        out = []
        for _, c in self.model.mro(rel, cls)[1:]:
            out.append(c.name)
        return tuple(out)

    def mk(self, rel, cls, **attrs):
        self.model.cls(rel, cls)  # AnalysisError if the class vanished
        return Rec(cls, _bases=self.bases(rel, cls), _impl=(rel, cls), **attrs)

    def _conn(self, kind):
        CS = self.CS
        c = Rec(kind, state=CS.OPEN, transport_protocol="udp", timestamp_start=1.0, timestamp_end=None, address=("example", 443), connected=True)

        def copy():
            return Rec(kind, state=c.state, transport_protocol=c.transport_protocol, timestamp_start=c.timestamp_start, timestamp_end=c.timestamp_end,
                       address=c.address, connected=True)

        object.__setattr__(c, "copy", copy)
        return c

    def _server_conn(self, **kw):
        return Rec("Server", state=self.CS.CLOSED, timestamp_start=None, timestamp_end=None, connected=False, **{k: v for k, v in kw.items() if k != "state"})

    def _context(self, client, server):
        cx = Rec("Context", client=client, server=server, layers=[], options=Rec("Options"))

        def fork():
            return self._context(cx.client, cx.server)

        object.__setattr__(cx, "fork", fork)
        return cx

    def _child_factory(self, kind):
        world = self

        def factory(context, *a, **k):
            child = Rec(kind, _bases=("Layer",), flow=None, layer=None, context=context, log=[], sent=[])

            def handle_event(event):
                child.log.append(event)
                cmds = world.respond(child, event)
                child.sent.extend(cmds)
                world.n_sent += len(cmds)
                return cmds

            handle_event._pyint_accepts_abstract = True
            object.__setattr__(child, "handle_event", handle_event)
            object.__setattr__(child, "_handle_event", handle_event)
            return child

        factory._pyint_accepts_abstract = True
        return factory

    def respond(self, child, event):
        if child._cls != "TCPLayer" or not isinstance(event, Rec):
            return []  # the datagram layer is passive
        cx = child.context

        def other(conn):
            if conn is cx.client:
                return cx.server
            if conn is cx.server:
                return cx.client
            self.anomalies.append(f"a stream's child receives {event._cls} for a connection that is neither its stream's client nor server half")
            return None

        if event.isa("Start"):
            return [self.mk(CMDS, "OpenConnection", connection=cx.server)] if cx.server.timestamp_start is None else []
        if event.isa("DataReceived"):
            o = other(event.connection)
            return [self.mk(CMDS, "SendData", connection=o, data=event.data)] if o is not None else []
        if event.isa("ConnectionClosed"):
            o = other(event.connection)
            if o is None:
                return []
            if self.close_style == "half":
                return [self.mk(CMDS, "CloseTcpConnection", connection=o, half_close=True)]
            if self.close_style == "tcpfull":
                return [self.mk(CMDS, "CloseTcpConnection", connection=o, half_close=False)]
            return [self.mk(CMDS, "CloseConnection", connection=o)]
        return []

    # -- driving
    def roots(self):
        return [self.me, self.top_context, self.real["client"], self.real["server"]]

    def fire(self, event):
        """feed one event to RawQuicLayer._handle_event; the commands that leave the layer"""
        self.it.steps = 0
        del self.it.writes[:]
        before = self.n_sent
        try:
            return list(self.it.method(self.me, "_handle_event", event))
        except PyRaised as r:
            raise Crash(r.name, self.n_sent > before)

    def stream_event(self, side, sid, kind, payload):
        conn = self.real[side]
        if kind == "reset":
            return self.mk(QEV, "QuicStreamReset", connection=conn, stream_id=sid, error_code=payload)
        data, fin = {"data": (payload, False), "data+fin": (payload, True), "fin": (b"", True)}[kind]
        return self.mk(QEV, "QuicStreamDataReceived", connection=conn, stream_id=sid, data=data, end_stream=fin)

    def close_event(self, side):
        return self.mk(QEV, "QuicConnectionClosed", connection=self.real[side], error_code=0, frame_type=None, reason_phrase="bye")

    def maps(self):
        out = {}
        for side in SIDES:
            mp = self.me.__dict__.get(f"{side}_stream_ids")
            if not isinstance(mp, dict):
                raise AnalysisError(f"RawQuicLayer.{side}_stream_ids is no dict any more (anchor moved)")
            out[side] = mp
        return out

    def sid_of(self, layer, side):
        """what `QuicStreamLayer.stream_id(<side is client>)` reports"""
        try:
            return self.it.method(layer, "stream_id", side == "client")
        except PyRaised as r:
            return f"<raises {r.name}>"

    def side_of_real(self, conn):
        for s in SIDES:
            if conn is self.real[s]:
                return s
        return "a virtual/unknown connection"

    def new_stream_layer(self, sid):
        """QuicStreamLayer(<forked context>, force_raw=True, stream_id=sid), interpreted"""
        mod = self.model.module(RAW)
        return self.it.apply(ClassRef(mod, self.model.cls(RAW, "QuicStreamLayer")), [self.top_context.fork()], {"force_raw": True, "stream_id": sid}, 0)


# ---------------------------------------------------------------------------------------------------
# R30.1


def check_r301(ctx, CS):
    fn = ctx.func(RAW, "RawQuicLayer.get_next_available_stream_id")
    ctx.func(RAW, "RawQuicLayer.__init__")
    where = (RAW, "RawQuicLayer.get_next_available_stream_id", fn)
    w = World(ctx, CS)
    table = w.me.__dict__.get("next_stream_id")
    classes = [(c, u) for c in (True, False) for u in (True, False)]
    depth = 6 if ctx.tier == "thorough" else 5
    bad = {}
    n = [0]

    def alloc(**kw):
        w.it.steps = 0
        del w.it.writes[:]
        return w.it.method(w.me, "get_next_available_stream_id", **kw)

    def rec(path, ids, left):
        for ci, (is_client, uni) in enumerate(classes):
            seq = path + [ci]
            snap = _snap(w.roots())
            try:
                try:
                    sid = alloc(is_client=is_client, is_unidirectional=uni)
                except PyRaised as r:
                    if r.name == "TypeError" and not path:
                        raise AnalysisError(f"get_next_available_stream_id(is_client=..., is_unidirectional=...) raises TypeError: signature changed ({r.msg})")
                    bad.setdefault("allocation raises", (seq, f"raises {r.name}"))
                    continue
                n[0] += 1
                if not isinstance(sid, int) or isinstance(sid, bool) or sid < 0:
                    bad.setdefault("allocated id is not a non-negative int", (seq, repr(sid)))
                    continue
                if (sid & 1) != (0 if is_client else 1):
                    bad.setdefault("initiator bit of the allocated id is wrong", (seq, f"id {sid} for is_client={is_client}"))
                if (sid >> 1 & 1) != (1 if uni else 0):
                    bad.setdefault("directionality bit of the allocated id is wrong", (seq, f"id {sid} for is_unidirectional={uni}"))
                if sid in ids:
                    bad.setdefault("the same stream id is allocated twice", (seq, f"id {sid} already returned by call #{ids.index(sid) + 1}"))
                if left > 1:
                    rec(seq, ids + [sid], left - 1)
            finally:
                _unsnap(snap)

    rec([], [], depth)
    ctx.cells += n[0]
    for why, (seq, what) in bad.items():
        calls = [f"(is_client={classes[c][0]}, uni={classes[c][1]})" for c in seq]
        ctx.fail("R30.1", where, why, f"starting from the state RawQuicLayer.__init__ builds (next_stream_id={table}), the allocation sequence {calls}: {what}")
    if not bad:
        ctx.ok("R30.1", f"every allocation sequence up to length {depth} over the 4 id classes ({n[0]} calls): ids unique, initiator and directionality bits correct")
    # omitting is_unidirectional must allocate a bidirectional id
    res = []
    for is_client in (True, False):
        snap = _snap(w.roots())
        try:
            res.append(alloc(is_client=is_client))
        except PyRaised as r:
            res.append(None if r.name == "TypeError" else f"raises {r.name}")
        finally:
            _unsnap(snap)
    if any(x is not None for x in res):  # (a required parameter cannot be forgotten)
        ctx.check(all(isinstance(x, int) and not (x & 2) for x in res if x is not None), "R30.1", where, "is_unidirectional defaults to False",
                  f"omitting is_unidirectional allocates {res} (a unidirectional id)", desc="default directionality = bidirectional")
    else:
        ctx.ok("R30.1", "is_unidirectional is a required parameter")


# ---------------------------------------------------------------------------------------------------
# R30.2 / R30.3: reference model + bounded exploration


class RefStream:
    """what the property says about one relayed stream"""

    def __init__(self, key, origin, uni, sid):
        self.key, self.origin, self.uni = key, origin, uni
        self.ids = {origin: sid, OTHER[origin]: None}
        self.layer = None
        self.can_recv = {h: (not uni) or h == origin for h in SIDES}  # the peer on side h may send to us (RFC 9000 s.2.1)
        self.can_send = {h: (not uni) or h != origin for h in SIDES}  # we may send to the peer on side h
        self.closed = {h: False for h in SIDES}  # that half saw its end of stream

    def save(self):
        return (dict(self.ids), self.layer, dict(self.can_recv), dict(self.can_send), dict(self.closed))

    def load(self, s):
        self.ids, self.layer, self.can_recv, self.can_send, self.closed = dict(s[0]), s[1], dict(s[2]), dict(s[3]), dict(s[4])

    def name(self):
        return f"{'unidirectional' if self.uni else 'bidirectional'} {self.origin}-initiated stream {self.ids[self.origin]}"


class Ref:
    def __init__(self):
        self.streams: dict = {}  # key -> RefStream, in creation order
        self.used = {h: set() for h in SIDES}  # stream ids in use on the connection of side h
        self.conn_closed = {h: False for h in SIDES}

    def save(self):
        return ({k: s.save() for k, s in self.streams.items()}, {k: s for k, s in self.streams.items()}, {h: set(v) for h, v in self.used.items()}, dict(self.conn_closed))

    def load(self, saved):
        st, objs, used, cc = saved
        self.streams = dict(objs)
        for k, s in self.streams.items():
            s.load(st[k])
        self.used = {h: set(v) for h, v in used.items()}
        self.conn_closed = dict(cc)


class Problem:
    def __init__(self, rule, what, text):
        self.rule, self.what, self.text = rule, what, text


OBLIGATIONS = {  # rule -> obligation -> construct text of the finding (short and stable: it is the finding key)
    "R30.2": {
        "pairing": "a new stream creates exactly one layer, registered under its paired ids (same directionality, peer's initiator bit)",
        "attribution": "an event for a known stream id (also a finished one) goes to the layer owning the id on that side; no second layer",
        "routing": "data / end of stream reach only the owning stream's child, on the virtual connection of the side they came from",
        "reset": "a reset is re-issued as ResetQuicStream with the peer's error code exactly for the FIN on the paired stream",
        "connection-close": "a QUIC connection close ends that side's half of every stream layer",
        "half-state": "a half loses CAN_READ by the end of stream / reset / close of ITS side, CAN_WRITE by the FIN sent on it / the close of its connection",
        "crash": "stream events of a legitimate schedule are handled without raising",
    },
    "R30.3": {
        "translation": "SendData / close on a stream's virtual connection -> SendQuicStreamData / FIN / StopSending on the same side's real connection and stream id",
        "open": "OpenConnection of a stream pairs a fresh server stream id (client-initiator bit, client stream's directionality), bound and registered",
        "crash": "commands of a stream's child are translated without raising",
    },
}
assert all(len(t) < 158 for o in OBLIGATIONS.values() for t in o.values())


class Explorer:
    def __init__(self, ctx, CS, close_style):
        self.w = World(ctx, CS, close_style)
        self.ref = Ref()
        self.style = close_style
        self.problems: list[Problem] = []
        self.nodes = 0
        self.seen = collections.Counter()

    # -- reference semantics
    def ref_close(self, s, h, log, outs, stops):
        """the layer ends half ``h`` of stream ``s`` (end of stream / reset / connection close from side h): the child hears it once and
        closes the other half; under a full close the other half ends too and the child closes ``h`` in turn"""
        if s.closed[h]:
            return
        s.closed[h] = True
        s.can_recv[h] = False
        log.append(("ConnectionClosed", h))
        o = OTHER[h]
        if s.can_send[o]:
            s.can_send[o] = False
            outs.append(("SendQuicStreamData", o, s.ids[o], b"", True))
        if self.style != "half":
            stops.add((o, s.ids[o]))
            self.ref_close(s, o, log, outs, stops)

    # -- observation
    def norm_out(self, cmd):
        if not isinstance(cmd, Rec):
            return ("?", repr(cmd))
        d = cmd.__dict__
        side = self.w.side_of_real(d.get("connection"))
        if cmd.isa("SendQuicStreamData"):
            return ("SendQuicStreamData", side, d.get("stream_id"), d.get("data"), d.get("end_stream"))
        if cmd.isa("ResetQuicStream"):
            return ("ResetQuicStream", side, d.get("stream_id"), d.get("error_code"))
        if cmd.isa("StopSendingQuicStream"):
            return ("StopSendingQuicStream", side, d.get("stream_id"))
        return (cmd._cls, side)

    def norm_log(self, s, ev):
        if not isinstance(ev, Rec):
            return ("?", repr(ev))
        L = s.layer
        if ev.isa("ConnectionEvent") or "connection" in ev.__dict__:
            c = ev.__dict__.get("connection")
            half = "client" if c is L.__dict__.get("client") else "server" if c is L.__dict__.get("server") else "a foreign connection"
            if ev.isa("DataReceived"):
                return ("DataReceived", half, ev.__dict__.get("data"))
            if ev.isa("ConnectionClosed"):
                return ("ConnectionClosed", half)
            return (ev._cls, half)
        if ev.isa("OpenConnectionCompleted"):
            cmd = ev.__dict__.get("command")
            ok = isinstance(cmd, Rec) and cmd.isa("OpenConnection") and ev.__dict__.get("reply") is None
            return ("OpenConnectionCompleted",) if ok else ("OpenConnectionCompleted", "with a failure / for another command")
        return (ev._cls,)

    @staticmethod
    def child_of(layer):
        ch = layer.__dict__.get("child_layer")
        if not (isinstance(ch, Rec) and isinstance(ch.__dict__.get("log"), list)):
            raise AnalysisError("QuicStreamLayer.child_layer is not the rule's child stub (anchor moved: the stream layer no longer keeps its child in `child_layer`)")
        return ch

    # -- one step
    def step(self, ev):
        """run one event, compare with the reference; -> problems (empty: the world and the reference agree and may go on)"""
        w, ref = self.w, self.ref
        P: list[Problem] = []
        kind = ev[0]
        if kind == "stream":
            _, side, key, origin, uni, sid, what, payload = ev
            s = ref.streams.get(key)
            new = s is None
            event = w.stream_event(side, sid if new or side == origin else s.ids[side], what, payload)
            evtext = f"{what} from the {side} on {('a new ' if new else '') + ('uni' if uni else 'bidi')} {origin}-initiated stream {event.stream_id}"
        else:
            _, side = ev
            s, new = None, False
            event = w.close_event(side)
            evtext = f"QUIC connection closed by the {side}"
        known = [(t, len(self.child_of(t.layer).log), len(self.child_of(t.layer).sent)) for t in ref.streams.values()]
        known_layers = {id(t.layer) for t in ref.streams.values()}
        n_anom = len(w.anomalies)
        try:
            out = w.fire(event)
        except Crash as c:
            rule = "R30.3" if c.translating else "R30.2"
            return [Problem(rule, "crash", f"{evtext}: the layer raises {c.name}" + (" while translating a command of the stream's child" if c.translating else ""))]
        for a in w.anomalies[n_anom:]:
            P.append(Problem("R30.2", "routing", f"{evtext}: {a}"))
        maps = w.maps()
        layers = {}
        for mp in maps.values():
            for v in mp.values():
                if isinstance(v, Rec):
                    layers[id(v)] = v
        fresh = [v for k, v in layers.items() if k not in known_layers]
        # ---- creation / attribution
        if not new and fresh:
            P.append(Problem("R30.2", "attribution", f"{evtext}: {len(fresh)} new stream layer(s) registered although "
                             + (f"the {s.name()} already owns that id (it is no longer found in the {side} map)" if s is not None else "no stream event arrived")))
            return P
        if new:
            if len(fresh) != 1:
                P.append(Problem("R30.2", "pairing", f"{evtext}: {len(fresh)} distinct stream layers are registered for one new stream (client map {sorted(maps['client'])}, server map {sorted(maps['server'])})"))
                return P
            s = RefStream(key, origin, uni, sid)
            s.layer = L = fresh[0]
            if not L.isa("QuicStreamLayer"):
                raise AnalysisError(f"the layer registered for a new stream is a {L._cls}, not a QuicStreamLayer (not modelled)")
            self.child_of(L)
            o = OTHER[origin]
            ref.used[origin].add(sid)
            got = w.sid_of(L, origin)
            if got != sid:
                P.append(Problem("R30.2", "pairing", f"{evtext}: the new layer reports stream_id({origin == 'client'}) = {got}, not the event's id {sid}"))
            oid = w.sid_of(L, o)
            rule, what_ = ("R30.2", "pairing") if origin == "server" else ("R30.3", "open")
            how = "allocated for the client side of a server-initiated stream" if origin == "server" else "allocated by OpenConnection for the server side of a client-initiated stream"
            if not isinstance(oid, int) or isinstance(oid, bool):
                P.append(Problem(rule, what_, f"{evtext}: the layer has no {o} stream id afterwards (stream_id({o == 'client'}) = {oid}); expected one {how}"))
                return P
            s.ids[o] = oid
            if (oid & 1) != (1 if origin == "server" else 0):
                P.append(Problem(rule, what_, f"{evtext}: the {o} stream id {oid} {how} has the wrong initiator bit (must be {'server' if origin == 'server' else 'client'}-initiated like the peer's stream)"))
            if bool(oid & 2) != uni:
                P.append(Problem(rule, what_, f"{evtext}: the {o} stream id {oid} {how} is {'uni' if oid & 2 else 'bi'}directional, the stream it is paired with ({sid}) is {'uni' if uni else 'bi'}directional"))
            if oid in ref.used[o]:
                P.append(Problem(rule, what_, f"{evtext}: the {o} stream id {oid} {how} is already in use on the {o} connection"))
            ref.used[o].add(oid)
            ref.streams[key] = s
            known.append((s, 0, 0))
        # ---- the maps: exactly the paired ids of every stream, each bound to its own layer
        for h in SIDES:
            want = {t.ids[h]: t for t in ref.streams.values() if t.ids[h] is not None}
            have = maps[h]
            for k in sorted(set(want) | set(have), key=repr):
                t = want.get(k)
                if t is not None and have.get(k) is t.layer:
                    continue
                owner = t or next((x for x in ref.streams.values() if x.layer is have.get(k)), None)
                rule, what_ = ("R30.3", "open") if (h == "server" and owner is not None and owner.origin == "client") else ("R30.2", "pairing" if new and owner is s else "attribution")
                if t is None:
                    P.append(Problem(rule, what_, f"{evtext}: the {h} map has an entry {k!r} that is no {h} stream id of " + (f"the {owner.name()} it points to (its {h} id is {owner.ids[h]})" if owner else "any stream")))
                elif k not in have:
                    P.append(Problem(rule, what_, f"{evtext}: the {h} stream id {k} of the {t.name()} is not (no longer) registered in the {h} map: a later event for it creates a second layer"))
                else:
                    P.append(Problem(rule, what_, f"{evtext}: {h} map[{k}] is not the layer of the {t.name()}"))
        if any(p.what in ("pairing", "open", "attribution") for p in P):
            return P
        # ---- what the reference expects of this step
        logs = {t.key: [] for t in ref.streams.values()}
        outs, stops = [], set()
        if kind == "stream":
            o = OTHER[side]
            if new:
                logs[key].append(("Start",))
                if origin == "client":
                    logs[key].append(("OpenConnectionCompleted",))
            if what in ("data", "data+fin"):
                logs[key].append(("DataReceived", side, payload))
                if s.can_send[o]:
                    outs.append(("SendQuicStreamData", o, s.ids[o], payload, False))
            if what in ("data+fin", "fin", "reset"):
                sub = []
                self.ref_close(s, side, logs[key], sub, stops)
                if what == "reset":
                    sub = [("ResetQuicStream", o, s.ids[o], payload) if (e[0] == "SendQuicStreamData" and e[1] == o and e[4]) else e for e in sub]
                outs += sub
        else:
            ref.conn_closed[side] = True
            for t in ref.streams.values():
                t.can_send[side] = False
                self.ref_close(t, side, logs[t.key], [], stops)  # (empty FINs are swallowed: the connection is gone)
        # ---- routing: what every child heard
        for t, n_log, n_sent in known:
            ch = self.child_of(t.layer)
            got = [self.norm_log(t, e) for e in ch.log[n_log:]]
            if got != logs[t.key]:
                what_ = "connection-close" if kind != "stream" else "routing"
                mine = " (the stream the event belongs to)" if t is s else " (ANOTHER stream)"
                P.append(Problem("R30.2", what_, f"{evtext}: the child of the {t.name()}{mine} receives {got}, expected {logs[t.key]}"))
        # ---- the halves' capabilities (what the children and the translation go by)
        CS = w.CS
        for t in ref.streams.values():
            for h in SIDES:
                c = t.layer.__dict__.get(h)
                st = c.__dict__.get("state") if isinstance(c, Rec) else None
                if not isinstance(st, CS):
                    raise AnalysisError(f"QuicStreamLayer.{h}.state is no ConnectionState after a step ({st!r}): not modelled")
                want = (CS.CAN_READ if t.can_recv[h] else CS.CLOSED) | (CS.CAN_WRITE if t.can_send[h] else CS.CLOSED)
                if st != want:
                    P.append(Problem("R30.2", "half-state", f"{evtext}: the {h} half of the {t.name()} is {st.name} afterwards, expected {want.name}"))
        # ---- translation: what left the layer
        real = [self.norm_out(c) for c in out]
        for c, nrm in zip(out, real):
            if isinstance(c, Rec) and c.isa("ConnectionCommand") and nrm[1] not in SIDES:
                P.append(Problem("R30.3", "translation", f"{evtext}: a {c._cls} for {nrm[1]} leaves the layer untranslated"))
        got = [e for e in real if e[0] in ALPHABET and e[0] != "StopSendingQuicStream"]
        if got != outs:
            def sans(xs):  # a reset and the FIN it replaces, made equal
                return [("FIN",) + e[1:3] if (e[0] == "ResetQuicStream" or (e[0] == "SendQuicStreamData" and e[4] and not e[3])) else e for e in xs]

            reset_only = sans(got) == sans(outs)  # the lists differ only in FIN vs reset / in the error code
            rule, what_ = ("R30.2", "reset") if reset_only else ("R30.3", "translation")
            P.append(Problem(rule, what_, f"{evtext}: the layer emits {self.show(got)}, expected {self.show(outs)}" + (f" (ids of this stream: client {s.ids['client']}, server {s.ids['server']})" if s else "")))
        for e in real:
            if e[0] == "StopSendingQuicStream" and (e[1], e[2]) not in stops:
                P.append(Problem("R30.3", "translation", f"{evtext}: StopSendingQuicStream targets stream {e[2]} on the {e[1]} connection, which is no half the stream's child closed in this step ({sorted(stops)})"))
        self.seen[("new " if new else "") + (what if kind == "stream" else "connection-close")] += 1
        return P

    @staticmethod
    def show(xs):
        out = []
        for e in xs:
            if e[0] == "SendQuicStreamData":
                out.append(f"SendQuicStreamData({e[1]}, stream {e[2]}, {e[3]!r}{', end_stream' if e[4] else ''})")
            elif e[0] == "ResetQuicStream":
                out.append(f"ResetQuicStream({e[1]}, stream {e[2]}, error_code={e[3]})")
            else:
                out.append(str(e))
        return "[" + ", ".join(out) + "]"

    # -- schedules
    def run(self, ev, path):
        """one step outside the search (set-up); -> ok"""
        self.nodes += 1
        P = self.step(ev)
        for p in P:
            p.text = f"[child close style: {self.style}] after {path or 'nothing'}: {p.text}"
        self.problems += P
        return not P

    def alphabet(self, streams, with_close):
        ref = self.ref
        for key, origin, uni, sid in streams:
            s = ref.streams.get(key)
            halves = [origin] if (s is None or uni) else list(SIDES)
            for h in halves:
                if ref.conn_closed[h]:
                    continue
                kinds = ("reset",) if (s is not None and s.closed[h]) else ("data", "data+fin", "fin", "reset")  # after its FIN a peer may still reset
                for k in kinds:
                    yield ("stream", h, key, origin, uni, sid, k, 0x1234 if k == "reset" else (b"<" + key.encode() + b">") if k != "fin" else b"")
        if with_close:
            for h in SIDES:
                if not ref.conn_closed[h]:
                    yield ("close", h)

    @staticmethod
    def describe(ev):
        if ev[0] == "close":
            return f"close({ev[1]})"
        return f"{ev[6]}({ev[1]}, {ev[2]})"

    def explore(self, streams, depth, with_close, path=()):
        if depth == 0 or len(self.problems) > 12:
            return
        for ev in list(self.alphabet(streams, with_close)):
            snap_w, snap_r = _snap(self.w.roots()), self.ref.save()
            here = path + (self.describe(ev),)
            if self.run(ev, " -> ".join(path)):
                self.explore(streams, depth - 1, with_close, here)
            _unsnap(snap_w)
            self.ref.load(snap_r)


# four streams that are open before the search starts (ids chosen so that afterwards the ids of a stream's two halves differ and the id
# spaces of the two connections overlap: a lookup in the wrong map finds ANOTHER stream's layer) and four streams under test
DECOYS = (("s5", "server", False, 5), ("s7", "server", True, 7), ("c4", "client", False, 4), ("c6", "client", True, 6))
TESTED = (("c12", "client", False, 12), ("s13", "server", False, 13), ("c14", "client", True, 14), ("s15", "server", True, 15))


def check_r3023(ctx, CS):
    he = ctx.func(RAW, "RawQuicLayer._handle_event")
    where2 = (RAW, "RawQuicLayer._handle_event", he)
    where3 = (RAW, "RawQuicLayer.event_to_child", ctx.func(RAW, "RawQuicLayer.event_to_child")) if ctx.model.has(RAW, "RawQuicLayer.event_to_child") else where2
    thorough = ctx.tier == "thorough"
    problems: list[Problem] = []
    seen = collections.Counter()
    nodes = 0
    plans = {"half": (2 + thorough, 3 + thorough), "full": (1 + thorough, 3), "tcpfull": (1, 2)}
    for style, (d_all, d_one) in plans.items():
        ex = Explorer(ctx, CS, style)
        ok = True
        done = []
        for key, origin, uni, sid in DECOYS:
            ok = ok and ex.run(("stream", origin, key, origin, uni, sid, "data", b"<" + key.encode() + b">"), " -> ".join(done))
            done.append(f"data({origin}, {key})")
        if ok:
            ex.explore(TESTED, d_all, True, tuple(done))
            for t in TESTED:
                if d_one > d_all:
                    ex.explore((t,), d_one, False, tuple(done))
        problems += ex.problems
        seen.update(ex.seen)
        nodes += ex.nodes
    ctx.paths += nodes
    ctx.bounds.append(f"R30.2/R30.3: schedules of stream events explored per child close style (all four tested streams together, one stream alone): {plans}")
    first = {}
    for p in problems:
        first.setdefault((p.rule, p.what), p)
    for rule, obs in OBLIGATIONS.items():
        for what, text in obs.items():
            p = first.get((rule, what))
            ctx.check(p is None, rule, where2 if rule == "R30.2" else where3, text, p.text if p else "", desc=f"{what}: {text}")
    if not problems:
        need = {"new data": 8, "new reset": 4, "data": 20, "data+fin": 20, "fin": 20, "reset": 20, "connection-close": 6}
        for k, n in need.items():
            ctx.require(seen[k] >= n, f"R30.2/R30.3: only {seen[k]} '{k}' steps explored (expected >= {n}): {dict(seen)}")
        ctx.note(f"R30.2/R30.3: {nodes} steps explored: {dict(sorted(seen.items()))}")
    # ---- QuicStreamLayer reports the ids it was created with / bound to
    qs = ctx.func(RAW, "QuicStreamLayer.stream_id")
    ctx.func(RAW, "QuicStreamLayer.__init__")
    ctx.func(RAW, "QuicStreamLayer.open_server_stream")
    w = World(ctx, CS)
    res = []
    for cid, sid in ((1004, 2000), (1001, 2005), (1002, 2006), (1007, 2003)):
        try:
            L = w.new_stream_layer(cid)
            before = (w.sid_of(L, "client"), w.sid_of(L, "server"))
            w.it.method(L, "open_server_stream", sid)
            after = (w.sid_of(L, "client"), w.sid_of(L, "server"))
        except PyRaised as r:
            before = after = f"raises {r.name}"
        if (before, after) != ((cid, None), (cid, sid)):
            res.append(f"QuicStreamLayer(stream_id={cid}) reports (client id, server id) = {before}, after open_server_stream({sid}) = {after}; expected ({cid}, None) and ({cid}, {sid})")
    ctx.check(not res, "R30.2", (RAW, "QuicStreamLayer.stream_id", qs), "stream_id(client) reports the client id given at creation / the server id bound by open_server_stream",
              res[0] if res else "", desc="stream_id(True) -> client id, stream_id(False) -> bound server id (None before)")


# ---------------------------------------------------------------------------------------------------
# R30.4: the stream-id maps only grow

MAPS = ("client_stream_ids", "server_stream_ids")
REMOVERS = {"pop", "popitem", "clear", "__delitem__"}
READERS = {"get", "items", "keys", "values", "copy", "__contains__", "__getitem__", "__len__", "__iter__"}
ADDERS = {"setdefault", "update", "__setitem__"}
PURE_CALLEES = {"len", "list", "sorted", "iter", "bool", "dict", "tuple", "set", "frozenset", "any", "all", "max", "min", "repr", "str", "enumerate", "reversed", "print", "isinstance"}
TRANSPARENT = (ast.IfExp, ast.BoolOp, ast.NamedExpr)


def _scope(node):
    n = getattr(node, "_parent", None)
    while n is not None and not isinstance(n, (ast.FunctionDef, ast.AsyncFunctionDef, ast.Lambda)):
        n = getattr(n, "_parent", None)
    return n


def _qual(node):
    n = node
    while n is not None and not hasattr(n, "_qual"):
        n = getattr(n, "_parent", None)
    return getattr(n, "_qual", "<module>") if n is not None else "<module>"


class MapUses:
    """classification of every occurrence of the stream-id maps in one module"""

    def __init__(self, mod):
        self.mod = mod
        self.aliases = {}  # scope node -> {local name: set of map names}
        self.returns = {}  # function node -> set of map names it may return
        self.helpers = {}  # name of a function of this module a map is passed to / returned by -> how
        self.nodes = list(ast.walk(mod.tree))
        self._fix_aliases()

    def callee(self, call):
        """the function of THIS module a call certainly runs: `self.m(...)` -> method m of the enclosing class, `f(...)` -> module-level f;
        -> (function node, number of leading parameters bound implicitly) or None"""
        f = call.func
        if isinstance(f, ast.Attribute) and isinstance(f.value, ast.Name) and f.value.id == "self":
            c = getattr(call, "_parent", None)
            while c is not None and not isinstance(c, ast.ClassDef):
                c = getattr(c, "_parent", None)
            if c is not None:
                for st in c.body:
                    if isinstance(st, ast.FunctionDef) and st.name == f.attr and not st.decorator_list:
                        return st, 1
        elif isinstance(f, ast.Name):
            d = self.mod.get(f.id)
            if isinstance(d, ast.FunctionDef) and not d.decorator_list:
                return d, 0
        return None

    @staticmethod
    def param_for(fn, skip, call, arg):
        """the parameter of ``fn`` that receives the argument expression ``arg`` of ``call`` (None: not a plain parameter)"""
        a = fn.args
        params = [p.arg for p in a.posonlyargs + a.args]
        for i, x in enumerate(call.args):
            if isinstance(x, ast.Starred):
                return None
            if x is arg:
                return params[i + skip] if i + skip < len(params) else None
        for k in call.keywords:
            if k.value is arg:
                return k.arg if k.arg in params[skip:] + [p.arg for p in a.kwonlyargs] else None
        return None

    def maps_of(self, e, scope):
        """the maps an expression may evaluate to (empty: none)"""
        if isinstance(e, ast.Attribute) and e.attr in MAPS:
            return {e.attr}
        if isinstance(e, ast.Name):
            return set(self.aliases.get(scope, {}).get(e.id, ()))
        if isinstance(e, ast.IfExp):
            return self.maps_of(e.body, scope) | self.maps_of(e.orelse, scope)
        if isinstance(e, ast.BoolOp):
            out = set()
            for v in e.values:
                out |= self.maps_of(v, scope)
            return out
        if isinstance(e, ast.NamedExpr):
            return self.maps_of(e.value, scope)
        if isinstance(e, ast.Call):
            c = self.callee(e)
            if c is not None:
                return set(self.returns.get(c[0], ()))
        return set()

    def _bind(self, target, value, scope):
        changed = False
        if isinstance(target, ast.Name):
            got = self.maps_of(value, scope)
            if isinstance(value, (ast.Tuple, ast.List)):  # `for m in (A, B)`: handled by the caller elementwise
                got = set()
            cur = self.aliases.setdefault(scope, {}).setdefault(target.id, set())
            if not got <= cur:
                cur |= got
                changed = True
        elif isinstance(target, (ast.Tuple, ast.List)) and isinstance(value, (ast.Tuple, ast.List)) and len(target.elts) == len(value.elts):
            for t, v in zip(target.elts, value.elts):
                changed |= self._bind(t, v, scope)
        return changed

    def _fix_aliases(self):
        for _ in range(8):
            changed = False
            for n in self.nodes:
                sc = _scope(n)
                if isinstance(n, ast.Assign):
                    for t in n.targets:
                        changed |= self._bind(t, n.value, sc)
                elif isinstance(n, ast.AnnAssign) and n.value is not None:
                    changed |= self._bind(n.target, n.value, sc)
                elif isinstance(n, ast.NamedExpr):
                    changed |= self._bind(n.target, n.value, sc)
                elif isinstance(n, (ast.For, ast.AsyncFor, ast.comprehension)):
                    it = n.iter
                    if isinstance(it, (ast.Tuple, ast.List, ast.Set)):
                        for v in it.elts:
                            changed |= self._bind(n.target, v, sc)
                elif isinstance(n, ast.Call):
                    # a map handed to a helper of this module: the helper's parameter is an alias inside the helper
                    c = self.callee(n)
                    if c is not None:
                        for arg in list(n.args) + [k.value for k in n.keywords]:
                            got = self.maps_of(arg, sc)
                            prm = self.param_for(c[0], c[1], n, arg) if got else None
                            if prm is not None:
                                cur = self.aliases.setdefault(c[0], {}).setdefault(prm, set())
                                if not got <= cur:
                                    cur |= got
                                    changed = True
                elif isinstance(n, ast.Return) and n.value is not None and isinstance(sc, ast.FunctionDef):
                    # a helper that returns a map: its calls denote the map
                    got = self.maps_of(n.value, sc)
                    cur = self.returns.setdefault(sc, set())
                    if not got <= cur:
                        cur |= got
                        changed = True
            if not changed:
                return
        raise AnalysisError(f"{self.mod.rel}: alias analysis of the stream-id maps does not converge")

    def occurrences(self):
        """(node, maps) for every expression node that denotes one of the maps: the attribute itself or a local alias"""
        for n in self.nodes:
            if isinstance(n, ast.Attribute) and n.attr in MAPS:
                yield n, {n.attr}
            elif (isinstance(n, ast.Name) and not isinstance(n.ctx, ast.Store)) or isinstance(n, ast.Call):
                got = self.maps_of(n, _scope(n))
                if got:
                    yield n, got

    def classify(self, n):
        """-> (kind, text)   kind in bind | alias | read | add | remove | rebind | escape"""
        if isinstance(n, ast.Attribute) and isinstance(n.ctx, ast.Store):
            p = n._parent
            if isinstance(p, ast.AnnAssign) and p.value is None:
                return "read", "declaration"
            if isinstance(p, (ast.Assign, ast.AnnAssign)):
                return "bind", norm(p)
            return "rebind", norm(p)
        if isinstance(getattr(n, "ctx", None), ast.Del):
            if isinstance(n, ast.Name):
                return "read", "local alias unbound"
            return "remove", norm(n._parent)
        top, p = n, n._parent
        while isinstance(p, TRANSPARENT):
            if isinstance(p, ast.IfExp) and p.test is top:
                return "read", "truth value"
            if isinstance(p, ast.NamedExpr) and p.target is top:
                return "alias", norm(p)
            top, p = p, p._parent
        if isinstance(p, (ast.Assign, ast.AnnAssign)) and p.value is top:
            tg = p.targets if isinstance(p, ast.Assign) else [p.target]
            if all(isinstance(t, ast.Name) for t in tg):
                return "alias", norm(p)
            return "escape", f"stored in {norm(tg[0])}"
        if isinstance(p, (ast.Tuple, ast.List, ast.Set)):
            pp = p._parent
            if isinstance(pp, (ast.For, ast.AsyncFor, ast.comprehension)) and pp.iter is p:
                return "alias", f"for {norm(pp.target)} in {norm(p)}"
            if isinstance(pp, ast.Assign) and pp.value is p and all(isinstance(t, (ast.Tuple, ast.List)) and len(t.elts) == len(p.elts) and all(isinstance(x, ast.Name) for x in t.elts) for t in pp.targets):
                return "alias", norm(pp)
            return "escape", f"put into {norm(p)[:60]}"
        if isinstance(p, ast.Subscript) and p.value is top:
            if isinstance(p.ctx, ast.Del):
                return "remove", f"del {norm(p)}"
            if isinstance(p.ctx, ast.Store):
                if isinstance(p._parent, ast.AugAssign):
                    return "escape", norm(p._parent)
                return "add", norm(p._parent)
            return "read", norm(p)
        if isinstance(p, ast.Compare):
            return "read", norm(p)
        if isinstance(p, ast.Attribute) and p.value is top:
            if p.attr in REMOVERS:
                return "remove", norm(p)
            pp = p._parent
            if isinstance(pp, ast.Call) and pp.func is p:
                if p.attr in READERS:
                    return "read", norm(pp)
                if p.attr in ADDERS:
                    return "add", norm(pp)
            return "escape", f"{norm(p)}: method not modelled"
        if isinstance(p, ast.Call) and top is not p.func:
            if isinstance(p.func, ast.Name) and p.func.id in PURE_CALLEES:
                return "read", norm(p)
            c = self.callee(p)
            if c is not None and self.param_for(c[0], c[1], p, top) is not None:
                self.helpers[c[0].name] = f"receives the map as `{self.param_for(c[0], c[1], p, top)}`"
                return "alias", f"passed to {norm(p.func)}() as {self.param_for(c[0], c[1], p, top)}"
            return "escape", f"passed to {norm(p.func)}"
        if isinstance(p, ast.Return) and isinstance(_scope(p), ast.FunctionDef) and not _scope(p).decorator_list:
            self.helpers[_scope(p).name] = "returns the map"
            return "alias", f"returned by {_scope(p).name}()"
        if isinstance(p, (ast.For, ast.AsyncFor, ast.comprehension)) and p.iter is top:
            return "read", "iteration"
        if isinstance(p, (ast.If, ast.While, ast.Assert)) and p.test is top:
            return "read", "truth value"
        if isinstance(p, ast.UnaryOp) and isinstance(p.op, ast.Not):
            return "read", "truth value"
        if isinstance(p, (ast.FormattedValue, ast.Expr)):
            return "read", "formatting"
        if isinstance(p, ast.Delete):
            return "remove", norm(p)
        if isinstance(p, ast.AugAssign):
            return "escape", norm(p)
        return "escape", f"used in {norm(p)[:80]}"


def is_empty_dict(v):
    return (isinstance(v, ast.Dict) and not v.keys) or (isinstance(v, ast.Call) and isinstance(v.func, ast.Name) and v.func.id == "dict" and not v.args and not v.keywords)


def check_r304(ctx):
    binds = {m: [] for m in MAPS}
    seen = {m: {"read": 0, "add": 0, "alias": 0} for m in MAPS}
    rels = sorted({p.relative_to(ctx.model.repo).as_posix() for p in (ctx.model.repo / "mitmproxy").rglob("*.py")} | {r for r in ctx.model.overrides if r.startswith("mitmproxy/")})
    for rel in rels:
        if rel.startswith("mitmproxy/contrib/") or not any(m in ctx.model.source(rel) for m in MAPS):
            continue  # (textual pre-filter only: a module that never spells the attribute names cannot touch the maps directly)
        mod = ctx.model.module(rel)
        uses = MapUses(mod)
        for n, maps in uses.occurrences():
            kind, text = uses.classify(n)
            qual = _qual(n)
            where = (mod.rel, qual, n)
            names = "/".join(sorted(maps))
            if kind == "escape":
                raise AnalysisError(f"{mod.rel}:{n.lineno} [{qual}] stream-id map {names} escapes the use classification of R30.4 ({text})")
            if kind == "bind":
                p = n._parent
                ok = qual == "RawQuicLayer.__init__" and mod.rel == RAW and is_empty_dict(p.value) and _scope(n) is not None and all(
                    not isinstance(a, (ast.For, ast.While, ast.If, ast.Try)) for a in _ancestors(n, _scope(n)))
                binds[n.attr].append((mod.rel, qual, ok))
                ctx.check(ok, "R30.4", where, f"{n.attr} is bound once, to an empty dict, in RawQuicLayer.__init__",
                          f"`{text}` re-binds the stream-id map: every stream registered so far is forgotten, a later event for one of them creates a second stream layer",
                          desc=f"{n.attr} initialised empty in RawQuicLayer.__init__")
            elif kind in ("remove", "rebind"):
                ctx.fail("R30.4", where, f"{names}: `{text}` removes registered stream ids",
                         f"`{text}` forgets a registered stream id: QUIC never reuses stream ids, but a late event for it (RESET_STREAM after FIN, data after STOP_SENDING) "
                         "is then no longer attributed to the layer that owns the stream - a second stream layer and a second paired stream are created")
            else:
                for mname in maps:
                    seen[mname][kind] += 1
                ctx.ok("R30.4", f"[{qual}] {names}: {kind}: {text[:70]}")
        # a helper the maps flow through is followed at its direct calls in its own module only: nobody else may get hold of it
        for name, how in uses.helpers.items():
            for n in uses.nodes:
                ref = (isinstance(n, ast.Attribute) and n.attr == name) or (isinstance(n, ast.Name) and n.id == name)
                if ref and not (isinstance(n._parent, ast.Call) and n._parent.func is n and uses.callee(n._parent) is not None):
                    raise AnalysisError(f"{mod.rel}:{n.lineno} `{name}` ({how}) is referenced other than by a direct call: stream-id map escapes the use classification of R30.4")
            # (another module reaches a method by attribute access / getattr, a module-level function only through the defining module)
            is_method = any(isinstance(d, ast.FunctionDef) and d.name == name and isinstance(d._parent, ast.ClassDef) for d in uses.nodes)
            stem = rel.rsplit("/", 1)[-1][:-3]
            pat = re.compile(rf"(\.\s*{re.escape(name)}\b|['\"]{re.escape(name)}['\"])" if is_method else rf"\b{re.escape(name)}\b")
            for other in rels:
                if other == rel or other.startswith("mitmproxy/contrib/"):
                    continue
                src = ctx.model.source(other)
                if pat.search(src) and (is_method or re.search(rf"\b{re.escape(stem)}\b", src)):
                    raise AnalysisError(f"{other} mentions `{name}`, a helper of {mod.rel} that {how}: stream-id map escapes the use classification of R30.4")
    for m in MAPS:
        if len(binds[m]) != 1 and not any(f.rule == "R30.4" for f in ctx.findings):
            if not binds[m]:
                raise AnalysisError(f"R30.4: no binding of {m} found (anchor moved)")
            ctx.fail("R30.4", (binds[m][1][0], binds[m][1][1], 0), f"{m} is bound once, to an empty dict, in RawQuicLayer.__init__",
                     f"{m} is bound {len(binds[m])} times ({[b[1] for b in binds[m]]})")
    if not any(f.rule == "R30.4" for f in ctx.findings):
        # (where and how often entries are stored / looked up is R30.2 / R30.3's business; here only: the classification saw the maps in use)
        for m in MAPS:
            ctx.require(seen[m]["add"] >= 1 and seen[m]["read"] >= 1, f"R30.4: no store into / no lookup in {m} classified ({seen[m]}): registration / lookup anchors moved")


def _ancestors(n, stop):
    p = getattr(n, "_parent", None)
    while p is not None and p is not stop:
        yield p
        p = getattr(p, "_parent", None)


# ---------------------------------------------------------------------------------------------------
# R30.5: initial capabilities of the two halves = function of the stream id class


def half_table(CS):
    """(unidirectional, client_initiated) -> (client half, server half)    RFC 9000 s.2.1: only the initiator of a unidirectional stream sends"""
    return {
        (False, True): (CS.OPEN, CS.OPEN),
        (False, False): (CS.OPEN, CS.OPEN),
        (True, True): (CS.CAN_READ, CS.CAN_WRITE),
        (True, False): (CS.CAN_WRITE, CS.CAN_READ),
    }


def substates(CS, s):
    """the states a connection that started in ``s`` can be in later (capabilities are only ever removed)"""
    return [x for x in (CS.OPEN, CS.CAN_READ, CS.CAN_WRITE, CS.CLOSED) if (x & s) == x]


def check_r305(ctx, CS):
    table = half_table(CS)
    qi = ctx.func(RAW, "QuicStreamLayer.__init__")
    qo = ctx.func(RAW, "QuicStreamLayer.open_server_stream")
    ids = {cls: [b, b + 4, b + 4 * 37] for cls, b in (((False, True), 0), ((False, False), 1), ((True, True), 2), ((True, False), 3))}
    name = {(False, True): "bidirectional client-initiated", (False, False): "bidirectional server-initiated",
            (True, True): "unidirectional client-initiated", (True, False): "unidirectional server-initiated"}
    w = World(ctx, CS)

    def half(L, side):
        c = L.__dict__.get(side)
        if not isinstance(c, Rec) or "state" not in c.__dict__:
            raise AnalysisError(f"QuicStreamLayer.{side} is no connection with a state after construction (anchor moved)")
        return c

    def layer(cid, real):
        w.it.steps = 0
        del w.it.writes[:]
        object.__setattr__(w.real["client"], "state", real)
        try:
            return w.new_stream_layer(cid)
        except PyRaised as r:
            raise AnalysisError(f"QuicStreamLayer(stream_id={cid}) raises {r.name} in the R30.5 evaluation (not modelled)")

    # --- server half: open_server_stream(server_stream_id), the client half being in any state it can have reached
    bad = {}
    n = 0
    for cls, sids in ids.items():
        for sid in sids:
            for cstate in substates(CS, table[cls][0]):
                snap = _snap(w.roots())
                try:
                    L = layer(sid + 8, CS.OPEN)  # the client id of a paired stream has the same class
                    object.__setattr__(half(L, "client"), "state", cstate)
                    try:
                        w.it.method(L, "open_server_stream", sid)
                    except PyRaised as r:
                        raise AnalysisError(f"open_server_stream({sid}) raises {r.name} in the R30.5 evaluation (not modelled)")
                    n += 1
                    got = half(L, "server").state
                    if not isinstance(got, CS):
                        raise AnalysisError(f"open_server_stream leaves server.state = {got!r} (no ConnectionState)")
                    if got != table[cls][1]:
                        bad.setdefault(name[cls], (sid, cstate, got, table[cls][1]))
                finally:
                    _unsnap(snap)
    for k, (sid, cstate, got, want) in bad.items():
        ctx.fail("R30.5", (RAW, "QuicStreamLayer.open_server_stream", qo), f"server half of a {k} stream starts as {want.name}",
                 f"open_server_stream({sid}) while the client half is {cstate.name} leaves server.state = {got.name}, expected {want.name}: "
                 + ("the command translation drops SendData and the FIN for a connection without CAN_WRITE - the stream's data never reaches the paired server stream"
                    if (want & CS.CAN_WRITE) and not (got & CS.CAN_WRITE) else "the capability of a half must follow from the stream id class alone (RFC 9000 s.2.1)"))
    if not bad:
        ctx.ok("R30.5", f"open_server_stream: server half = f(id class) for {n} (server id, client state) cases: bidi OPEN, uni client-initiated CAN_WRITE, uni server-initiated CAN_READ")

    # --- client half: QuicStreamLayer(context, force_raw, stream_id), the real client connection being in any state
    bad = {}
    m = 0
    for cls, sids in ids.items():
        for sid in sids:
            for real in (CS.OPEN, CS.CAN_READ, CS.CAN_WRITE, CS.CLOSED):
                snap = _snap(w.roots())
                try:
                    L = layer(sid, real)
                    m += 1
                    got = half(L, "client").state
                    if not isinstance(got, CS):
                        raise AnalysisError(f"QuicStreamLayer.__init__ leaves client.state = {got!r} (no ConnectionState)")
                    if got != table[cls][0]:
                        bad.setdefault(name[cls], (sid, real, got, table[cls][0]))
                finally:
                    _unsnap(snap)
    for k, (sid, real, got, want) in bad.items():
        ctx.fail("R30.5", (RAW, "QuicStreamLayer.__init__", qi), f"client half of a {k} stream starts as {want.name}",
                 f"QuicStreamLayer(stream_id={sid}) with the QUIC client connection {real.name} leaves client.state = {got.name}, expected {want.name}: "
                 "the capability of a half must follow from the stream id class alone (RFC 9000 s.2.1); commands are sent only under CAN_WRITE, the child finishes by CAN_READ")
    if not bad:
        ctx.ok("R30.5", f"QuicStreamLayer.__init__: client half = f(id class) for {m} (client id, real connection state) cases: bidi OPEN, uni client-initiated CAN_READ, uni server-initiated CAN_WRITE")
    ctx.cells += n + m


def check(ctx):
    ctx.rule("R30.1", "allocated stream ids: unique, initiator bit and directionality bit as requested (finite evaluation of all short sequences)")
    ctx.rule("R30.2", "one layer per new stream, registered under paired ids of the same directionality; routing by own side's map; reset only on the paired id")
    ctx.rule("R30.3", "commands on a stream's virtual connection are translated to the real connection / stream id of the same side; OpenConnection pairs the server id")
    ctx.rule("R30.4", "the stream-id maps only grow: bound once (empty) in RawQuicLayer.__init__, no removal / re-binding anywhere (late events must find the owning layer)")
    ctx.rule("R30.5", "initial read/write capability of a stream's client and server half is the RFC 9000 function of the stream id class alone")
    ctx.assume("stream ids are ints (event.stream_id and allocator results are never None); peers keep to RFC 9000 (no data on a stream they may not send on, none after their own FIN)")
    ctx.trust("aioquic stream_is_unidirectional / stream_is_client_initiated implement the RFC 9000 id bits")
    ctx.trust("child layers relay like TCPLayer: Start -> OpenConnection(server) when closed, data -> SendData(other half), ConnectionClosed -> close of the other half")
    _memoise(ctx.model)
    CS = connection_state_flag(ctx)
    check_r301(ctx, CS)
    check_r3023(ctx, CS)
    ctx.guard(check_r304, ctx)
    ctx.guard(check_r305, ctx, CS)
    for rule, n in (("R30.1", 2), ("R30.2", 8), ("R30.3", 3), ("R30.4", 6), ("R30.5", 2)):
        if not any(f.rule == rule for f in ctx.findings):
            ctx.expect_instances(rule, n)


MUTANTS = [
    # R30.1
    Mutant("allocator-step-2", RAW, "        self.next_stream_id[index] = stream_id + 4\n", "        self.next_stream_id[index] = stream_id + 2\n", "R30.1"),
    Mutant("allocator-never-advances", RAW, "        self.next_stream_id[index] = stream_id + 4\n", "", "R30.1"),
    Mutant("allocator-initiator-bit-inverted", RAW, "index = (int(is_unidirectional) << 1) | int(not is_client)", "index = (int(is_unidirectional) << 1) | int(is_client)", "R30.1"),
    Mutant("allocator-bits-swapped", RAW, "index = (int(is_unidirectional) << 1) | int(not is_client)", "index = (int(not is_client) << 1) | int(is_unidirectional)", "R30.1"),
    Mutant("allocator-table-permuted", RAW, "        self.next_stream_id = [0, 1, 2, 3]\n", "        self.next_stream_id = [0, 2, 1, 3]\n", "R30.1"),
    Mutant("allocator-shared-counter", RAW, "        self.next_stream_id[index] = stream_id + 4\n", "        self.next_stream_id[index ^ 2] = stream_id + 4\n", "R30.1"),
    # R30.2
    Mutant("server-stream-client-id-as-client-initiated", RAW, "                    client_stream_id = self.get_next_available_stream_id(\n                        is_client=False,", "                    client_stream_id = self.get_next_available_stream_id(\n                        is_client=True,", "R30.2"),
    Mutant("server-stream-directionality-lost", RAW, "                        is_client=False,\n                        is_unidirectional=stream_is_unidirectional(event.stream_id),\n", "                        is_client=False,\n", "R30.2"),
    Mutant("server-stream-not-registered", RAW, "                    self.server_stream_ids[server_stream_id] = stream_layer\n", "", "R30.2"),
    Mutant("client-map-keyed-by-event-id", RAW, "                self.client_stream_ids[client_stream_id] = stream_layer\n", "                self.client_stream_ids[event.stream_id] = stream_layer\n", "R30.2"),
    Mutant("lookup-in-wrong-map", RAW, "                self.client_stream_ids if from_client else self.server_stream_ids\n", "                self.server_stream_ids if from_client else self.client_stream_ids\n", "R30.2"),
    Mutant("data-to-wrong-virtual-connection", RAW, "                stream_layer.client if from_client else stream_layer.server\n            )\n            if isinstance(event, QuicStreamDataReceived):",
           "                stream_layer.server if from_client else stream_layer.client\n            )\n            if isinstance(event, QuicStreamDataReceived):", "R30.2"),
    Mutant("end-of-stream-closes-other-side", RAW, "                    yield from self.close_stream_layer(stream_layer, from_client)\n", "                    yield from self.close_stream_layer(stream_layer, not from_client)\n", "R30.2"),
    Mutant("reset-on-own-stream-id", RAW, "and command.stream_id == stream_layer.stream_id(not from_client)", "and command.stream_id == stream_layer.stream_id(from_client)", "R30.2"),
    Mutant("reset-error-code-dropped", RAW, "                            command.connection, command.stream_id, event.error_code\n", "                            command.connection, command.stream_id, 0\n", "R30.2"),
    Mutant("stream-id-selector-inverted", RAW, "        return self._client_stream_id if client else self._server_stream_id", "        return self._server_stream_id if client else self._client_stream_id", "R30.2"),
    Mutant("connection-close-ends-other-half", RAW, "                    (conn is child_layer.client)\n                    if from_client\n                    else (conn is child_layer.server)\n",
           "                    (conn is child_layer.server)\n                    if from_client\n                    else (conn is child_layer.client)\n", "R30.2"),
    Mutant("end-of-stream-clears-can-write", RAW, "        conn.state &= ~connection.ConnectionState.CAN_READ\n", "        conn.state &= ~connection.ConnectionState.CAN_WRITE\n", "R30.2"),
    # R30.3
    Mutant("stop-sending-on-paired-stream-id", RAW, "                                quic_conn, stream_id, QuicErrorCode.NO_ERROR\n", "                                quic_conn, child_layer.stream_id(not to_client), QuicErrorCode.NO_ERROR\n", "R30.3"),
    Mutant("server-half-commands-not-intercepted", RAW, "                    or command.connection is child_layer.server\n", "                    or command.connection is child_layer.client\n", "R30.3"),
    Mutant("translate-to-other-real-connection", RAW, "                quic_conn = self.context.client if to_client else self.context.server\n", "                quic_conn = self.context.server if to_client else self.context.client\n", "R30.3"),
    Mutant("translate-with-other-sides-stream-id", RAW, "                stream_id = child_layer.stream_id(to_client)\n", "                stream_id = child_layer.stream_id(not to_client)\n", "R30.3"),
    Mutant("fin-carries-no-end-stream", RAW, "                            quic_conn, stream_id, b\"\", end_stream=True\n", "                            quic_conn, stream_id, b\"\"\n", "R30.3"),
    Mutant("open-allocates-server-initiated-id", RAW, "                    stream_id = self.get_next_available_stream_id(\n                        is_client=True,", "                    stream_id = self.get_next_available_stream_id(\n                        is_client=False,", "R30.3"),
    Mutant("open-directionality-lost", RAW, "                        is_client=True,\n                        is_unidirectional=stream_is_unidirectional(client_stream_id),\n", "                        is_client=True,\n", "R30.3"),
    Mutant("open-not-registered", RAW, "                    self.server_stream_ids[stream_id] = child_layer\n", "", "R30.3"),
    # R30.4 (first = the essence of seed C30a)
    Mutant("finished-stream-forgotten", RAW, "            yield from self.event_to_child(stream_layer, events.ConnectionClosed(conn))\n",
           "            yield from self.event_to_child(stream_layer, events.ConnectionClosed(conn))\n            if stream_layer.client.timestamp_end and stream_layer.server.timestamp_end:\n"
           "                self.client_stream_ids.pop(stream_layer.stream_id(client=True), None)\n                self.server_stream_ids.pop(stream_layer.stream_id(client=False), None)\n", "R30.4"),
    Mutant("reset-stream-deleted-through-alias", RAW, "                # preserve stream resets\n", "                del stream_ids[event.stream_id]\n", "R30.4"),
    Mutant("server-map-rebound-on-connection-close", RAW, "            other_conn = self.context.server if from_client else self.context.client\n",
           "            other_conn = self.context.server if from_client else self.context.client\n            if not from_client:\n                self.server_stream_ids = {}\n", "R30.4"),
    Mutant("maps-cleared-in-a-loop", RAW, "            other_conn = self.context.server if from_client else self.context.client\n",
           "            other_conn = self.context.server if from_client else self.context.client\n            for ids in (self.client_stream_ids, self.server_stream_ids):\n                ids.clear()\n", "R30.4"),
    # R30.5 (first = the essence of seed C30b)
    Mutant("server-half-mirrors-current-client-state", RAW, "                if stream_is_client_initiated(server_stream_id)\n", "                if self.client.state & connection.ConnectionState.CAN_READ\n", "R30.5"),
    Mutant("server-half-capabilities-swapped", RAW, "                connection.ConnectionState.CAN_WRITE\n                if stream_is_client_initiated(server_stream_id)\n                else connection.ConnectionState.CAN_READ\n",
           "                connection.ConnectionState.CAN_READ\n                if stream_is_client_initiated(server_stream_id)\n                else connection.ConnectionState.CAN_WRITE\n", "R30.5"),
    Mutant("server-half-always-open", RAW, "            if stream_is_unidirectional(server_stream_id)\n            else connection.ConnectionState.OPEN\n", "            if False\n            else connection.ConnectionState.OPEN\n", "R30.5"),
    Mutant("client-half-capabilities-swapped", RAW, "                connection.ConnectionState.CAN_READ\n                if stream_is_client_initiated(stream_id)\n                else connection.ConnectionState.CAN_WRITE\n",
           "                connection.ConnectionState.CAN_WRITE\n                if stream_is_client_initiated(stream_id)\n                else connection.ConnectionState.CAN_READ\n", "R30.5"),
    Mutant("client-half-inherits-real-connection-state", RAW, "        self.client.state = connection.ConnectionState.OPEN\n", "", "R30.5"),
    Mutant("senddata-payload-dropped", RAW, "                        yield SendQuicStreamData(quic_conn, stream_id, command.data)\n", "                        yield SendQuicStreamData(quic_conn, stream_id, b\"\")\n", "R30.3"),
]
