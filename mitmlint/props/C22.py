"""C22 - client connections from blocked address classes are refused.

Decided:
  R22.1 decision table of ``Block.client_connected`` by abstract evaluation of its AST over
        {address kind: IPv4, plain IPv6, IPv4-mapped IPv6} x {is_loopback} x {every ProxyMode subclass of mode_specs.py}
        x {block_private} x {is_private} x {block_global} x {is_global}:
        ``client.error`` ends up set (truthy)  <=>  not (loopback or LocalMode) and ((block_private and private) or
        (block_global and global)); the classification attributes are read from the address obtained from
        ``client.peername[0]`` (zone id stripped or left to ``ipaddress``) *after* unwrapping ``ipv4_mapped``; no path raises.
  R22.2 ``ConnectionHandler.handle_client``: the ClientConnectedHook is awaited first, then ``client.error`` is tested; a
        set error closes the writer and never reaches ``server_event`` / ``handle_connection``; ``events.Start()`` is
        delivered to the layer stack nowhere else in proxy/server.py.
  R22.3 registration: ``Block()`` is in ``default_addons()`` and implements the method name mitmproxy derives from
        ``ClientConnectedHook``.
  R22.4 the same decision, extracted by interpreting the method's AST (mitmlint.pyint, ``ipaddress`` as trusted library) on
        representative source addresses of every address class (IPv4 / IPv6 loopback, private, link-local with zone, global,
        shared/CGNAT, multicast, IPv4-mapped, 6to4, Teredo, NAT64, documentation) x every mode x the four option settings,
        compared with the reference computed by the checker (strip zone, unwrap ipv4_mapped ONLY, loopback/LocalMode exempt).
        Robust against refactors of the method (any pure Python), and catches any extra "unwrapping"/normalisation that
        moves an address into another class.  Bounded: one or two representatives per class.
NOT decided: the classification of concrete addresses by the ``ipaddress`` module (trusted base), that every listener
hands its connections to ``handle_client`` (mode_servers.py), and addons that clear ``client.error`` afterwards.
"""

from __future__ import annotations

import ast
import itertools

from ..core import AnalysisError
from ..core import norm
from ..model import attr_chain
from ..model import last_attr
from ..model import walk_in_order
from ..paths import C
from ..paths import GenericSpec
from ..paths import is_const
from ..paths import traces_of
from ..paths import UNKNOWN
from ..selftest import Mutant
from ._helpers_C import check_hook_naming
from ._helpers_C import class_isa
from ._helpers_C import default_addon_order
from ._helpers_C import hook_name
from ._helpers_C import is_obj
from ._helpers_C import isinstance_targets
from ._helpers_C import mode_classes
from ._helpers_C import MODE_SPECS
from ._helpers_C import OBJ
from ._helpers_C import run_cell
from ._helpers_C import StrictSpec

PROP = "C22"
REG = {
    "strength": "strong",
    "technique": "decision-table extraction by abstract evaluation of Block.client_connected over the full finite input domain "
    "+ CFG path enumeration of ConnectionHandler.handle_client (refusal before processing) + hook/addon registry agreement",
    "claim": "for every combination of address kind (IPv4 / IPv6 / IPv4-mapped IPv6), loopback, proxy mode class, block_private, "
    "is_private, block_global, is_global the addon sets client.error exactly when the property demands a refusal, classifying "
    "the unwrapped address; handle_client awaits the hook, then closes the connection without starting the layer stack when "
    "client.error is set; Block is a default addon and its method matches the hook name.",
    "note": "ipaddress' classification (is_loopback / is_private / is_global, ipv4_mapped, zone-id parsing in Python >= 3.9) is the "
    "trusted base; concrete boundary addresses of the IANA registries are not enumerated.",
}

BLOCK = "mitmproxy/addons/block.py"
SERVER = "mitmproxy/proxy/server.py"
HOOKF = "mitmproxy/proxy/server_hooks.py"

KINDS = ("v4", "v6", "v6mapped")
CLASSIFIERS = ("is_loopback", "is_private", "is_global")
SPLITTERS = {"split": "split", "rsplit": "split", "partition": "partition"}


class BlockSpec(StrictSpec):
    """Abstract values:
    OBJ('client') the hook argument; OBJ('peername'); OBJ('str','raw'|'noscope'|'zone') strings derived from peername[0];
    OBJ('parts', how); OBJ('addr', kind) with kind in v4 | v6 | v6mapped | v4u (the unwrapped IPv4 of a mapped address).
    """

    def __init__(self, model, client_param: str, cell: dict):
        super().__init__()
        self.model = model
        self.client = client_param
        self.cell = cell

    # -- inputs
    def atom(self, expr, st, depth):
        ch = attr_chain(expr)
        if ch:
            parts = ch.split(".")
            if ch == f"{self.client}.peername":
                return OBJ("peername")
            if ch == f"{self.client}.proxy_mode":
                return OBJ("mode", self.cell["mode"])
            if parts[-1] == "options" and parts[0] != self.client:
                return OBJ("options")
        if isinstance(expr, ast.Attribute):
            base = self.value(expr.value, st, depth)
            if is_obj(base, "options"):
                if expr.attr in ("block_private", "block_global"):
                    return C(self.cell[expr.attr])
                raise AnalysisError(f"Block.client_connected: decision depends on an unmodelled option {norm(expr)}")
            if is_obj(base, "addr"):
                kind = base[2]
                if expr.attr in CLASSIFIERS:
                    if kind == "v6mapped":
                        self.problems.append(
                            f".{expr.attr} is read from the IPv4-mapped IPv6 wrapper instead of the embedded IPv4 address"
                        )
                    return C(self.cell[expr.attr])
                if expr.attr == "ipv4_mapped":
                    if kind == "v6mapped":
                        return OBJ("addr", "v4u")
                    if kind == "v6":
                        return C(None)
                    self.problems.append(".ipv4_mapped is read from an IPv4Address (AttributeError: the hook crashes, nothing is refused)")
                    return C(None)
                if expr.attr == "version":
                    return C(4 if kind in ("v4", "v4u") else 6)
                raise AnalysisError(f"Block.client_connected: unmodelled address attribute {norm(expr)}")
        if isinstance(expr, ast.Subscript):
            base = self.value(expr.value, st, depth)
            try:
                idx = C(ast.literal_eval(expr.slice))
            except (ValueError, TypeError, SyntaxError):
                idx = self.value(expr.slice, st, depth)
            if is_obj(base, "peername"):
                if idx == C(0):
                    return OBJ("str", "raw")
                raise AnalysisError(f"Block.client_connected: unmodelled peername element {norm(expr)}")
            if is_obj(base, "parts"):
                if idx == C(0):
                    return OBJ("str", "noscope")
                if is_const(idx):
                    return OBJ("str", "zone")
                raise AnalysisError(f"Block.client_connected: unmodelled index {norm(expr)}")
        if isinstance(expr, ast.Call):
            f = expr.func
            name = last_attr(f)
            if isinstance(f, ast.Attribute) and name in SPLITTERS:
                base = self.value(f.value, st, depth)
                if is_obj(base, "str") and base[2] == "raw":
                    if not (expr.args and isinstance(expr.args[0], ast.Constant) and expr.args[0].value == "%"):
                        raise AnalysisError(f"Block.client_connected: unmodelled separator in {norm(expr)}")
                    return OBJ("parts", SPLITTERS[name])
            if name == "ip_address" and len(expr.args) == 1:
                a = self.value(expr.args[0], st, depth)
                if is_obj(a, "str"):
                    if a[2] == "zone":
                        self.problems.append("ip_address() is applied to the zone id / a wrong element of the split peername, not to the address")
                    return OBJ("addr", self.cell["kind"])
                raise AnalysisError(f"Block.client_connected: ip_address() of an unmodelled value {norm(expr)}")
            if isinstance(f, ast.Name) and f.id == "getattr" and len(expr.args) == 3:
                base = self.value(expr.args[0], st, depth)
                if is_obj(base, "addr") and isinstance(expr.args[1], ast.Constant) and expr.args[1].value == "ipv4_mapped":
                    dflt = self.value(expr.args[2], st, depth)
                    if base[2] == "v6mapped":
                        return OBJ("addr", "v4u")
                    if base[2] == "v6":
                        return C(None)
                    return dflt
        return None

    def bind_tuple(self, target, v, stmt, st, depth):
        if is_obj(v, "parts") and v[2] == "partition" and len(target.elts) == 3 and all(isinstance(e, ast.Name) for e in target.elts):
            st = st.set(f"{depth}:{target.elts[0].id}", OBJ("str", "noscope"))
            st = st.set(f"{depth}:{target.elts[1].id}", UNKNOWN)
            return st.set(f"{depth}:{target.elts[2].id}", OBJ("str", "zone"))
        return super().bind_tuple(target, v, stmt, st, depth)

    def decide_isinstance(self, cond, st, depth):
        v = self.value(cond.args[0], st, depth)
        names = isinstance_targets(cond)
        if is_obj(v, "addr"):
            is6 = v[2] in ("v6", "v6mapped")
            known = {"IPv6Address": is6, "IPv4Address": not is6}
            if any(n not in known for n in names):
                raise AnalysisError(f"Block.client_connected: unmodelled address class in {norm(cond)}")
            return any(known[n] for n in names)
        if is_obj(v, "mode"):
            return any(class_isa(self.model, MODE_SPECS, v[2], n) for n in names)
        return None

    # -- effects
    def write_event(self, target, value, stmt, st, depth):
        if attr_chain(target) == f"{self.client}.error":
            return ("error:=", value)
        raise AnalysisError(f"Block.client_connected: unmodelled write {norm(stmt)}")

    def after_write(self, target, v, st, depth):
        return st.set("client.error", v)


def expected_refusal(cell) -> bool:
    if cell["is_loopback"] or cell["mode"] == "LocalMode":
        return False
    return bool((cell["block_private"] and cell["is_private"]) or (cell["block_global"] and cell["is_global"]))


def r22_1(ctx, fn):
    m = ctx.model
    params = [a.arg for a in fn.args.args]
    ctx.require(len(params) == 2 and params[0] == "self", f"Block.client_connected has an unexpected signature {params}")
    client = params[1]
    modes = mode_classes(ctx)
    ctx.require("LocalMode" in modes, "mode_specs.LocalMode vanished")
    StrictSpec().vet(fn)
    mism: dict = {}
    probs: dict = {}
    n = 0
    for kind in KINDS:
        for mode in modes:
            for lb, bp, pr, bg, gl in itertools.product((False, True), repeat=5):
                cell = {"kind": kind, "mode": mode, "is_loopback": lb, "block_private": bp, "is_private": pr, "block_global": bg, "is_global": gl}
                spec = BlockSpec(m, client, cell)
                how, st = run_cell(spec, fn, {client: OBJ("client")})
                n += 1
                for p in spec.problems:
                    probs.setdefault(p, cell)
                if how != "return":
                    mism.setdefault(("raises", how), cell)
                    continue
                v = st.get("client.error", C(None))
                t = spec.truthy(v)
                if t is None:
                    raise AnalysisError(f"Block.client_connected: value written to client.error is not modelled ({v})")
                exp = expected_refusal(cell)
                if t != exp:
                    mism.setdefault((f"refused={t}", f"expected={exp}"), cell)
                if n in (1, 300, 700):
                    ctx.sample({"cell": cell, "refused": t})
    ctx.cells += n
    where = (BLOCK, "Block.client_connected", fn)
    for (obs, exp), cell in sorted(mism.items()):
        short = ",".join(f"{k}={cell[k]}" for k in ("is_loopback", "mode", "block_private", "is_private", "block_global", "is_global"))
        ctx.fail("R22.1", where, f"{obs} {exp} at {short}", f"decision table differs from the property (first differing cell, address kind {cell['kind']})", cell=cell)
    for p, cell in sorted(probs.items()):
        ctx.fail("R22.1", where, p, f"address kind {cell['kind']}: the wrong object is classified", cell=cell)
    if not mism and not probs:
        ctx.ok("R22.1", f"decision table: {n} cells = {len(KINDS)} address kinds x {len(modes)} modes x 32 flag combinations agree with the property")
        ctx.ok("R22.1", "classification attributes are read from the address of client.peername[0] after unwrapping ipv4_mapped")
    return n


class HandleClientSpec(GenericSpec):
    """Projects handle_client onto: hook construction, awaits, the client.error test, close(), layer-processing calls."""

    PROC = ("server_event", "handle_connection", "handle_event")

    def __init__(self):
        def keep(ev):
            if ev[0] == "call":
                return ev[1].split(".")[-1] in ("ClientConnectedHook", "close", "abort") + self.PROC
            if ev[0] == "await":
                return ev[1].split(".")[-1] in ("handle_hook",) + self.PROC
            return False

        super().__init__(keep=keep, record_conds=True)

    def cond_event(self, expr, value, st):
        e = expr
        if isinstance(e, ast.NamedExpr):
            e = e.value
        if attr_chain(e) == "self.client.error":
            return ("cerr", value)
        if isinstance(e, ast.Compare) and attr_chain(e.left) == "self.client.error" and len(e.ops) == 1:
            c = e.comparators[0]
            if isinstance(c, ast.Constant) and c.value is None and isinstance(e.ops[0], (ast.Is, ast.IsNot)):
                return ("cerr", (not value) if isinstance(e.ops[0], ast.Is) else value)
        if "client.error" in ast.unparse(expr):
            raise AnalysisError(f"handle_client: unmodelled test of client.error: {norm(expr)}")
        return None


def r22_2(ctx):
    fn = ctx.func(SERVER, "ConnectionHandler.handle_client")
    where = (SERVER, "ConnectionHandler.handle_client", fn)
    hooks = [c for c in walk_in_order(fn) if isinstance(c, ast.Call) and last_attr(c.func) == "ClientConnectedHook"]
    ctx.require(len(hooks) == 1, f"handle_client constructs ClientConnectedHook {len(hooks)} times (expected once)")
    ctx.require(len(hooks[0].args) == 1 and attr_chain(hooks[0].args[0]) == "self.client", f"ClientConnectedHook argument changed: {norm(hooks[0])}")
    spec = HandleClientSpec()
    traces, eng = traces_of(fn, spec)
    ctx.paths += len(traces)
    ctx.require(len(traces) >= 2, "handle_client: path enumeration collapsed")
    proc = lambda e: e[0] in ("call", "await") and e[1].split(".")[-1] in spec.PROC  # noqa: E731
    bad = {}
    n_refuse = n_accept = 0
    for tr, how, _ in traces:
        ih = next((i for i, e in enumerate(tr) if e[0] == "call" and e[1].endswith("ClientConnectedHook")), -1)
        ia = next((i for i, e in enumerate(tr) if i > ih >= 0 and e == ("await", "self.handle_hook")), -1)
        ic = next((i for i, e in enumerate(tr) if e[0] == "cerr"), -1)
        procs = [i for i, e in enumerate(tr) if proc(e)]
        if ic >= 0:
            n_refuse += bool(tr[ic][1])
            n_accept += not tr[ic][1]
        if procs and (ic < 0 or min(procs) < ic):
            bad.setdefault("layer processing starts without a preceding test of client.error", tr)
            continue
        if ic >= 0 and not (0 <= ih < ia < ic):
            bad.setdefault("client.error is tested before the client_connected hook has been awaited", tr)
            continue
        if ic < 0:
            continue
        if tr[ic][1]:
            if procs:
                bad.setdefault("layer processing is reached although client.error is set", tr)
            if not any(e[0] == "call" and e[1].split(".")[-1] in ("close", "abort") for e in tr[ic:]):
                bad.setdefault("client.error set but the connection is not closed", tr)
    for msg, tr in sorted(bad.items()):
        ctx.fail("R22.2", where, msg, "a refused client is not (only) refused", trace=[list(e) for e in tr])
    ctx.require(n_refuse >= 1 and n_accept >= 1, "handle_client: no path tests client.error (anchor changed shape)")
    if not bad:
        ctx.ok("R22.2", f"handle_client: {len(traces)} paths; hook awaited < client.error test < processing; refusal paths close and never process")
    # events.Start() is delivered to the layer stack only from the guarded place
    mod = ctx.model.module(SERVER)
    starts = [c for c in walk_in_order(mod.tree) if isinstance(c, ast.Call) and attr_chain(c.func) in ("events.Start", "Start")]
    ctx.require(len(starts) >= 1, "proxy/server.py no longer constructs events.Start()")
    from ..model import qual_of

    outside = [c for c in starts if qual_of(c) != "ConnectionHandler.handle_client"]
    for c in outside:
        ctx.fail("R22.2", (SERVER, qual_of(c), c), "events.Start() outside handle_client", "the layer stack can be started on a path that does not test client.error")
    if not outside:
        ctx.ok("R22.2", f"events.Start() constructed only in handle_client ({len(starts)} site)")


REPRESENTATIVES = [
    "127.0.0.1", "127.8.9.10", "10.1.2.3", "192.168.1.7", "172.16.5.4", "169.254.1.1", "100.64.0.1", "8.8.8.8", "93.184.216.34", "224.0.0.1",
    "::1", "fd00::1", "fe80::1%eth0", "fe80::2%3", "2001:4860:4860::8888", "2606:2800:220:1:248:1893:25c8:1946", "ff02::1",
    "::ffff:127.0.0.1", "::ffff:10.0.0.1", "::ffff:8.8.8.8", "::ffff:192.168.0.1%eth1",
    "2002:c0a8:101::1", "2002:7f00:1::1", "2002:808:808::1", "2001:0:4136:e378:8000:63bf:3fff:fdd2", "64:ff9b::808:808", "64:ff9b::a00:1", "2001:db8::1",
]


def r22_4(ctx, meth):
    import ipaddress

    from ..pyint import Interp
    from ..pyint import Raised
    from ..pyint import Rec

    class _Log:
        def __getattr__(self, name):
            return lambda *a, **k: None

    modes = mode_classes(ctx)
    fn = ctx.model.func(BLOCK, f"Block.{meth}")
    where = (BLOCK, f"Block.{meth}", fn)
    bad = {}
    n = 0
    for peer in REPRESENTATIVES:
        a = ipaddress.ip_address(peer.split("%")[0])
        if isinstance(a, ipaddress.IPv6Address) and a.ipv4_mapped:
            a = a.ipv4_mapped
        for mode in modes:
            for bp, bg in itertools.product((False, True), repeat=2):
                want = False if (a.is_loopback or mode == "LocalMode") else bool((bp and a.is_private) or (bg and a.is_global))
                it = Interp(ctx.model, trusted_modules={"ipaddress": ipaddress, "logging": _Log()})
                it.overrides[("mitmproxy/ctx.py", "options")] = Rec("Options", block_private=bp, block_global=bg)
                it.overrides[(BLOCK, "logger")] = _Log()
                anc = [c.name for _, c in ctx.model.mro(MODE_SPECS, mode)]
                client = Rec("Client", _name="client", peername=(peer, 51234), sockname=("192.0.2.1", 8080), proxy_mode=Rec(mode, _bases=tuple(anc[1:])), error=None)
                try:
                    it.method(Rec("Block", _impl=(BLOCK, "Block")), meth, client)
                    got = bool(client.error)
                except Raised as r:
                    got = f"raises {r.name}"
                n += 1
                if got != want:
                    bad.setdefault((peer, got, want), f"mode={mode} block_private={bp} block_global={bg}")
    ctx.cells += n
    for (peer, got, want), cell in sorted(bad.items(), key=str):
        ctx.fail("R22.4", where, f"source {peer}: refused={got}, expected {want}", f"first differing cell: {cell}; the address is classified differently from the property (only a zone id may be stripped and only ipv4_mapped unwrapped)")
    if not bad:
        ctx.ok("R22.4", f"{n} cells = {len(REPRESENTATIVES)} representative sources x {len(modes)} modes x 4 option settings agree with the reference")
    ctx.bounds.append(f"R22.4: {len(REPRESENTATIVES)} representative source addresses (1-2 per address class), not all addresses")


def check(ctx):
    ctx.rule("R22.4", "Block.client_connected interpreted on representative addresses of every class equals the reference classification")
    ctx.rule("R22.1", "Block.client_connected decision table over the full abstract domain equals the property's table; the unwrapped address is classified")
    ctx.rule("R22.2", "handle_client: hook awaited, then client.error tested; set error => close, never server_event/handle_connection")
    ctx.rule("R22.3", "Block is a default addon and implements the method name derived from ClientConnectedHook")
    ctx.trust("ipaddress: ip_address parses zone ids (>= 3.9), is_loopback/is_private/is_global/ipv4_mapped classify correctly")
    # R22.3
    check_hook_naming(ctx)
    ctx.model.cls(HOOKF, "ClientConnectedHook")
    meth = hook_name("ClientConnectedHook")
    order = default_addon_order(ctx)
    ctx.check("Block" in order, "R22.3", ("mitmproxy/addons/__init__.py", "default_addons", 0), "block.Block() in default_addons",
              "the Block addon is not loaded by default: nothing refuses blocked clients", desc="Block() in default_addons")
    ctx.model.cls(BLOCK, "Block")
    has = ctx.model.has(BLOCK, f"Block.{meth}")
    ctx.check(has, "R22.3", (BLOCK, "Block", ctx.model.cls(BLOCK, "Block")), f"Block.{meth}",
              f"Block does not implement {meth}: the ClientConnectedHook never reaches it", desc=f"Block.{meth} <- ClientConnectedHook")
    ctx.expect_instances("R22.3", 2)
    if has:
        fn = ctx.func(BLOCK, f"Block.{meth}")
        ctx.guard(r22_4, ctx, meth)
        if ctx.guard(r22_1, ctx, fn) is not None:
            ctx.expect_instances("R22.1", 1)
    r22_2(ctx)
    ctx.expect_instances("R22.2", 2)


_HOOK_THEN_CHECK = (
    "        await self.handle_hook(server_hooks.ClientConnectedHook(self.client))\n"
    "        if self.client.error:\n"
)

MUTANTS = [
    Mutant("unwrap-6to4", BLOCK, "address = address.ipv4_mapped or address", "address = address.ipv4_mapped or address.sixtofour or address", "R22.4"),
    Mutant("private-includes-linklocal-only", BLOCK, "ctx.options.block_private and address.is_private", "ctx.options.block_private and address.is_link_local", "R22.4"),
    Mutant("global-means-not-private", BLOCK, "ctx.options.block_global and address.is_global", "ctx.options.block_global and not address.is_private", "R22.4"),
    Mutant("loopback-not-exempt", BLOCK, "if address.is_loopback or isinstance(", "if isinstance(", "R22.1"),
    Mutant("global-option-tests-private", BLOCK, "ctx.options.block_global and address.is_global", "ctx.options.block_global and address.is_private", "R22.1"),
    Mutant("mapped-not-unwrapped", BLOCK, "            address = address.ipv4_mapped or address\n", "            pass\n", "R22.1"),
    Mutant("unwrap-without-v6-guard", BLOCK, "        if isinstance(address, ipaddress.IPv6Address):\n            address = address.ipv4_mapped or address\n",
           "        address = address.ipv4_mapped or address\n", "R22.1"),
    Mutant("classify-zone-id", BLOCK, "ipaddress.ip_address(parts[0])", "ipaddress.ip_address(parts[-1])", "R22.1"),
    Mutant("wireguard-exempt-too", BLOCK, "isinstance(client.proxy_mode, mode_specs.LocalMode)", "isinstance(client.proxy_mode, (mode_specs.LocalMode, mode_specs.WireGuardMode))", "R22.1"),
    Mutant("private-return-skips-global", BLOCK, "            client.error = \"Connection killed by block_private.\"\n",
           "            client.error = \"Connection killed by block_private.\"\n        else:\n            return\n", "R22.1"),
    Mutant("guard-disabled", SERVER, "        if self.client.error:\n            self.log(\"client kill connection\")", "        if self.client.error and False:\n            self.log(\"client kill connection\")", "R22.2"),
    Mutant("hook-not-awaited", SERVER, "        await self.handle_hook(server_hooks.ClientConnectedHook(self.client))\n",
           "        asyncio_utils.create_task(self.handle_hook(server_hooks.ClientConnectedHook(self.client)), name=\"hook\", keep_ref=False)\n", "R22.2"),
    Mutant("check-before-hook", SERVER, _HOOK_THEN_CHECK, "        if self.client.error:\n            await self.handle_hook(server_hooks.ClientConnectedHook(self.client))\n", "R22.2"),
    Mutant("refused-not-closed", SERVER, "            assert writer\n            writer.close()\n        else:\n            await self.server_event(events.Start())", "            assert writer\n        else:\n            await self.server_event(events.Start())", "R22.2"),
    Mutant("start-then-refuse", SERVER, "            self.log(\"client kill connection\")\n", "            self.log(\"client kill connection\")\n            await self.server_event(events.Start())\n", "R22.2"),
    Mutant("block-not-default", "mitmproxy/addons/__init__.py", "        block.Block(),\n", "", "R22.3"),
    Mutant("hook-method-renamed", BLOCK, "def client_connected(self, client):", "def clientconnect(self, client):", "R22.3"),
]
