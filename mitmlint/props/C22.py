"""C22 - client connections from blocked address classes are refused.

Decided:
  R22.1 decision table of ``Block.client_connected`` by *interpreting* the method (mitmlint.pyint via the LayerInterp harness: helper
        functions / methods, loops over rule tables - also tables completed by later module-level statements (``T = {}; T["k"] = f``,
        ``.update``, ``+=``, a top-level ``for`` / ``if``: _helpers_C.ModuleInitMixin) -, lambdas / attrgetter rows, match, getattr are
        all just Python) over an abstract ``ipaddress`` module (``ip_address`` and the ``IPv4Address`` / ``IPv6Address`` constructors
        with the library's ``AddressValueError`` < ``ValueError``):
        {address kind: IPv4, plain IPv6, IPv4-mapped IPv6; the IPv6 kinds with and without zone id} x {is_loopback} x
        {every ProxyMode subclass of mode_specs.py} x {block_private} x {is_private} x {block_global} x {is_global}:
        ``client.error`` ends up set (truthy)  <=>  not (loopback or LocalMode) and ((block_private and private) or
        (block_global and global)); the classification attributes are read from the address obtained from
        ``client.peername[0]`` (zone id stripped or left to ``ipaddress``) *after* unwrapping ``ipv4_mapped`` (the abstract
        wrapper object reports every classification read and answers it negated); no path raises.  A decision that depends on
        anything outside this domain (another address attribute, another option) is not modelled (AnalysisError, never a guess).
  R22.2 ``ConnectionHandler.handle_client`` (helper methods inlined; shared value-based projection _helpers_B.HandleClientSpec):
        the ClientConnectedHook is awaited first, then ``client.error`` is tested - directly, negated, via bool() / ``is None`` or
        through a local, as long as the attribute is *read* after the hook was awaited; a set error closes the writer and never
        reaches ``server_event`` / ``handle_connection``; ``events.Start()`` is delivered to the layer stack from nowhere else in
        proxy/server.py (handle_client or a helper called only from it).
  R22.3 registration: ``Block()`` is in ``default_addons()`` and implements the method name mitmproxy derives from
        ``ClientConnectedHook``.
  R22.4 the same decision, extracted by interpreting the method's AST (mitmlint.pyint, ``ipaddress`` as trusted library) on
        representative source addresses of every address class (IPv4 / IPv6 loopback, private, link-local with zone, global,
        shared/CGNAT, multicast, IPv4-mapped, 6to4, Teredo, NAT64, documentation) x every mode x the four option settings,
        compared with the reference computed by the checker (strip zone, unwrap ipv4_mapped ONLY, loopback/LocalMode exempt).
        Robust against refactors of the method (any pure Python), and catches any extra "unwrapping"/normalisation that
        moves an address into another class.  Bounded: one or two representatives per class.
NOT decided: the classification of concrete addresses by the ``ipaddress`` module (trusted base), that every listener
hands its connections to ``handle_client`` (mode_servers.py), and addons that clear ``client.error`` afterwards.
"""

from __future__ import annotations

import ast
import ipaddress as _ipaddress  # (the library's exception hierarchy and, in R22.4, its classification: trusted base)
import itertools

from ..core import AnalysisError
from ..core import norm
from ..model import attr_chain
from ..model import last_attr
from ..model import walk_in_order
from ..selftest import Mutant
from ._helpers_B import handle_client_paths
from ._helpers_B import only_reachable_from
from ._helpers_C import CachedModel
from ._helpers_C import check_hook_naming
from ._helpers_C import default_addon_order
from ._helpers_C import hook_name
from ._helpers_C import InitLayerInterp as LayerInterp  # (+ module-level initialisation statements: rule tables built in steps)
from ._helpers_C import Opaque
from ._helpers_C import OpenRec
from ._helpers_C import Raised
from ._helpers_C import Rec
from ._helpers_C import mode_classes
from ._helpers_C import MODE_SPECS

PROP = "C22"
REG = {
    "strength": "strong",
    "technique": "decision-table extraction by abstract evaluation of Block.client_connected over the full finite input domain "
    "+ CFG path enumeration of ConnectionHandler.handle_client (refusal before processing) + hook/addon registry agreement",
    "claim": "for every combination of address kind (IPv4 / IPv6 / IPv4-mapped IPv6), loopback, proxy mode class, block_private, "
    "is_private, block_global, is_global the addon sets client.error exactly when the property demands a refusal, classifying "
    "the unwrapped address; handle_client awaits the hook, then closes the connection without starting the layer stack when "
    "client.error is set; Block is a default addon and its method matches the hook name.",
    "note": "ipaddress' classification (is_loopback / is_private / is_global, ipv4_mapped, zone-id parsing in Python >= 3.9) is the "
    "trusted base; concrete boundary addresses of the IANA registries are not enumerated.",
}

BLOCK = "mitmproxy/addons/block.py"
SERVER = "mitmproxy/proxy/server.py"
HOOKF = "mitmproxy/proxy/server_hooks.py"

KINDS = ("v4", "v6", "v6z", "v6mapped", "v6mappedz")  # z: the peer name carries a zone id ("fe80::1%eth0")
CLASSIFIERS = ("is_loopback", "is_private", "is_global")
HOST4, HOST6, ZONE = "192.0.2.7", "2001:db8::7", "eth0"  # spellings only (they survive strip()/lower()): what matters is which part reaches ip_address()


class _World:
    """One cell of the abstract domain + what the interpreted method did with the address objects."""

    def __init__(self, cell):
        self.cell = cell
        self.problems: list[str] = []


class _AbsAddress:
    """Abstract ``ipaddress`` object: the three classification attributes are the free booleans of the cell.  ``role``:
    'plain' (the address itself), 'wrapper' (an IPv4-mapped IPv6 address: classifying *it* is the defect of R22.1 - its answers are
    the negated ones, so that a decision taken on them shows in the table as well), 'embedded' (the IPv4 address inside)."""

    version = 0

    def __init__(self, world, role):
        object.__setattr__(self, "_w", world)
        object.__setattr__(self, "_role", role)

    def _flag(self, name):
        v = self._w.cell[name]
        if self._role == "wrapper":
            self._w.problems.append(f".{name} is read from the IPv4-mapped IPv6 wrapper instead of the embedded IPv4 address")
            return not v
        return v

    is_loopback = property(lambda self: self._flag("is_loopback"))
    is_private = property(lambda self: self._flag("is_private"))
    is_global = property(lambda self: self._flag("is_global"))

    def __getattr__(self, name):
        if name.startswith("__"):
            raise AttributeError(name)
        if name == "ipv4_mapped":  # only IPv6Address has it: unguarded the hook crashes (shows as `raises AttributeError` in the table)
            raise AttributeError(name)
        return Opaque(f"address.{name}")  # may be logged; a decision on it is outside the table (AnalysisError in LayerInterp)

    def __setattr__(self, name, value):
        raise AnalysisError(f"Block.client_connected: write to an address object (.{name})")

    def __repr__(self):
        return f"<abstract IPv{self.version} address ({self._role})>"

    __str__ = __repr__

    def __format__(self, spec):
        return repr(self)


class _AbsV4(_AbsAddress):
    version = 4


class _AbsV6(_AbsAddress):
    version = 6

    @property
    def ipv4_mapped(self):
        return self._w.ipmod.IPv4Address(None, "embedded") if self._role == "wrapper" else None


class _AbsIpaddress:
    """The part of the ``ipaddress`` module the decision may use, over the abstract domain: ``ip_address(text)`` and the two address
    classes - as constructors (``IPv4Address(text)`` / ``IPv6Address(text)`` raise ``AddressValueError``, a ``ValueError``, for the other
    family, exactly like the library: "try IPv4, else IPv6" is a legitimate way to parse) and as isinstance targets."""

    AddressValueError = _ipaddress.AddressValueError

    def __init__(self, world):
        self._w = world
        world.ipmod = self
        mod = self

        class IPv4Address(_AbsV4):
            _abstract_ok = True  # (LayerInterp: a library callable that may be handed abstract values)

            def __init__(self, text, _role=None):
                _AbsAddress.__init__(self, world, _role or mod._parse(text, 4, "IPv4Address()"))

        class IPv6Address(_AbsV6):
            _abstract_ok = True

            def __init__(self, text, _role=None):
                _AbsAddress.__init__(self, world, _role or mod._parse(text, 6, "IPv6Address()"))

        self.IPv4Address, self.IPv6Address = IPv4Address, IPv6Address

    def _parse(self, text, version, what):
        """role of the address object ``text`` parses to (``version``: 4 | 6 | None = whichever family) - or the library's exception"""
        w = self._w
        kind = w.cell["kind"]
        host = HOST4 if kind == "v4" else HOST6
        if not isinstance(text, str):
            raise AnalysisError(f"Block.client_connected: {what} of an unmodelled value {text!r}")
        exc = "ValueError" if version is None else "AddressValueError"
        if version is not None and version != (4 if kind == "v4" else 6):
            raise Raised(exc, f"{text!r} is not an IPv{version} address")  # a probe of the other family: not a problem by itself
        if text not in (host, f"{host}%{ZONE}") or (text != host and not kind.endswith("z")):
            w.problems.append(f"{what} is applied to the zone id / a wrong element of the split peername, not to the address")
            raise Raised(exc, f"{text!r} does not appear to be an IPv4 or IPv6 address")
        return "plain" if kind == "v4" else ("wrapper" if kind.startswith("v6mapped") else "plain")

    def ip_address(self, text):
        role = self._parse(text, None, "ip_address()")
        return self.IPv4Address(None, role) if self._w.cell["kind"] == "v4" else self.IPv6Address(None, role)

    ip_address._abstract_ok = True  # (LayerInterp: may be handed abstract values)

    def __getattr__(self, name):
        raise AnalysisError(f"Block.client_connected: ipaddress.{name} is not part of the abstract address domain")


def expected_refusal(cell) -> bool:
    if cell["is_loopback"] or cell["mode"] == "LocalMode":
        return False
    return bool((cell["block_private"] and cell["is_private"]) or (cell["block_global"] and cell["is_global"]))


def _run_hook(ctx, interp, meth, peer, mode, anc, bp, bg):
    """Interpret Block.<meth>(client) once -> True/False (client.error set?) | 'raises X'"""
    interp.overrides[("mitmproxy/ctx.py", "options")] = OpenRec("Options", _name="ctx.options", block_private=bp, block_global=bg)
    client = OpenRec("Client", _bases=("Connection",), _name="client", peername=(peer, 51234), sockname=("192.0.2.1", 8080),
                     proxy_mode=Rec(mode, _bases=tuple(anc[1:])), error=None)
    interp.steps = 0
    try:
        interp.method(Rec("Block", _impl=(BLOCK, "Block")), meth, client)
        return bool(client.error)
    except Raised as r:
        return f"raises {r.name}"


def r22_1(ctx, meth):
    """the decision table of the hook by *interpreting* it (any pure Python: helpers, loops over rule tables, match, getattr ...) over
    the abstract address domain above"""
    modes = mode_classes(ctx)
    ctx.require("LocalMode" in modes, "mode_specs.LocalMode vanished")
    fn = ctx.model.func(BLOCK, f"Block.{meth}")
    params = [a.arg for a in fn.args.args]
    ctx.require(len(params) == 2 and params[0] == "self", f"Block.{meth} has an unexpected signature {params}")
    ancs = {mode: [c.name for _, c in ctx.model.mro(MODE_SPECS, mode)] for mode in modes}
    mism: dict = {}
    probs: dict = {}
    n = 0
    cm = CachedModel(ctx.model)
    for kind in KINDS:
        peer = (HOST4 if kind == "v4" else HOST6) + (f"%{ZONE}" if kind.endswith("z") else "")
        for lb, pr, gl in itertools.product((False, True), repeat=3):
            cell0 = {"kind": kind, "is_loopback": lb, "is_private": pr, "is_global": gl}
            world = _World(cell0)
            interp = LayerInterp(cm, trusted_modules={"ipaddress": _AbsIpaddress(world)})
            interp._exc_registry()["AddressValueError"] = _ipaddress.AddressValueError  # `except ValueError` catches it
            for mode in modes:
                for bp, bg in itertools.product((False, True), repeat=2):
                    cell = dict(cell0, mode=mode, block_private=bp, block_global=bg)
                    world.cell = cell
                    world.problems = []
                    got = _run_hook(ctx, interp, meth, peer, mode, ancs[mode], bp, bg)
                    n += 1
                    exp = expected_refusal(cell)
                    if got is not exp:
                        for p in world.problems:  # (explains the differing cell; a read that decides nothing - logging - is harmless)
                            probs.setdefault(p, cell)
                        if isinstance(got, str):
                            mism.setdefault(("raises", got), cell)
                        else:
                            mism.setdefault((f"refused={got}", f"expected={exp}"), cell)
                    if n in (1, 300, 700):
                        ctx.sample({"cell": cell, "refused": got})
    ctx.cells += n
    where = (BLOCK, f"Block.{meth}", fn)
    for (obs, exp), cell in sorted(mism.items()):
        short = ",".join(f"{k}={cell[k]}" for k in ("is_loopback", "mode", "block_private", "is_private", "block_global", "is_global"))
        ctx.fail("R22.1", where, f"{obs} {exp} at {short}", f"decision table differs from the property (first differing cell, address kind {cell['kind']})", cell=cell)
    for p, cell in sorted(probs.items()):
        ctx.fail("R22.1", where, p, f"address kind {cell['kind']}: the wrong object is classified", cell=cell)
    if not mism and not probs:
        ctx.ok("R22.1", f"decision table: {n} cells = {len(KINDS)} address kinds x {len(modes)} modes x 32 flag combinations agree with the property")
        ctx.ok("R22.1", "classification attributes are read from the address of client.peername[0] after unwrapping ipv4_mapped")
    return n


PROC = ("server_event", "handle_connection", "handle_event")
CC_HOOK = "ClientConnectedHook"


def r22_2(ctx):
    # value-based projection of handle_client shared with C09 (_helpers_B.HandleClientSpec): helper methods are inlined; the test of
    # client.error is recognised directly, negated, via bool() / `is (not) None` or through a local, and carries the position at which the
    # attribute was *read* (a value read before the hook was awaited is stale)
    fn, traces, eng = handle_client_paths(ctx, (CC_HOOK, "ClientDisconnectedHook"))
    where = (SERVER, "ConnectionHandler.handle_client", fn)
    mod = ctx.model.module(SERVER)
    hooks = [c for c in walk_in_order(mod.tree) if isinstance(c, ast.Call) and last_attr(c.func) == CC_HOOK]
    ctx.require(len(hooks) >= 1, "proxy/server.py no longer constructs ClientConnectedHook")
    from ..model import enclosing_func
    from ..model import qual_of
    from ._helpers_B import local_defs

    for h in hooks:
        a = h.args[0] if len(h.args) == 1 and not h.keywords else None
        if isinstance(a, ast.Name) and enclosing_func(h) is not None:  # `client = self.client` ... Hook(client)
            defs = local_defs(enclosing_func(h), a.id)
            ok = bool(defs) and all(attr_chain(d) == "self.client" for d in defs)
        else:
            ok = a is not None and attr_chain(a) == "self.client"
        ctx.require(ok, f"ClientConnectedHook argument changed: {norm(h)}")
    ctx.paths += len(traces)
    ctx.require(len(traces) >= 2, "handle_client: path enumeration collapsed")
    proc = lambda e: e[0] in ("call", "await") and e[1].split(".")[-1] in PROC  # noqa: E731
    bad = {}
    n_refuse = n_accept = 0
    for tr, how, _ in traces:
        ih = next((i for i, e in enumerate(tr) if e == ("hook", CC_HOOK)), -1)
        ia = next((i for i, e in enumerate(tr) if i > ih >= 0 and e == ("hookawait", CC_HOOK)), -1)
        ic = next((i for i, e in enumerate(tr) if e[0] == "cerr"), -1)
        procs = [i for i, e in enumerate(tr) if proc(e)]
        if ic >= 0:
            n_refuse += bool(tr[ic][1])
            n_accept += not tr[ic][1]
        if procs and (ic < 0 or min(procs) < ic):
            bad.setdefault("layer processing starts without a preceding test of client.error", tr)
            continue
        if ic >= 0 and not (0 <= ih < ia < ic and tr[ic][2] > ia):
            bad.setdefault("client.error is tested before the client_connected hook has been awaited", tr)
            continue
        if ic < 0:
            continue
        if tr[ic][1]:
            if procs:
                bad.setdefault("layer processing is reached although client.error is set", tr)
            if not any(e[0] == "call" and e[1].split(".")[-1] in ("close", "abort") for e in tr[ic:]):
                bad.setdefault("client.error set but the connection is not closed", tr)
    for msg, tr in sorted(bad.items()):
        ctx.fail("R22.2", where, msg, "a refused client is not (only) refused", trace=[[x if not isinstance(x, ast.AST) else norm(x)[:60] for x in e] for e in tr])
    ctx.require(n_refuse >= 1 and n_accept >= 1, "handle_client: no path tests client.error (anchor changed shape)")
    if not bad:
        ctx.ok("R22.2", f"handle_client: {len(traces)} paths; hook awaited < client.error test < processing; refusal paths close and never process")
    # events.Start() is delivered to the layer stack only from the guarded place (handle_client or a helper called from nowhere else)
    starts = [c for c in walk_in_order(mod.tree) if isinstance(c, ast.Call) and attr_chain(c.func) in ("events.Start", "Start")]
    ctx.require(len(starts) >= 1, "proxy/server.py no longer constructs events.Start()")
    outside = []
    for c in starts:
        f = enclosing_func(c)
        if not (f is fn or (f is not None and f.name in eng.inlined and only_reachable_from(ctx.model, SERVER, f, [fn]))):
            outside.append(c)
    for c in outside:
        ctx.fail("R22.2", (SERVER, qual_of(c), c), "events.Start() outside handle_client", "the layer stack can be started on a path that does not test client.error")
    if not outside:
        ctx.ok("R22.2", f"events.Start() constructed only in handle_client ({len(starts)} site)")


REPRESENTATIVES = [
    "127.0.0.1", "127.8.9.10", "10.1.2.3", "192.168.1.7", "172.16.5.4", "169.254.1.1", "100.64.0.1", "8.8.8.8", "93.184.216.34", "224.0.0.1",
    "::1", "fd00::1", "fe80::1%eth0", "fe80::2%3", "2001:4860:4860::8888", "2606:2800:220:1:248:1893:25c8:1946", "ff02::1",
    "::ffff:127.0.0.1", "::ffff:10.0.0.1", "::ffff:8.8.8.8", "::ffff:192.168.0.1%eth1",
    "2002:c0a8:101::1", "2002:7f00:1::1", "2002:808:808::1", "2001:0:4136:e378:8000:63bf:3fff:fdd2", "64:ff9b::808:808", "64:ff9b::a00:1", "2001:db8::1",
]


def r22_4(ctx, meth):
    import ipaddress

    modes = mode_classes(ctx)
    fn = ctx.model.func(BLOCK, f"Block.{meth}")
    where = (BLOCK, f"Block.{meth}", fn)
    bad = {}
    n = 0
    interp = LayerInterp(ctx.model, trusted_modules={"ipaddress": ipaddress})
    ancs = {mode: [c.name for _, c in ctx.model.mro(MODE_SPECS, mode)] for mode in modes}
    for peer in REPRESENTATIVES:
        a = ipaddress.ip_address(peer.split("%")[0])
        if isinstance(a, ipaddress.IPv6Address) and a.ipv4_mapped:
            a = a.ipv4_mapped
        for mode in modes:
            for bp, bg in itertools.product((False, True), repeat=2):
                want = False if (a.is_loopback or mode == "LocalMode") else bool((bp and a.is_private) or (bg and a.is_global))
                got = _run_hook(ctx, interp, meth, peer, mode, ancs[mode], bp, bg)
                n += 1
                if got != want:
                    bad.setdefault((peer, got, want), f"mode={mode} block_private={bp} block_global={bg}")
    ctx.cells += n
    for (peer, got, want), cell in sorted(bad.items(), key=str):
        ctx.fail("R22.4", where, f"source {peer}: refused={got}, expected {want}", f"first differing cell: {cell}; the address is classified differently from the property (only a zone id may be stripped and only ipv4_mapped unwrapped)")
    if not bad:
        ctx.ok("R22.4", f"{n} cells = {len(REPRESENTATIVES)} representative sources x {len(modes)} modes x 4 option settings agree with the reference")
    ctx.bounds.append(f"R22.4: {len(REPRESENTATIVES)} representative source addresses (1-2 per address class), not all addresses")


def check(ctx):
    ctx.rule("R22.4", "Block.client_connected interpreted on representative addresses of every class equals the reference classification")
    ctx.rule("R22.1", "Block.client_connected decision table over the full abstract domain equals the property's table; the unwrapped address is classified")
    ctx.rule("R22.2", "handle_client: hook awaited, then client.error tested; set error => close, never server_event/handle_connection")
    ctx.rule("R22.3", "Block is a default addon and implements the method name derived from ClientConnectedHook")
    ctx.trust("ipaddress: ip_address parses zone ids (>= 3.9), is_loopback/is_private/is_global/ipv4_mapped classify correctly")
    # R22.3
    check_hook_naming(ctx)
    ctx.model.cls(HOOKF, "ClientConnectedHook")
    meth = hook_name("ClientConnectedHook")
    order = default_addon_order(ctx)
    ctx.check("Block" in order, "R22.3", ("mitmproxy/addons/__init__.py", "default_addons", 0), "block.Block() in default_addons",
              "the Block addon is not loaded by default: nothing refuses blocked clients", desc="Block() in default_addons")
    ctx.model.cls(BLOCK, "Block")
    has = ctx.model.has(BLOCK, f"Block.{meth}")
    ctx.check(has, "R22.3", (BLOCK, "Block", ctx.model.cls(BLOCK, "Block")), f"Block.{meth}",
              f"Block does not implement {meth}: the ClientConnectedHook never reaches it", desc=f"Block.{meth} <- ClientConnectedHook")
    ctx.expect_instances("R22.3", 2)
    if has:
        ctx.func(BLOCK, f"Block.{meth}")
        ctx.guard(r22_4, ctx, meth)
        if ctx.guard(r22_1, ctx, meth) is not None:
            ctx.expect_instances("R22.1", 1)
    r22_2(ctx)
    ctx.expect_instances("R22.2", 2)


_HOOK_THEN_CHECK = (
    "        await self.handle_hook(server_hooks.ClientConnectedHook(self.client))\n"
    "        if self.client.error:\n"
)

MUTANTS = [
    Mutant("unwrap-6to4", BLOCK, "address = address.ipv4_mapped or address", "address = address.ipv4_mapped or address.sixtofour or address", "R22.4"),
    Mutant("private-includes-linklocal-only", BLOCK, "ctx.options.block_private and address.is_private", "ctx.options.block_private and address.is_link_local", "R22.4"),
    Mutant("global-means-not-private", BLOCK, "ctx.options.block_global and address.is_global", "ctx.options.block_global and not address.is_private", "R22.4"),
    Mutant("loopback-not-exempt", BLOCK, "if address.is_loopback or isinstance(", "if isinstance(", "R22.1"),
    Mutant("global-option-tests-private", BLOCK, "ctx.options.block_global and address.is_global", "ctx.options.block_global and address.is_private", "R22.1"),
    Mutant("mapped-not-unwrapped", BLOCK, "            address = address.ipv4_mapped or address\n", "            pass\n", "R22.1"),
    Mutant("unwrap-without-v6-guard", BLOCK, "        if isinstance(address, ipaddress.IPv6Address):\n            address = address.ipv4_mapped or address\n",
           "        address = address.ipv4_mapped or address\n", "R22.1"),
    Mutant("classify-zone-id", BLOCK, "ipaddress.ip_address(parts[0])", "ipaddress.ip_address(parts[-1])", "R22.1"),
    Mutant("wireguard-exempt-too", BLOCK, "isinstance(client.proxy_mode, mode_specs.LocalMode)", "isinstance(client.proxy_mode, (mode_specs.LocalMode, mode_specs.WireGuardMode))", "R22.1"),
    Mutant("private-return-skips-global", BLOCK, "            client.error = \"Connection killed by block_private.\"\n",
           "            client.error = \"Connection killed by block_private.\"\n        else:\n            return\n", "R22.1"),
    Mutant("guard-disabled", SERVER, "        if self.client.error:\n            self.log(\"client kill connection\")", "        if self.client.error and False:\n            self.log(\"client kill connection\")", "R22.2"),
    Mutant("hook-not-awaited", SERVER, "        await self.handle_hook(server_hooks.ClientConnectedHook(self.client))\n",
           "        asyncio_utils.create_task(self.handle_hook(server_hooks.ClientConnectedHook(self.client)), name=\"hook\", keep_ref=False)\n", "R22.2"),
    Mutant("check-before-hook", SERVER, _HOOK_THEN_CHECK, "        if self.client.error:\n            await self.handle_hook(server_hooks.ClientConnectedHook(self.client))\n", "R22.2"),
    Mutant("refused-not-closed", SERVER, "            assert writer\n            writer.close()\n        else:\n            await self.server_event(events.Start())", "            assert writer\n        else:\n            await self.server_event(events.Start())", "R22.2"),
    Mutant("start-then-refuse", SERVER, "            self.log(\"client kill connection\")\n", "            self.log(\"client kill connection\")\n            await self.server_event(events.Start())\n", "R22.2"),
    Mutant("block-not-default", "mitmproxy/addons/__init__.py", "        block.Block(),\n", "", "R22.3"),
    Mutant("hook-method-renamed", BLOCK, "def client_connected(self, client):", "def clientconnect(self, client):", "R22.3"),
]
