"""Reference evaluator for one line of POSIX shell command language (+ the bash extensions an exported command line may meet:
``$'..'``, ``<<<`` here-strings, the ``printf`` builtin with ``\\xHH``), used by C48 to decide what an exported curl / httpie command
line *does* when a shell runs it: which commands are executed with which argument vectors, and which parts of the line the shell
treats as syntax (expansions, globs, redirections, further commands).

Written from the specification (POSIX.1-2017 XCU 2.2 Quoting, 2.3 Token Recognition, 2.6 Word Expansions, 2.7 Redirection, 2.9 Shell
Commands; printf(1) + bash(1) "printf" for the escape sequences), not from any code of the repository.  Nothing is executed: commands are
*recorded*; the only command that is evaluated is ``printf`` (a pure function of its operands), because its output becomes part of a
word of the outer command.

    run(line) -> Trace
      .commands   top-level simple commands, each ``Cmd(argv, info, herestrings)``; ``info[i]`` = set of tags of argv[i]
                  ('printf': a printf command substitution contributed to the word, 'subst': any substitution did)
      .events     everything the shell did besides running ONE simple command with literal words:
                  ('operator', op) ('redirect', op) ('expansion', text) ('glob', ch) ('tilde',) ('comment',) ('brace', ch) ('history',)
                  ('command', name) - a command other than printf run inside a substitution, ('unquoted-substitution',) ('subshell', ch) ...
      .printf     [(format, args, output)] for every evaluated printf
    ShellSyntaxError: the line is not a complete command (unterminated quote / substitution).
"""

from __future__ import annotations

import re


class ShellSyntaxError(Exception):
    pass


class Cmd:
    def __init__(self):
        self.argv: list[str] = []
        self.info: list[set] = []
        self.herestrings: list[str] = []
        self.hs_info: list[set] = []

    def __repr__(self):
        return f"Cmd({self.argv!r}, <<<{self.herestrings!r})"


class Trace:
    def __init__(self):
        self.commands: list[Cmd] = []
        self.events: list[tuple] = []
        self.printf: list[tuple] = []


PLAIN = set("abcdefghijklmnopqrstuvwxyzABCDEFGHIJKLMNOPQRSTUVWXYZ0123456789@%+=:,./-_^]")
OPERATOR_START = set(";&|<>()\n")
BLANK = set(" \t")


class _Word:
    def __init__(self):
        self.text = ""
        self.quoted = False  # some quoting occurred: an empty result is still a word
        self.tags: set = set()
        self.fields = None  # set when an unquoted substitution was split into several fields
        self.done: list[str] = []


class Sh:
    def __init__(self, line: str, trace: Trace, depth=0):
        self.s = line
        self.i = 0
        self.t = trace
        self.depth = depth
        if depth > 8:
            raise ShellSyntaxError("substitutions nested too deeply")

    # ---------------------------------------------------------------------------- command lists
    def parse_list(self, closer=None) -> list[Cmd]:
        """commands up to the end of input or up to the unquoted ``closer`` (')' of a command substitution)"""
        cmds = []
        s = self.s
        while True:
            self.skip_blanks()
            if self.i >= len(s):
                if closer:
                    raise ShellSyntaxError("unterminated command substitution")
                break
            c = s[self.i]
            if closer and c == closer:
                self.i += 1
                break
            if c == "\n" or c == ";":
                self.i += 1
                if cmds and (self.peek_nonblank() not in (None, closer)):
                    self.t.events.append(("operator", ";" if c == ";" else "newline"))
                continue
            if c == "&":
                op = "&&" if s.startswith("&&", self.i) else "&"
                self.i += len(op)
                self.t.events.append(("operator", op))
                continue
            if c == "|":
                op = "||" if s.startswith("||", self.i) else "|&" if s.startswith("|&", self.i) else "|"
                self.i += len(op)
                self.t.events.append(("operator", op))
                continue
            if c in "()":
                self.i += 1
                self.t.events.append(("subshell", c))
                continue
            cmd = self.parse_simple(closer)
            if cmd is not None:
                cmds.append(cmd)
        return cmds

    def peek_nonblank(self):
        j = self.i
        while j < len(self.s) and self.s[j] in " \t\n;":
            j += 1
        return self.s[j] if j < len(self.s) else None

    def skip_blanks(self):
        s = self.s
        while self.i < len(s):
            if s[self.i] in BLANK:
                self.i += 1
            elif s[self.i] == "\\" and s.startswith("\\\n", self.i):
                self.i += 2
            else:
                break

    def parse_simple(self, closer) -> Cmd | None:
        cmd = Cmd()
        s = self.s
        while True:
            self.skip_blanks()
            if self.i >= len(s):
                break
            c = s[self.i]
            if c in ";&|()\n" or (closer and c == closer):
                break
            # redirection (optionally preceded by an io number)
            m = re.match(r"\d*(<<<|<<-|<<|<>|<&|>>|>&|>\||<|>)", s[self.i:])
            if m:
                op = m.group(1)
                self.i += m.end()
                self.skip_blanks()
                if op in ("<<", "<<-"):
                    raise ShellSyntaxError("here-document in a one-line command")
                w = self.parse_word(closer)
                if w is None:
                    raise ShellSyntaxError(f"redirection {op} without a target")
                if op == "<<<":
                    cmd.herestrings.append(w.text if w.fields is None else " ".join(w.fields))
                    cmd.hs_info.append(set(w.tags))
                else:
                    self.t.events.append(("redirect", op))
                continue
            if c == "#":
                self.t.events.append(("comment",))
                while self.i < len(s) and s[self.i] != "\n":
                    self.i += 1
                break
            w = self.parse_word(closer)
            if w is None:
                break
            if w.fields is not None:
                for f in w.fields:
                    cmd.argv.append(f)
                    cmd.info.append(set(w.tags))
            elif w.text != "" or w.quoted:
                cmd.argv.append(w.text)
                cmd.info.append(set(w.tags))
        if not cmd.argv and not cmd.herestrings:
            return None
        return cmd

    # ---------------------------------------------------------------------------- words
    def parse_word(self, closer) -> _Word | None:
        s = self.s
        w = _Word()
        start = self.i
        while self.i < len(s):
            c = s[self.i]
            if c in BLANK or c in OPERATOR_START or (closer and c == closer):
                break
            if c == "\\":
                if self.i + 1 >= len(s):
                    w.text += "\\"
                    self.i += 1
                elif s[self.i + 1] == "\n":
                    self.i += 2
                else:
                    w.text += s[self.i + 1]
                    w.quoted = True
                    self.i += 2
            elif c == "'":
                j = s.find("'", self.i + 1)
                if j < 0:
                    raise ShellSyntaxError("unterminated single quote")
                w.text += s[self.i + 1:j]
                w.quoted = True
                self.i = j + 1
            elif c == '"':
                self.i += 1
                self.double_quoted(w)
            elif c == "$" and s.startswith("$'", self.i):
                self.i += 2
                self.ansi_c(w)
            elif c == "$" and s.startswith('$"', self.i):
                self.i += 2
                self.double_quoted(w)
            elif c == "$" or c == "`":
                out = self.dollar_or_backtick(w)
                if out is not None:  # unquoted substitution: field splitting
                    self.t.events.append(("unquoted-substitution",))
                    fields = out.split()
                    if fields:
                        w.text += fields[0]
                        for f in fields[1:]:
                            w.done.append(w.text)
                            w.text = f
            else:
                if c in "*?[":
                    self.t.events.append(("glob", c))
                elif c == "~" and self.i == start:
                    self.t.events.append(("tilde",))
                elif c in "{}":
                    self.t.events.append(("brace", c))
                elif c == "!":
                    self.t.events.append(("history",))
                w.text += c
                self.i += 1
        if self.i == start:
            return None
        if w.done:
            w.fields = w.done + [w.text]
        return w

    def double_quoted(self, w: _Word):
        s = self.s
        w.quoted = True
        while True:
            if self.i >= len(s):
                raise ShellSyntaxError("unterminated double quote")
            c = s[self.i]
            if c == '"':
                self.i += 1
                return
            if c == "\\":
                n = s[self.i + 1] if self.i + 1 < len(s) else ""
                if n in '$`"\\':
                    w.text += n
                    self.i += 2
                elif n == "\n":
                    self.i += 2
                else:
                    w.text += "\\"
                    self.i += 1
            elif c == "$" or c == "`":
                out = self.dollar_or_backtick(w, quoted=True)
                if out is not None:
                    w.text += out
            else:
                w.text += c
                self.i += 1

    def ansi_c(self, w: _Word):
        s = self.s
        w.quoted = True
        out = ""
        while True:
            if self.i >= len(s):
                raise ShellSyntaxError("unterminated $' quote")
            c = s[self.i]
            if c == "'":
                self.i += 1
                break
            if c == "\\" and self.i + 1 < len(s):
                txt, n = _backslash(s, self.i, mode="ansi")
                out += txt
                self.i += n
            else:
                out += c
                self.i += 1
        w.text += out

    def dollar_or_backtick(self, w: _Word, quoted=False):
        """at ``$`` or a backtick.  Returns the substituted text (None when the character was literal and has been added to ``w``)."""
        s = self.s
        if s[self.i] == "`":
            j = self.i + 1
            body = ""
            while True:
                if j >= len(s):
                    raise ShellSyntaxError("unterminated backquote")
                if s[j] == "\\" and j + 1 < len(s) and s[j + 1] in "$`\\":
                    body += s[j + 1]
                    j += 2
                elif s[j] == "`":
                    break
                else:
                    body += s[j]
                    j += 1
            self.i = j + 1
            return self.substitute(body, w, whole=True)
        # '$'
        if s.startswith("$((", self.i):
            self.t.events.append(("expansion", "$((arithmetic))"))
            depth, j = 0, self.i + 1
            while j < len(s):
                if s[j] == "(":
                    depth += 1
                elif s[j] == ")":
                    depth -= 1
                    if depth == 0:
                        break
                j += 1
            if j >= len(s):
                raise ShellSyntaxError("unterminated arithmetic expansion")
            self.i = j + 1
            w.tags.add("subst")
            return "0"
        if s.startswith("$(", self.i):
            self.i += 2
            sub = Sh(s, self.t, self.depth + 1)
            sub.i = self.i
            cmds = sub.parse_list(closer=")")
            self.i = sub.i
            return self.run_substitution(cmds, w)
        m = re.match(r"\$(\{[^}]*\}|[A-Za-z_][A-Za-z0-9_]*|[0-9@*#?$!-])", s[self.i:])
        if m:
            self.t.events.append(("expansion", m.group(0)))
            self.i += m.end()
            w.tags.add("subst")
            return ""
        w.text += "$"
        self.i += 1
        return None

    def substitute(self, body: str, w: _Word, whole=False):
        sub = Sh(body, self.t, self.depth + 1)
        cmds = sub.parse_list()
        return self.run_substitution(cmds, w)

    def run_substitution(self, cmds, w: _Word) -> str:
        out = ""
        w.tags.add("subst")
        for c in cmds:
            if c.argv and c.argv[0] == "printf":
                args = c.argv[1:]
                if args and args[0] == "-v":
                    self.t.events.append(("command", "printf -v"))
                    continue
                if args and args[0] == "--":
                    args = args[1:]
                elif args and args[0].startswith("-") and len(args[0]) > 1:
                    # bash parses a leading operand that starts with '-' as an option: "invalid option", usage error, no output
                    self.t.printf.append((args[0], args[1:], None))
                    w.tags.add("printf")
                    continue
                if not args:
                    self.t.events.append(("command", "printf (usage error)"))
                    continue
                res = printf(args[0], args[1:])
                self.t.printf.append((args[0], args[1:], res))
                w.tags.add("printf")
                out += res
            else:
                self.t.events.append(("command", c.argv[0] if c.argv else "<redirection only>"))
        return out.rstrip("\n")  # XCU 2.6.3: trailing <newline>s of the output are removed


# ------------------------------------------------------------------------------------------------
# backslash escapes (bash: printf format / %b operand / $'..')

_SIMPLE = {"a": "\a", "b": "\b", "f": "\f", "n": "\n", "r": "\r", "t": "\t", "v": "\v", "\\": "\\", "e": "\x1b", "E": "\x1b"}


def _backslash(s, i, mode):
    """decode the escape starting at s[i] == '\\\\'.  -> (text, characters consumed); text None = '\\c' (stop output)"""
    n = s[i + 1] if i + 1 < len(s) else ""
    if n == "":
        return "\\", 1
    if n in _SIMPLE:
        return _SIMPLE[n], 2
    if n in "\"'" and mode in ("format", "ansi"):
        return n, 2
    if n == "?" and mode in ("format", "ansi"):
        return "?", 2
    if n == "x":
        m = re.match(r"[0-9a-fA-F]{1,2}", s[i + 2:])
        if m:
            return chr(int(m.group(), 16)), 2 + m.end()
        return "\\x", 2
    if n in "uU":
        m = re.match(r"[0-9a-fA-F]{1,%d}" % (4 if n == "u" else 8), s[i + 2:])
        if m:
            try:
                return chr(int(m.group(), 16)), 2 + m.end()
            except (ValueError, OverflowError):
                return "\ufffd", 2 + m.end()
        return "\\" + n, 2
    if n in "01234567":
        if mode == "b" and n == "0":
            m = re.match(r"0[0-7]{0,3}", s[i + 1:])
        else:
            m = re.match(r"[0-7]{1,3}", s[i + 1:])
        return chr(int(m.group(), 8) & 0xFF), 1 + m.end()
    if n == "c" and mode == "b":
        return None, 2
    return "\\", 1  # not an escape: the backslash is literal and the next character is processed normally (it may start a conversion)


class _Stop(Exception):
    pass


def _expand_b(arg: str) -> str:
    out, i = "", 0
    while i < len(arg):
        if arg[i] == "\\":
            txt, n = _backslash(arg, i, "b")
            if txt is None:
                raise _StopWith(out)
            out += txt
            i += n
        else:
            out += arg[i]
            i += 1
    return out


class _StopWith(Exception):
    def __init__(self, text):
        self.text = text


_CONV = re.compile(r"%([-+ #0']*)(\*|\d+)?(?:\.(\*|\d*))?([hlLjzt]*)(.)?", re.S)


def printf(fmt: str, args) -> str:
    """output of ``printf FORMAT ARGS...`` (bash builtin semantics; the format is reused while operands remain)"""
    args = list(args)
    out = ""
    first = True
    try:
        while first or args:
            first = False
            consumed = False
            i = 0
            while i < len(fmt):
                c = fmt[i]
                if c == "\\":
                    txt, n = _backslash(fmt, i, "format")
                    if txt is None:
                        raise _Stop()
                    out += txt
                    i += n
                elif c == "%":
                    if fmt.startswith("%%", i):
                        out += "%"
                        i += 2
                        continue
                    m = _CONV.match(fmt, i)
                    flags, width, prec, _len, conv = m.group(1), m.group(2), m.group(3), m.group(4), m.group(5)
                    if conv is None:
                        raise _Stop()  # `%': missing format character
                    i = m.end()

                    def take():
                        nonlocal consumed
                        if args:
                            consumed = True
                            return args.pop(0)
                        return None

                    if width == "*":
                        width = _int(take())
                        if width < 0:
                            flags, width = flags + "-", -width
                    if prec == "*":
                        prec = _int(take())
                    spec = "%" + flags.replace("'", "") + (str(width) if width not in (None, "") else "") + ("." + str(prec) if prec is not None else "")
                    if conv in "sbq":
                        a = take() or ""
                        if conv == "b":
                            try:
                                a = _expand_b(a)
                            except _StopWith as st:
                                out += _fmt(spec + "s", st.text)
                                raise _Stop()
                        elif conv == "q":
                            a = "'" + a.replace("'", "'\\''") + "'" if a == "" or re.search(r"[^A-Za-z0-9_@%+=:,./-]", a) else a
                        out += _fmt(spec.replace("0", "") + "s" if "0" in flags else spec + "s", a)
                    elif conv == "c":
                        a = take() or ""
                        out += _fmt((spec.split(".")[0]) + "s", a[:1])
                    elif conv in "diu":
                        out += _fmt(spec + "d", _int(take()))
                    elif conv in "oxX":
                        out += _fmt(spec + conv, _int(take()))
                    elif conv in "eEfFgGaA":
                        out += _fmt(spec + (conv if conv not in "aA" else "e"), _float(take()))
                    elif conv == "n":
                        take()
                    elif conv == "(":
                        j = fmt.find(")T", i)
                        if j < 0:
                            raise _Stop()
                        i = j + 2
                        take()
                        out += "<date>"
                    else:
                        raise _Stop()  # invalid format character: bash prints a diagnostic and stops
                else:
                    out += c
                    i += 1
            if not consumed:
                break
    except _Stop:
        pass
    return out


def _fmt(spec, value):
    try:
        return spec % value
    except (ValueError, TypeError, OverflowError):
        return str(value)


def _int(a):
    if a is None or a == "":
        return 0
    try:
        if a[:1] in "\"'" and len(a) > 1:
            return ord(a[1])
        return int(a, 0)
    except ValueError:
        m = re.match(r"[-+]?\d+", a)
        return int(m.group()) if m else 0


def _float(a):
    if a is None or a == "":
        return 0.0
    try:
        return float(a)
    except ValueError:
        return 0.0


def run(line: str) -> Trace:
    t = Trace()
    sh = Sh(line, t)
    t.commands = sh.parse_list()
    return t


# ------------------------------------------------------------------------------------------------
# self-test of the reference (run by the rules that use it: a wrong reference must not decide anything)

SELFTEST = [
    # (line, [argv...] per command, herestrings of the first command, kinds of events)
    ("curl -H 'a: b' http://x/", [["curl", "-H", "a: b", "http://x/"]], [], []),
    ("curl 'it'\"'\"'s'", [["curl", "it's"]], [], []),
    ("curl ''", [["curl", ""]], [], []),
    ("curl a\\ b \"c d\" 'e f'", [["curl", "a b", "c d", "e f"]], [], []),
    ("curl \"$(printf 'a\\x01b')\"", [["curl", "a\x01b"]], [], []),
    ("curl \"$(printf 'a\\x0ab\\x0a')\"", [["curl", "a\nb"]], [], []),
    ("curl \"$(printf '100%%\\\\n')\"", [["curl", "100%\\n"]], [], []),
    ("curl \"$(printf '100%s|%d|\\n.')\"", [["curl", "100|0|\n."]], [], []),
    ("curl \"$(printf %s 'a%sb\\n')\"", [["curl", "a%sb\\n"]], [], []),
    ("curl \"$(printf '%s,' a b)\"", [["curl", "a,b,"]], [], []),
    ("curl \"$(printf 'x\\101\\q')\"", [["curl", "xA\\q"]], [], []),
    ("curl \"$(printf 'a\\%s\\cb' X)\"", [["curl", "a\\X\\cb"]], [], []),
    ("curl \"$(printf '-a\\x01')\"", [["curl", ""]], [], []),
    ("curl \"$(printf -- '-a\\x01')\"", [["curl", "-a\x01"]], [], []),
    ("curl \"a $(touch /tmp/x) b\"", [["curl", "a  b"]], [], ["command"]),
    ("curl \"`id`\"", [["curl", ""]], [], ["command"]),
    ("curl \"$HOME\" ${x}", [["curl", ""]], [], ["expansion", "expansion", "unquoted-substitution"]),
    ("curl \"\\$HOME \\` \\\" \\\\ \\a\"", [["curl", "$HOME ` \" \\ \\a"]], [], []),
    ("curl a; reboot", [["curl", "a"], ["reboot"]], [], ["operator"]),
    ("curl a | sh", [["curl", "a"], ["sh"]], [], ["operator"]),
    ("curl a && b", [["curl", "a"], ["b"]], [], ["operator"]),
    ("curl a > /etc/passwd", [["curl", "a"]], [], ["redirect"]),
    ("curl *.txt ~ {a,b}", [["curl", "*.txt", "~", "{a,b}"]], [], ["glob", "tilde", "brace", "brace"]),
    ("curl a #b", [["curl", "a"]], [], ["comment"]),
    ("curl a#b", [["curl", "a#b"]], [], []),
    ("http POST http://x/ <<< 'a b'", [["http", "POST", "http://x/"]], ["a b"], []),
    ("http x <<< \"$(printf 'a\\x01')\"", [["http", "x"]], ["a\x01"], []),
    ("curl $'a\\nb\\x41'", [["curl", "a\nbA"]], [], []),
    ("curl $(printf 'a b')", [["curl", "a", "b"]], [], ["unquoted-substitution"]),
    ("curl 'a\nb'", [["curl", "a\nb"]], [], []),
    ("curl a\nreboot", [["curl", "a"], ["reboot"]], [], ["operator"]),
]
SELFTEST_ERRORS = ["curl 'abc", 'curl "abc', "curl \"$(printf 'a\"", "curl `id"]


def selftest() -> list[str]:
    """-> problems (empty when the reference behaves as the specification examples above say)"""
    bad = []
    for line, argvs, hs, kinds in SELFTEST:
        try:
            t = run(line)
        except ShellSyntaxError as e:
            bad.append(f"{line!r}: unexpected syntax error {e}")
            continue
        got = [c.argv for c in t.commands]
        if got != argvs:
            bad.append(f"{line!r}: argv {got!r}, expected {argvs!r}")
        if (t.commands[0].herestrings if t.commands else []) != hs:
            bad.append(f"{line!r}: here-strings {t.commands[0].herestrings!r}, expected {hs!r}")
        if [e[0] for e in t.events] != kinds:
            bad.append(f"{line!r}: events {t.events!r}, expected kinds {kinds!r}")
    for line in SELFTEST_ERRORS:
        try:
            run(line)
            bad.append(f"{line!r}: accepted, expected a syntax error")
        except ShellSyntaxError:
            pass
    return bad
