"""C29 - raw TCP / UDP relaying is exact and each flow ends once.

Technique: typestate exploration (layerx) of the model extracted on every run from the source of `TCPLayer` and
`UDPLayer`.  The layer's three state functions are abstractly executed for every event the environment automaton
can deliver in every reachable abstract state (handler x flow? x client socket state x server socket state x
which ConnectionClosed events were already delivered).  Values are symbolic: connections are references
(`self.context.client|server`), payloads are provenance terms (`wire` / `injected` data, `content(msg(...))`),
socket states are the integers of `ConnectionState` read from mitmproxy/connection.py.

Decided (on the extracted model, both with a flow and in `ignore` mode, server connected or not at Start):
  R29.1  at most one of End/Error hook per flow; once it fired (or the layer is `done`) nothing is relayed, no
         hook fires and no command is issued; a layer that reached `done` / whose peers are both gone has fired
         exactly one of them; no event the environment can deliver trips an assertion.
  R29.2  relay identity: a DataReceived / injected message from side X produces exactly
         [messages.append(m), MessageHook, SendData(opposite(X), m.content)] with m = Message(from_client == (X is client), data)
         (with a flow) resp. [SendData(opposite(X), data)] (ignore mode): recorded == sent, read after the hook.
  R29.3  TCP half-close table: on ConnectionClosed(X) while the other peer can still send, exactly
         CloseTcpConnection(opposite(X), half_close=True) and the layer keeps relaying; when neither peer can be read
         any more the layer finishes and leaves both sockets CLOSED.  UDP: a close ends the flow and closes the other side.
The extraction is value-based (see RelaySpec): aliases, temporaries, module constants, conditional expressions, `match`, early returns,
helper methods / module functions, `any()/all()` and loops over known sequences, Flag containment (`CAN_READ in state`) evaluate to the
same abstract values; the state functions are found by role (whatever is stored in `_handle_event`), the terminal one by behaviour
(swallows every event in every configuration).  A branch the model cannot decide is explored both ways and marked: a finding on such a
path ends the run as ANALYSIS-ERROR (exit 2), never as a violation.  The environment may close the other peer's read side before a
ConnectionClosed reaches the layer (events queued while the layer is paused on a hook).
NOT decided: byte-level behaviour of the asyncio transports (server.py is the environment automaton, stated as an
assumption), what an addon does inside a hook (any edit of `message.content` is covered because the send reads it
after the hook), kill() of a flow (C11).
"""

from __future__ import annotations

import ast
from collections import deque

from ..core import AnalysisError
from ..core import norm
from ..layerx import EV
from ..layerx import is_ev
from ..layerx import LayerSpec
from ..layerx import Monitor
from ..model import attr_chain
from ..model import eval_order
from ..model import last_attr
from ..paths import C
from ..paths import Engine
from ..paths import is_const
from ..paths import Out
from ..paths import R
from ..paths import Spec
from ..paths import State
from ..paths import UNKNOWN
from ..selftest import Mutant

PROP = "C29"
REG = {
    "strength": "strong",
    "technique": "typestate exploration of the models extracted from TCPLayer / UDPLayer (symbolic payload provenance, "
    "socket-state environment automaton)",
    "claim": "every reachable transition of the extracted TCPLayer and UDPLayer models (flow / ignore mode, every order of data, "
    "injections, half-closes, closes and connect failure) relays exactly the recorded message content to the opposite peer after the "
    "message hook, propagates a half-close as a half-close while the other direction stays open, fires exactly one end/error hook "
    "per flow and relays nothing afterwards.",
    "note": "Environment automaton = ConnectionHandler in proxy/server.py (one ConnectionClosed per connection, CAN_READ cleared "
    "before delivery for TCP, CLOSED for UDP; CloseConnection => CLOSED; half_close => CAN_WRITE cleared). Addon edits are symbolic "
    "(content is read after the hook).",
}

TCP = "mitmproxy/proxy/layers/tcp.py"
UDP = "mitmproxy/proxy/layers/udp.py"
EVENTS = "mitmproxy/proxy/events.py"
CONN = "mitmproxy/connection.py"
SERVER = "mitmproxy/proxy/server.py"

SIDES = {"self.context.client": "client", "self.context.server": "server"}
OTHER = {"client": "server", "server": "client"}


def connection_state_values(model) -> dict:
    """ConnectionState members -> int, evaluated from the class body (ints, names, |)."""
    cls = model.cls(CONN, "ConnectionState")
    vals: dict[str, int] = {}

    def ev(e):
        if isinstance(e, ast.Constant) and isinstance(e.value, int):
            return e.value
        if isinstance(e, ast.Name) and e.id in vals:
            return vals[e.id]
        if isinstance(e, ast.BinOp) and isinstance(e.op, ast.BitOr):
            return ev(e.left) | ev(e.right)
        raise AnalysisError(f"ConnectionState member not evaluable: {norm(e)}")

    for st in cls.body:
        if isinstance(st, ast.Assign) and len(st.targets) == 1 and isinstance(st.targets[0], ast.Name):
            vals[st.targets[0].id] = ev(st.value)
    for need in ("CLOSED", "CAN_READ", "CAN_WRITE", "OPEN"):
        if need not in vals:
            raise AnalysisError(f"ConnectionState.{need} vanished")
    if not (vals["CLOSED"] == 0 and vals["CAN_READ"] and vals["CAN_WRITE"] and vals["CAN_READ"] & vals["CAN_WRITE"] == 0
            and vals["OPEN"] == vals["CAN_READ"] | vals["CAN_WRITE"]):
        raise AnalysisError(f"ConnectionState is not the two-bit flag set the model assumes: {vals}")
    return vals


def dataclass_fields(model, rel: str, name: str) -> list[str]:
    """Positional field order of an event dataclass (annotated names along the MRO, bases first)."""
    out: list[str] = []
    for m, c in reversed(model.mro(rel, name)):
        for st in c.body:
            if isinstance(st, ast.AnnAssign) and isinstance(st.target, ast.Name) and st.target.id not in out:
                out.append(st.target.id)
    return out


class RelayEngine(Engine):
    """Path engine with exact iteration of `for x in (a, b, ...)` over a literal tuple / list (the core engine treats every for-loop as
    zero-or-more iterations over unknown values, which is too coarse for a deterministic model); also of every iterable that evaluates
    to a sequence of known abstract values (`for c in self._peers():`)."""

    def _loop(self, node, states, depth, is_for):
        sp = self.spec
        if not (is_for and isinstance(node, ast.For)):
            return Engine._loop(self, node, states, depth, is_for)
        out = Out.empty()
        rest = set()
        for s0 in states:
            seq = sp.value(node.iter, s0, depth)
            if not (isinstance(seq, tuple) and seq and seq[0] == "seq"):
                rest.add(s0)
                continue
            cur = {s0.emit(*sp.events(node.iter, s0))}
            broke = set()
            for v in seq[1]:
                if not cur:
                    break
                cur = {sp.bind(node.target, None, s, depth, value=v) for s in cur}
                o = self.block(node.body, cur, depth)
                out.ret |= o.ret
                out.exc |= o.exc
                broke |= o.brk
                cur = o.normal | o.cont
                self._guard(cur)
            if node.orelse:
                oe = self.block(node.orelse, cur, depth)
                out.merge_abrupt(oe)
                cur = oe.normal
            out.normal |= cur | broke
        if rest:
            o = Engine._loop(self, node, rest, depth, is_for)
            out.merge_abrupt(o)
            out.normal |= o.normal
        return out

    def _plain_cond(self, expr, s, depth, T, F):
        # assignment expressions nested in a condition (`if (f := self.flow) is not None:`) bind their target like a statement would
        for n in eval_order(expr):
            if isinstance(n, ast.NamedExpr) and n is not expr:
                s = self.spec.bind(n.target, n.value, s, depth)
        Engine._plain_cond(self, expr, s, depth, T, F)


def explore_relay(spec, entry_fn, init_env: dict, monitor, max_states: int = 20000):
    """layerx.explore with RelayEngine (same breadth-first fix-point over (env, monitor value))."""
    eng = RelayEngine(spec)
    start = (tuple(sorted(init_env.items())), monitor.init)
    seen = {start: None}
    q = deque([start])
    transitions = 0
    violations = []
    samples = []

    def history(node):
        h = []
        while node is not None and seen.get(node) is not None:
            parent, ev, tr = seen[node]
            h.append((ev[1], list(tr)))
            node = parent
        h.reverse()
        return h

    while q:
        node = q.popleft()
        env, mon = node
        for ev in monitor.offers(dict(env), mon):
            finals = eng.finals(entry_fn, State((), dict(env)).set("0:event", ev))
            for fs in finals:
                transitions += 1
                fenv = {k: v for k, v in fs.env if not (k[:1].isdigit() and ":" in k) and not k.startswith("$")}
                exc = fs.get("$exc")
                msgs = []
                mon2 = monitor.step(mon, ev, fs.trace, fenv, msgs.append, exc[1] if is_const(exc) else None)
                for m in msgs:
                    violations.append({"message": m, "history": history(node) + [(ev[1], list(fs.trace))]})
                if mon2 is None:
                    continue
                nxt = (tuple(sorted(fenv.items())), mon2)
                if nxt not in seen:
                    seen[nxt] = (node, ev, fs.trace)
                    q.append(nxt)
                    if len(samples) < 8 and fs.trace:
                        samples.append({"event": ev[1], "trace": [list(map(str, e)) if isinstance(e, tuple) else e for e in fs.trace]})
                    if len(seen) > max_states:
                        raise AnalysisError(f"layer exploration exceeded {max_states} abstract states")
    return {"states": len(seen), "transitions": transitions, "violations": violations, "samples": samples, "pruned": eng.pruned,
            "forks": eng.forks, "truncated": eng.truncated, "inlined": sorted(eng.inlined)}


def ctor_params(model, rel: str, func_expr) -> list[str] | None:
    """Parameter names (without self) of the constructor of the class ``func_expr`` denotes in module ``rel``: the first ``__init__`` along
    the MRO, else the dataclass-style annotated fields (bases first). None if the class cannot be resolved."""
    r = model.resolve_name(model.module(rel), func_expr) if isinstance(func_expr, (ast.Name, ast.Attribute)) else None
    if r is None or not isinstance(r[1], ast.ClassDef):
        return None
    m, c = r
    qual = getattr(c, "_qual", c.name)
    init = model.method(m.rel, qual, "__init__")
    if init is not None:
        a = init[1].args
        return [p.arg for p in a.posonlyargs + a.args][1:] + [p.arg for p in a.kwonlyargs]
    return dataclass_fields(model, m.rel, qual)


FLOW = ("obj", "flow")


class RelaySpec(LayerSpec):
    """Model extraction for TCPLayer / UDPLayer.

    Everything is decided on *values*, never on the spelling of the source: locals, aliases (`client = self.context.client`), temporaries
    (`hook = TcpMessageHook(self.flow)`), module constants (`_READABLE = ConnectionState.CAN_READ`), conditional expressions, helper
    methods / module functions (inlined by abstract execution, also inside expressions when they are pure) all evaluate to the same
    abstract values, and a command is recognised by the class of the value that reaches the `yield`.
      C(x) constant | R('self.a.b') reference | ('ev', Kind, attrs) event | ('injmsg', from_client) message of an injected event
      ('msg', from_client, data) message built by the layer | ('content', msg) its content read back | ('data', 'wire'|'injected')
      ('obj', 'flow'[.attr]) the flow (self.flow is C(None) in ignore mode) | ('new', Class, ((param, value), ...)) command / hook object
      ('cls', 'ConnectionState') the enum class
    """

    tracked = ("self._handle_event", "self.flow", "conn.client", "conn.server")
    dispatch_attrs = ("self._handle_event",)
    max_depth = 5
    record_conds = True  # only to mark branches the model could not decide, see cond_event

    def cond_event(self, expr, value, st):
        """a branch the model cannot decide is explored both ways and marked: a finding on such a path is an ANALYSIS-ERROR, not a violation"""
        if self.truth(expr, st, self.depth_of(st, expr)) is None:
            self.nondet_seen.add(norm(expr)[:100])
            return ("nondet", norm(expr)[:100])
        return None

    def loop_event(self, node, entered, st):
        text = f"loop {norm(node.iter if isinstance(node, (ast.For, ast.AsyncFor)) else node.test)[:90]}"
        self.nondet_seen.add(text)
        return ("nondet", text)

    def __init__(self, model, rel, cls, proto, msg_class, injected_class):
        super().__init__(model, rel, cls)
        self.proto = proto
        self.msg_class = msg_class  # 'TCPMessage'
        self.injected_class = injected_class
        self.cs = connection_state_values(model)
        self.data_fields = dataclass_fields(model, EVENTS, "DataReceived")
        if self.data_fields != ["connection", "data"]:
            raise AnalysisError(f"events.DataReceived fields changed: {self.data_fields}")
        self.handlers = discover_handlers(model, rel, cls)
        self._params: dict = {}
        self._modconst_busy: set = set()
        self.nondet_seen: set = set()
        # every attribute the layer itself assigns is part of the abstract state (`self.ignore = ignore` decides later branches)
        own = []
        for f in class_functions(model.cls(rel, cls)):
            for n in ast.walk(f):
                for t in (n.targets if isinstance(n, ast.Assign) else [n.target] if isinstance(n, (ast.AnnAssign, ast.AugAssign)) else []):
                    if isinstance(t, ast.Attribute) and isinstance(t.value, ast.Name) and t.value.id == "self" and f"self.{t.attr}" not in own:
                        own.append(f"self.{t.attr}")
        self.tracked = tuple(self.tracked) + tuple(a for a in own if a not in self.tracked)

    def initial_env(self, ignore: bool) -> dict:
        """the layer's own attributes after `__init__(context, ignore=<ignore>)`, by abstract execution of the constructor"""
        r = self.model.method(self.rel, self.cls, "__init__")
        if r is None or r[0].rel != self.rel:
            raise AnalysisError(f"{self.rel}::{self.cls} has no constructor of its own")
        init = r[1]
        params = [a.arg for a in init.args.posonlyargs + init.args.args + init.args.kwonlyargs][1:]
        if "ignore" not in params:
            raise AnalysisError(f"{self.rel}::{self.cls}.__init__ has no `ignore` parameter any more: {params}")
        bindings = {}
        allp = [a.arg for a in init.args.posonlyargs + init.args.args]
        for a, d in list(zip(allp[len(allp) - len(init.args.defaults):], init.args.defaults)) + [(a.arg, d) for a, d in zip(init.args.kwonlyargs, init.args.kw_defaults) if d is not None]:
            bindings[a] = self.value(d, State((), ()), 0)
        bindings["ignore"] = C(ignore)
        bindings[params[0]] = R("self.context")
        finals = RelayEngine(self).run(init, State((), ()), bindings)
        envs = set()
        for fs in finals.ret:
            env = {k: v for k, v in fs.env if k.startswith("self.")}
            flow = env.get("self.flow", UNKNOWN)
            if isinstance(flow, tuple) and flow and flow[0] == "new" and flow[1].endswith("Flow"):
                env["self.flow"] = FLOW
            elif flow != C(None):
                raise AnalysisError(f"{self.rel}::{self.cls}.__init__(ignore={ignore}) leaves self.flow = {flow} (neither None nor a new flow)")
            envs.add(tuple(sorted(env.items())))
        if len(envs) != 1 or finals.exc:
            raise AnalysisError(f"{self.rel}::{self.cls}.__init__(ignore={ignore}) is not deterministic in the relay model: {len(envs)} final states")
        return dict(next(iter(envs)))

    def extra_modules(self):
        return [self.model.module(EVENTS)]

    def refs_are_distinct(self, a, b):
        return (a in SIDES and b in SIDES) or (a.startswith("self.") and b.startswith("self.") and a[5:] in self.handlers and b[5:] in self.handlers)

    # ---- values
    def top_event(self, st):
        return st.get("0:event")

    def params_of(self, func_expr):
        key = norm(func_expr)
        if key not in self._params:
            self._params[key] = ctor_params(self.model, self.rel, func_expr)
        return self._params[key]

    def bind_ctor(self, expr: ast.Call, name, st, depth):
        """((param, value), ...) of a constructor call: positional and keyword arguments bound to the constructor's parameter names"""
        params = self.params_of(expr.func)
        out = []
        for i, a in enumerate(expr.args):
            if isinstance(a, ast.Starred):
                raise AnalysisError(f"{self.rel}: starred arguments in {norm(expr)} are not modelled")
            key = params[i] if params is not None and i < len(params) else f"#{i}"
            out.append((key, self.value(a, st, depth)))
        for k in expr.keywords:
            if k.arg is None:
                raise AnalysisError(f"{self.rel}: **kwargs in {norm(expr)} are not modelled")
            out.append((k.arg, self.value(k.value, st, depth)))
        return tuple(out)

    def static_class(self, expr):
        """name of the repository class a Name / dotted expression denotes (through the module's imports), else None"""
        if not isinstance(expr, (ast.Name, ast.Attribute)):
            return None
        r = self.model.resolve_name(self.model.module(self.rel), expr)
        if r is not None and isinstance(r[1], ast.ClassDef):
            return r[1].name
        return None

    def attr_of(self, bv, attr, st):
        """attribute ``attr`` of the abstract value ``bv``"""
        if not isinstance(bv, tuple) or not bv:
            return UNKNOWN
        tag = bv[0]
        if tag == "r":
            ch = f"{bv[1]}.{attr}"
            if ch in ("self.context.client.state", "self.context.server.state"):
                return st.get("conn." + ch.split(".")[2])
            if st.has(ch):
                return st.get(ch)
            return R(ch)
        if tag == "cls" and bv[1] == "ConnectionState":
            if attr not in self.cs:
                raise AnalysisError(f"unknown ConnectionState member {attr}")
            return C(self.cs[attr])
        if tag == "ev":
            d = dict(bv[2])
            if attr == "connection" and "connection" in d:
                return R("self.context." + d["connection"])
            if attr == "data" and "data" in d:
                return d["data"]
            if attr == "message" and self.ev_isa(bv[1], "MessageInjected") and "from_client" in d:
                return ("injmsg", d["from_client"])
            return UNKNOWN
        if tag == "injmsg":
            if attr == "from_client":
                return C(bv[1])
            if attr == "content":
                return ("data", "injected")
            return UNKNOWN
        if tag == "msg":
            if attr == "content":
                return ("content", bv)
            if attr == "from_client":
                return bv[1]
            return UNKNOWN
        if tag == "obj":
            return ("obj", f"{bv[1]}.{attr}")
        if tag == "new":
            d = dict(bv[2])
            return d.get(attr, UNKNOWN)
        return UNKNOWN

    def module_constant(self, name, st):
        """value of a module-level constant of the layer's module (single assignment), e.g. `_READABLE = ConnectionState.CAN_READ`"""
        vals = self.model.module(self.rel).assigns(name)
        if len(vals) != 1 or name in self._modconst_busy:
            return UNKNOWN
        self._modconst_busy.add(name)
        try:
            return self.value(vals[0], State((), ()), 0)
        finally:
            self._modconst_busy.discard(name)

    def value(self, expr, st, depth):
        if isinstance(expr, ast.Name):
            if expr.id == "self" and not st.has(f"{depth}:self"):
                return R("self")
            if st.has(f"{depth}:{expr.id}"):
                return st.get(f"{depth}:{expr.id}")
            c = self.static_class(expr)
            if c is not None:
                return ("cls", c)
            return self.module_constant(expr.id, st)
        if isinstance(expr, ast.Attribute):
            bv = self.value(expr.value, st, depth)
            if bv == UNKNOWN:
                c = self.static_class(expr)
                if c is not None:
                    return ("cls", c)
                c = self.static_class(expr.value)
                if c is not None:
                    bv = ("cls", c)
            return self.attr_of(bv, expr.attr, st)
        if isinstance(expr, ast.BinOp) and isinstance(expr.op, (ast.BitAnd, ast.BitOr)):
            a, b = self.value(expr.left, st, depth), self.value(expr.right, st, depth)
            if is_const(a) and is_const(b) and isinstance(a[1], int) and isinstance(b[1], int):
                return C(a[1] & b[1] if isinstance(expr.op, ast.BitAnd) else a[1] | b[1])
            return UNKNOWN
        if isinstance(expr, ast.IfExp):
            t = self.truth(expr.test, st, depth)
            if t is None:
                return UNKNOWN
            return self.value(expr.body if t else expr.orelse, st, depth)
        if isinstance(expr, ast.NamedExpr):
            return self.value(expr.value, st, depth)
        if isinstance(expr, ast.BoolOp):
            # `a or b` / `a and b` yield one of their operands (`peer = peer or self.context.client`)
            v = UNKNOWN
            for i, e in enumerate(expr.values):
                v = self.value(e, st, depth)
                if i == len(expr.values) - 1:
                    return v
                t = self.truth_of_value(v)
                if t is None:
                    t = self.truth(e, st, depth)
                if t is None:
                    return UNKNOWN
                if t is isinstance(expr.op, ast.Or):
                    return v
            return v
        if isinstance(expr, ast.Yield):
            cmd = self.value(expr.value, st, depth) if expr.value is not None else UNKNOWN
            if isinstance(cmd, tuple) and cmd and cmd[0] == "new" and cmd[1] == "OpenConnection":
                ev = self.top_event(st)
                if is_ev(ev):
                    d = dict(ev[2])
                    if "open_err" in d:
                        return C("connect failed") if d["open_err"] else C(None)
            return UNKNOWN
        if isinstance(expr, (ast.Tuple, ast.List)) and not any(isinstance(e, ast.Starred) for e in expr.elts):
            return ("seq", tuple(self.value(e, st, depth) for e in expr.elts))
        if isinstance(expr, (ast.Tuple, ast.List)):
            # `[first, *others]`: a starred element that is a sequence of known values is spliced in
            out = []
            for e in expr.elts:
                v = self.value(e.value if isinstance(e, ast.Starred) else e, st, depth)
                if isinstance(e, ast.Starred):
                    if not (isinstance(v, tuple) and len(v) == 2 and v[0] == "seq"):
                        return UNKNOWN
                    out.extend(v[1])
                else:
                    out.append(v)
            return ("seq", tuple(out))
        if isinstance(expr, ast.Call):
            if isinstance(expr.func, ast.Name) and expr.func.id == "bool" and len(expr.args) == 1 and not expr.keywords:
                t = self.truth(expr.args[0], st, depth)
                return UNKNOWN if t is None else C(t)
            if isinstance(expr.func, ast.Name) and expr.func.id in ("any", "all") and len(expr.args) == 1 and not expr.keywords and not st.has(f"{depth}:{expr.func.id}"):
                t = self.quantifier(expr.func.id == "all", expr.args[0], st, depth)
                return UNKNOWN if t is None else C(t)
            if isinstance(expr.func, ast.Name) and expr.func.id in ("tuple", "list") and len(expr.args) == 1 and not expr.keywords:
                v = self.value(expr.args[0], st, depth)
                return v if isinstance(v, tuple) and v and v[0] == "seq" else UNKNOWN
            name = last_attr(expr.func)
            if name == "DataReceived" and self.static_class(expr.func) == "DataReceived":
                d = dict(self.bind_ctor(expr, name, st, depth))
                conn = d.get("connection", UNKNOWN)
                if conn[0] != "r" or conn[1] not in SIDES or "data" not in d:
                    raise AnalysisError(f"DataReceived built for an unmodelled connection: {norm(expr)}")
                return ("ev", "DataReceived", (("connection", SIDES[conn[1]]), ("data", d["data"])))
            if name == self.msg_class:
                d = dict(self.bind_ctor(expr, name, st, depth))
                if "from_client" in d and "content" in d:
                    return ("msg", d["from_client"], d["content"])
                raise AnalysisError(f"{self.msg_class} built in a way the relay model does not interpret: {norm(expr)}")
            if name and name[0].isupper() and (self.static_class(expr.func) is not None or isinstance(expr.func, ast.Attribute)):
                return ("new", name, self.bind_ctor(expr, name, st, depth))
            fn = self.inline(expr, st, depth)
            if fn is not None:
                return self.pure_call(fn, expr, st, depth)
            return UNKNOWN
        return LayerSpec.value(self, expr, st, depth)

    def bind(self, target, value_expr, st, depth, value=None):
        """unpacking of a sequence of known abstract values (`client, server = self.context.client, self.context.server`, `a, b = self._peers()`,
        `for conn, other in ((c, s), (s, c)):`, `first, *rest = (..)`): element-wise, the right-hand side evaluated before any target is bound"""
        if isinstance(target, (ast.Tuple, ast.List)):
            v = value if value is not None else self.value(value_expr, st, depth)
            if isinstance(v, tuple) and len(v) == 2 and v[0] == "seq":
                vals = list(v[1])
                star = [i for i, e in enumerate(target.elts) if isinstance(e, ast.Starred)]
                if len(star) == 1 and len(vals) >= len(target.elts) - 1:
                    i = star[0]
                    after = len(target.elts) - i - 1
                    vals = vals[:i] + [("seq", tuple(vals[i:len(vals) - after]))] + vals[len(vals) - after:]
                if len(star) <= 1 and len(vals) == len(target.elts):
                    for t, x in zip(target.elts, vals):
                        st = self.bind(t.value if isinstance(t, ast.Starred) else t, None, st, depth, value=x)
                    return st
        return LayerSpec.bind(self, target, value_expr, st, depth, value=value)

    def quantifier(self, is_all: bool, arg, st, depth):
        """three-valued any(...) / all(...) over a sequence of known values: a literal / helper result, or a comprehension with one
        generator over such a sequence"""
        truths = None
        if isinstance(arg, (ast.GeneratorExp, ast.ListComp)) and len(arg.generators) == 1 and isinstance(arg.generators[0].target, ast.Name) and not arg.generators[0].is_async:
            g = arg.generators[0]
            seq = self.value(g.iter, st, depth)
            if isinstance(seq, tuple) and seq and seq[0] == "seq":
                truths = []
                for v in seq[1]:
                    s2 = st.set(f"{depth}:{g.target.id}", v)
                    conds = [self.truth(c, s2, depth) for c in g.ifs]
                    if any(c is False for c in conds):
                        continue
                    t = self.truth(arg.elt, s2, depth)
                    truths.append(None if any(c is None for c in conds) and t is not (True if is_all else False) else t)
        else:
            seq = self.value(arg, st, depth)
            if isinstance(seq, tuple) and seq and seq[0] == "seq":
                truths = [self.truth_of_value(v) for v in seq[1]]
        if truths is None:
            return None
        decisive = False if is_all else True
        if any(t is decisive for t in truths):
            return decisive
        return None if any(t is None for t in truths) else (not decisive)

    def truth_of_value(self, v):
        if is_const(v):
            return bool(v[1])
        if isinstance(v, tuple) and v and (v[0] in self.OBJECT_TAGS or (v[0] == "r" and v[1] in SIDES)):
            return True
        if isinstance(v, tuple) and v and v[0] == "seq":
            return bool(v[1])
        return None

    def pure_call(self, fn, call, st, depth):
        """value of a helper call inside an expression: the callee is executed abstractly; it must be pure (no event of the
        rule's alphabet, no change of tracked state) and deterministic on this state"""
        if depth + 1 > self.max_depth:
            return UNKNOWN
        o = RelayEngine(self).call(fn, call, {State((), st.env)}, depth)
        if o.exc or len(o.ret) != 1:
            return UNKNOWN
        (r,) = o.ret
        if r.trace or r.drop(lambda k: k == "$ret").env != st.env:
            raise AnalysisError(f"{self.rel}: helper with effects called inside an expression: {norm(call)}")
        return r.get("$ret")

    OBJECT_TAGS = ("obj", "ev", "msg", "injmsg", "new", "cls")

    def decide_leaf(self, cond, st, depth):
        if isinstance(cond, ast.Call) and isinstance(cond.func, ast.Name) and cond.func.id == "bool" and len(cond.args) == 1 and not cond.keywords:
            return self.truth(cond.args[0], st, depth)
        if isinstance(cond, (ast.Name, ast.Attribute)):
            # flows, events, messages, commands and connections define neither __bool__ nor __len__
            return self.truth_of_value(self.value(cond, st, depth))
        if isinstance(cond, ast.Compare) and len(cond.ops) == 1:
            a = self.value(cond.left, st, depth)
            b = self.value(cond.comparators[0], st, depth)
            op = cond.ops[0]
            if isinstance(op, (ast.Is, ast.IsNot, ast.Eq, ast.NotEq)):
                for x, y in ((a, b), (b, a)):
                    if isinstance(x, tuple) and x and x[0] in self.OBJECT_TAGS and is_const(y):
                        return isinstance(op, (ast.IsNot, ast.NotEq))  # an object is never None / a literal
                    if isinstance(x, tuple) and x and x[0] == "r" and x[1] in SIDES and is_const(y) and y[1] is None:
                        return isinstance(op, (ast.IsNot, ast.NotEq))
            if isinstance(op, (ast.In, ast.NotIn)) and not isinstance(cond.comparators[0], (ast.Tuple, ast.Set, ast.List)):
                # Flag containment: `member in flags`  <=>  flags & member == member
                if is_const(a) and is_const(b) and type(a[1]) is int and type(b[1]) is int:
                    res = (b[1] & a[1]) == a[1]
                    return res if isinstance(op, ast.In) else not res
        return Spec.decide_leaf(self, cond, st, depth)

    def decide_extra(self, cond, st, depth):
        if isinstance(cond, (ast.BinOp, ast.IfExp, ast.Call)) and not (isinstance(cond, ast.Call) and isinstance(cond.func, ast.Name) and cond.func.id == "isinstance"):
            v = self.value(cond, st, depth)
            if is_const(v):
                return bool(v[1])
        if isinstance(cond, ast.Compare) and len(cond.ops) == 1 and isinstance(cond.ops[0], (ast.Is, ast.IsNot, ast.Eq, ast.NotEq)):
            c = cond.comparators[0]
            left = self.value(cond.left, st, depth)
            if left == R("self.context.server.timestamp_start") and isinstance(c, ast.Constant) and c.value is None:
                v = st.get("conn.server")
                if is_const(v):
                    never_connected = v[1] == self.cs["CLOSED"]
                    return never_connected if isinstance(cond.ops[0], (ast.Is, ast.Eq)) else not never_connected
        return LayerSpec.decide_extra(self, cond, st, depth)

    def match_case(self, subject, pattern, st, depth):
        d = Spec.match_case(self, subject, pattern, st, depth)
        if d is None:
            raise AnalysisError(f"{self.rel}: match pattern the relay model cannot decide: {norm(pattern)}")
        return d

    # ---- inlining: methods of the layer (LayerSpec) and module-level helper functions of the layer's module
    def inline(self, call, st, depth):
        f = call.func
        if isinstance(f, ast.Name) and not st.has(f"{depth}:{f.id}"):
            d = self.model.module(self.rel).get(f.id)
            if isinstance(d, ast.FunctionDef):
                return d
            return None
        return LayerSpec.inline(self, call, st, depth)

    # ---- the environment's part of a transition
    def delivered(self, st):
        """socket states after the proxy server updated them for the event about to be delivered"""
        ev = self.top_event(st)
        cl, sv = st.get("conn.client"), st.get("conn.server")
        if is_ev(ev) and ev[1] == "ConnectionClosed":
            side = dict(ev[2])["connection"]
            cur = st.get("conn." + side)[1]
            new = (cur & ~self.cs["CAN_READ"]) if self.proto == "tcp" else self.cs["CLOSED"]
            if side == "client":
                cl = C(new)
            else:
                sv = C(new)
            if dict(ev[2]).get("peer_eof"):
                # the other peer's read side was closed as well before this event reached the layer (its own ConnectionClosed is queued
                # behind this one, e.g. while the layer was paused on a hook): server.py updates connection.state when the socket closes
                oth = st.get("conn." + OTHER[side])[1]
                onew = C((oth & ~self.cs["CAN_READ"]) if self.proto == "tcp" else self.cs["CLOSED"])
                if side == "client":
                    sv = onew
                else:
                    cl = onew
        return cl, sv

    def side(self, v):
        if isinstance(v, tuple) and v and v[0] == "r" and v[1] in SIDES:
            return SIDES[v[1]]
        return "?" + str(v)

    @staticmethod
    def yields_of(node):
        return [n for n in eval_order(node) if isinstance(n, ast.Yield)]

    def command_events(self, y: ast.Yield, st, depth):
        """events of one `yield <command>`: decided on the value that reaches the yield"""
        if y.value is None:
            return []
        v = self.value(y.value, st, depth)
        if not (isinstance(v, tuple) and v and v[0] == "new"):
            raise AnalysisError(f"{self.rel}: `yield {norm(y.value)}`: the relay model cannot tell which command this is")
        name, args = v[1], dict(v[2])
        if name.endswith("Hook"):
            return [("hook", name)]
        if name == "SendData":
            return [("send", self.side(args.get("connection", UNKNOWN)), args.get("data", UNKNOWN))]
        if name == "OpenConnection":
            return [("open", self.side(args.get("connection", UNKNOWN)))]
        if name in ("CloseConnection", "CloseTcpConnection"):
            half = False
            if "half_close" in args:
                hv = args["half_close"]
                if not is_const(hv):
                    raise AnalysisError(f"half_close not decidable: {norm(y.value)}")
                half = bool(hv[1])
            return [("close", self.side(args.get("connection", UNKNOWN)), "half" if half else "full")]
        if name == "Log":
            return []
        return [("cmd", name)]

    # ---- events
    def events(self, node, st):
        out = []
        depth = self.depth_of(st, node)
        if isinstance(node, ast.Expr) and isinstance(node.value, ast.Call) and attr_chain(node.value.func) == "__deliver__":
            ev = self.top_event(st)
            cl, sv = self.delivered(st)
            d = dict(ev[2])
            return [("deliver", ev[1], d.get("connection", "client" if d.get("from_client") else "server" if "from_client" in d else "-"), cl[1], sv[1])]
        for n in eval_order(node):
            if isinstance(n, ast.Yield):
                out += self.command_events(n, st, depth)
            elif isinstance(n, ast.Call) and isinstance(n.func, ast.Attribute) and n.func.attr in ("append", "extend", "insert") and self.value(n.func.value, st, depth) == ("obj", "flow.messages"):
                if n.func.attr != "append" or len(n.args) != 1:
                    raise AnalysisError(f"{self.rel}: flow.messages changed in a way the relay model does not interpret: {norm(n)}")
                out.append(("append", self.value(n.args[0], st, depth)))
            elif isinstance(n, ast.Call) and isinstance(n.func, ast.Attribute) and n.func.attr in ("append", "extend", "insert", "add") and self.value(n.func.value, st, depth) == UNKNOWN:
                if any(isinstance(v, tuple) and v and v[0] == "msg" for v in (self.value(a, st, depth) for a in n.args)):
                    raise AnalysisError(f"{self.rel}: a message is stored in an object the relay model cannot identify: {norm(n)}")
        targets = node.targets if isinstance(node, ast.Assign) else [node.target] if isinstance(node, (ast.AnnAssign, ast.AugAssign)) and getattr(node, "value", None) is not None else []
        for t in targets:
            if not isinstance(t, ast.Attribute):
                continue
            tv = self.value(t.value, st, depth)
            if tv == R("self") and t.attr == "_handle_event":
                hv = self.value(node.value, st, depth)
                out.append(("set", hv[1] if isinstance(hv, tuple) and hv and hv[0] == "r" else "?"))
            elif tv == FLOW and t.attr == "live":
                out.append(("live", bool(getattr(node.value, "value", None))))
            elif tv == FLOW and t.attr == "error":
                out.append(("error:=",))
        return out

    def depth_of(self, st, node):
        # the frame depth is not passed to events(); recover it: the deepest frame that has bindings
        d = 0
        for k, _ in st.env:
            if k[:1].isdigit() and ":" in k:
                d = max(d, int(k.split(":", 1)[0]))
        return d

    # ---- effects of commands on the sockets (proxy/server.py)
    def effect(self, stmt, st, depth):
        if isinstance(stmt, ast.Expr) and isinstance(stmt.value, ast.Call) and attr_chain(stmt.value.func) == "__deliver__":
            cl, sv = self.delivered(st)
            return st.set("conn.client", cl).set("conn.server", sv)
        st0 = st
        for y in self.yields_of(stmt):
            for e in self.command_events(y, st0, depth):
                if e[0] == "close":
                    if e[1].startswith("?"):
                        raise AnalysisError(f"close of an unmodelled connection: {norm(y.value)}")
                    cur = st.get("conn." + e[1])[1]
                    st = st.set("conn." + e[1], C((cur & ~self.cs["CAN_WRITE"]) if e[2] == "half" else self.cs["CLOSED"]))
                elif e[0] == "open":
                    err = self.value(y, st0, depth)
                    if is_const(err) and err[1] is None:
                        st = st.set("conn.server", C(self.cs["OPEN"]))
        if isinstance(stmt, ast.Assign) and len(stmt.targets) == 1 and isinstance(stmt.targets[0], ast.Attribute) and attr_chain(stmt.targets[0]) not in self.tracked:
            # assignment through an alias of self (`me = self; me._handle_event = ...`) is not modelled: refuse instead of missing a state change
            t = stmt.targets[0]
            if t.attr in ("_handle_event", "flow") and self.value(t.value, st0, depth) == R("self"):
                raise AnalysisError(f"{self.rel}: {norm(t)} assigned through an alias")
        return LayerSpec.effect(self, stmt, st, depth)


def entry_function():
    src = "def __entry__(self, event):\n    __deliver__(event)\n    yield from self._handle_event(event)\n"
    return ast.parse(src).body[0]


def class_functions(c: ast.ClassDef):
    return [st for st in c.body if isinstance(st, (ast.FunctionDef, ast.AsyncFunctionDef))]


def discover_handlers(model, rel, cls) -> tuple:
    """The layer's state functions, by role: every method of the class that is ever stored in `_handle_event` (class-level initial
    binding or `self._handle_event = self.<method>` anywhere in the class)."""
    c = model.cls(rel, cls)
    methods = {f.name for f in class_functions(c)}
    out = []
    for st in c.body:
        if isinstance(st, (ast.Assign, ast.AnnAssign)) and st.value is not None:
            tg = st.targets if isinstance(st, ast.Assign) else [st.target]
            if any(isinstance(t, ast.Name) and t.id == "_handle_event" for t in tg) and isinstance(st.value, ast.Name) and st.value.id in methods:
                out.append(st.value.id)
    for f in class_functions(c):
        for n in ast.walk(f):
            if isinstance(n, (ast.Assign, ast.AnnAssign)) and n.value is not None:
                tg = n.targets if isinstance(n, ast.Assign) else [n.target]
                if any(isinstance(t, ast.Attribute) and t.attr == "_handle_event" for t in tg):
                    for x in ast.walk(n.value):
                        if isinstance(x, ast.Attribute) and isinstance(x.value, ast.Name) and x.value.id == "self" and x.attr in methods and x.attr not in out:
                            out.append(x.attr)
    if not out:
        raise AnalysisError(f"{rel}::{cls}: no state function is ever stored in _handle_event")
    return tuple(out)


def initial_handler(model, rel, cls) -> str:
    """the state function the layer starts in: class-level `_handle_event = <method>`, else `self._handle_event = self.<method>` in __init__"""
    c = model.cls(rel, cls)
    hits = []
    for st in c.body:
        if isinstance(st, (ast.Assign, ast.AnnAssign)) and st.value is not None:
            tg = st.targets if isinstance(st, ast.Assign) else [st.target]
            if any(isinstance(t, ast.Name) and t.id == "_handle_event" for t in tg):
                hits.append(st.value.id if isinstance(st.value, ast.Name) else None)
    if not hits:
        for f in class_functions(c):
            if f.name == "__init__":
                for n in ast.walk(f):
                    if isinstance(n, ast.Assign) and any(attr_chain(t) == "self._handle_event" for t in n.targets):
                        hits.append(attr_chain(n.value)[5:] if attr_chain(n.value).startswith("self.") else None)
    if len(hits) != 1 or hits[0] is None:
        raise AnalysisError(f"{rel}::{cls}: initial `_handle_event = <state function>` not found")
    return hits[0]


def sink_handlers(spec: "RelaySpec", entry, inj: str) -> tuple:
    """The terminal ("done") state functions, by behaviour: a state function that, for every event the environment can deliver in every
    socket / flow configuration, produces no command, no hook, no record and never leaves itself."""
    cs = spec.cs
    states = sorted({cs["OPEN"], cs["CAN_READ"], cs["CAN_WRITE"], cs["CLOSED"]})
    evs = [EV("DataReceived", connection=s, data=("data", "wire")) for s in ("client", "server")]
    evs += [EV("ConnectionClosed", connection=s) for s in ("client", "server")]
    evs += [EV(inj, from_client=True), EV(inj, from_client=False)]
    out = []
    for h in spec.handlers:
        eng = RelayEngine(spec)
        sink = True
        for flow in (C(None), FLOW):
            for cl in states:
                for sv in states:
                    for ev in evs:
                        if not sink:
                            break
                        env = {"self._handle_event": R("self." + h), "self.flow": flow, "conn.client": C(cl), "conn.server": C(sv)}
                        try:
                            finals = eng.finals(entry, State((), env).set("0:event", ev))
                        except AnalysisError:
                            sink = False
                            break
                        for fs in finals:
                            if fs.get("$exc") != UNKNOWN or any(e[0] != "deliver" for e in fs.trace) or fs.get("self._handle_event") != R("self." + h) or fs.get("self.flow") != flow:
                                sink = False
        if sink and not eng.pruned:
            out.append(h)
    return tuple(out)


class Relay(Monitor):
    """mon = frozenset of flags: started, ended, cc_client, cc_server"""

    init = frozenset()

    def __init__(self, spec: RelaySpec, hook_prefix: str, inj: str):
        self.spec = spec
        self.p = hook_prefix  # 'Tcp' / 'Udp'
        self.inj = inj
        self.cases = {"data": 0, "half": 0, "final": 0, "done": 0, "start": 0}

    def offers(self, env, mon):
        h = env["self._handle_event"]
        cs = self.spec.cs
        if h == R("self." + self.spec.h0):
            if env["conn.server"] == C(cs["CLOSED"]):
                return [EV("Start", open_err=False), EV("Start", open_err=True)]
            return [EV("Start")]
        out = []
        for side in ("client", "server"):
            state = env["conn." + side][1]
            if f"cc_{side}" in mon or (side == "server" and "server_never" in mon):
                continue
            if state & cs["CAN_READ"]:
                out.append(EV("DataReceived", connection=side, data=("data", "wire")))
            out.append(EV("ConnectionClosed", connection=side))
            o = OTHER[side]
            if f"cc_{o}" not in mon and not (o == "server" and "server_never" in mon) and env["conn." + o][1] & cs["CAN_READ"]:
                out.append(EV("ConnectionClosed", connection=side, peer_eof=True))
        out += [EV(self.inj, from_client=True), EV(self.inj, from_client=False)]
        return out

    def step(self, mon, ev, trace, env, report, exc=None):
        flags = set(mon)
        kind = ev[1]
        attrs = dict(ev[2])
        cs = self.spec.cs
        p = self.p
        has_flow = env.get("self.flow") != C(None)
        pre_done = "done" in flags
        nd = [e[1] for e in trace if e[0] == "nondet"] + [f[7:] for f in flags if f.startswith("nondet:")]
        if nd:
            flags = {f for f in flags if not f.startswith("nondet:")} | {"nondet:" + nd[0]}
            say = report
            report = lambda m: say(f"{m.split()[0]} [undecided: {nd[0]}] {m[len(m.split()[0]) + 1:]}")  # noqa: E731
        if exc is not None:
            report(f"R29.1 {kind} makes the layer raise {exc}")
            return None
        dl = [e for e in trace if e[0] == "deliver"]
        if len(dl) != 1:
            raise AnalysisError(f"C29 model: transition without delivery marker: {trace}")
        _, _, src, cl, sv = dl[0]
        body = [e for e in trace if e[0] not in ("deliver", "nondet")]
        effects = [e for e in body if e[0] in ("hook", "send", "append", "close", "open", "cmd")]
        for e in body:
            if e[0] == "send" and (not isinstance(e[2], tuple) or e[2] == UNKNOWN or str(e[1]).startswith("?")):
                raise AnalysisError(f"C29 model: SendData with operands the model cannot interpret: {e}")
        # ---------------- R29.1: at most one end/error, nothing afterwards
        for i, e in enumerate(body):
            if e[0] == "hook" and e[1] in (p + "EndHook", p + "ErrorHook"):
                if "ended" in flags:
                    report(f"R29.1 a second end/error hook ({e[1]}) fires for the same flow")
                flags.add("ended")
                later = [x for x in body[i + 1 :] if x[0] in ("send", "append") or (x[0] == "hook")]
                if later:
                    report(f"R29.1 {later[0]} happens after {e[1]}")
            elif e[0] == "hook" and e[1] == p + "StartHook":
                flags.add("started")
            elif e[0] in ("send", "append") or e[0] == "hook":
                if "ended" in flags:
                    report(f"R29.1 {e[:2]} happens after the flow's end/error hook")
        if pre_done and effects:
            report(f"R29.1 the finished layer still reacts to {kind}: {effects[0][:2]}")
        now_done = env.get("self._handle_event") in [R("self." + h) for h in self.spec.sinks]
        if now_done:
            flags.add("done")
            if has_flow and "ended" not in flags:
                report("R29.1 the layer finished without firing the flow's end or error hook")
        if "ended" in flags and not now_done:
            report("R29.1 end/error hook fired but the layer keeps relaying")
        # ---------------- per event
        if kind == "Start":
            self.cases["start"] += 1
            if attrs.get("open_err"):
                flags.add("server_never")
                if not now_done:
                    report("R29.1 server connect failed but the layer starts relaying")
                if has_flow and not any(e == ("hook", p + "ErrorHook") for e in body):
                    report("R29.1 server connect failed but no error hook fires")
            elif now_done:
                report("R29.1 the layer finishes at Start although the server is connected")
            if any(e[0] == "send" for e in body):
                report("R29.2 data sent at Start")
        elif kind in ("DataReceived", self.inj) and not pre_done:
            self.cases["data"] += 1
            dst = OTHER[src]
            data = ("data", "wire") if kind == "DataReceived" else ("data", "injected")
            if has_flow:
                m = ("msg", C(src == "client"), data)
                want = [("append", m), ("hook", p + "MessageHook"), ("send", dst, ("content", m))]
            else:
                want = [("send", dst, data)]
            got = [e for e in body if e[0] in ("append", "hook", "send", "close", "open", "cmd")]
            if got != want:
                report(f"R29.2 {kind} from {src}: expected {want}, the layer does {got}")
            if now_done:
                report(f"R29.2 {kind} finishes the layer")
        elif kind == "ConnectionClosed" and not pre_done:
            flags.add("cc_" + src)
            dst = OTHER[src]
            closes = [e for e in body if e[0] == "close"]
            if self.spec.proto == "tcp":
                readable = (cl & cs["CAN_READ"]) or (sv & cs["CAN_READ"])
                if readable:
                    self.cases["half"] += 1
                    if effects != [("close", dst, "half")]:
                        report(f"R29.3 {src} half-closed while {dst} can still send: expected [close({dst}, half)], the layer does {effects}")
                    if now_done:
                        report(f"R29.3 {src} half-closed while {dst} can still send but the layer finishes")
                else:
                    self.cases["final"] += 1
                    if not now_done:
                        report("R29.3 neither peer can send any more but the layer does not finish")
                    if env["conn.client"] != C(cs["CLOSED"]) or env["conn.server"] != C(cs["CLOSED"]):
                        report(f"R29.3 layer finished but sockets are left client={env['conn.client'][1]} server={env['conn.server'][1]} (not CLOSED)")
                    if any(c[2] == "half" for c in closes):
                        report("R29.3 final close issued as half-close")
            else:
                self.cases["final"] += 1
                if not now_done:
                    report("R29.3 a UDP peer is gone but the layer does not finish")
                if ("close", dst, "full") not in closes:
                    report(f"R29.3 UDP {src} gone but {dst} is not closed")
            if any(e[0] in ("send", "append") for e in body):
                report("R29.2 data relayed on ConnectionClosed")
        elif kind == "ConnectionClosed":
            flags.add("cc_" + src)
            self.cases["done"] += 1
        else:
            self.cases["done"] += 1
        if "cc_client" in flags and ("cc_server" in flags or "server_never" in flags) and not now_done:
            report("R29.1 both peers are gone but the flow never ended")
        return frozenset(flags)


LAYERS = [
    (TCP, "TCPLayer", "tcp", "TCPMessage", "TcpMessageInjected", "Tcp"),
    (UDP, "UDPLayer", "udp", "UDPMessage", "UdpMessageInjected", "Udp"),
]


def check(ctx):
    ctx.rule("R29.1", "exactly one end/error hook per flow, nothing relayed / no command afterwards, no deliverable event trips an assertion")
    ctx.rule("R29.2", "relay identity: append(m) ; MessageHook ; SendData(opposite, m.content) with m built from the event (ignore mode: event data)")
    ctx.rule("R29.3", "half-close propagated as half-close while the other peer can send; otherwise finish and leave both sockets CLOSED")
    m = ctx.model
    ctx.func(SERVER, "ConnectionHandler.handle_connection")
    ctx.func(SERVER, "ConnectionHandler.close_connection")
    ctx.assume(
        "environment automaton (proxy/server.py): Start first; DataReceived(c) only while c is readable and its ConnectionClosed was not "
        "delivered; exactly one ConnectionClosed per opened connection, delivered after CAN_READ was cleared (TCP) / state set CLOSED "
        "(UDP, or closed by command), possibly only after the other peer's read side was closed too (events queued while the layer is paused); CloseConnection => CLOSED; CloseTcpConnection(half_close=True) => CAN_WRITE cleared; "
        "OpenConnection succeeds (OPEN) or fails (reply = error text); injected messages at any time after Start"
    )
    ctx.assume("paths that would trip an @expect assertion are reported, not pruned: the run requires 0 pruned paths")
    entry = entry_function()
    for rel, cls, proto, msg, inj, p in LAYERS:
        spec = RelaySpec(m, rel, cls, proto, msg, inj)
        for fn in spec.handlers:
            ctx.func(rel, f"{cls}.{fn}")
        ctx.require(spec.ev_isa(inj, "MessageInjected"), f"{rel}::{inj} is no MessageInjected subclass any more")
        h0 = spec.h0 = initial_handler(m, rel, cls)
        ctx.require(h0 in spec.handlers, f"{rel}::{cls} starts in unmodelled handler {h0}")
        spec.sinks = sink_handlers(spec, entry, inj)
        ctx.note(f"{cls}: state functions {list(spec.handlers)}, initial {h0}, terminal (swallow-all, found by exploration) {list(spec.sinks)}")
        seen_msgs = set()
        totals = {"states": 0, "transitions": 0}
        by_rule = {"R29.1": 0, "R29.2": 0, "R29.3": 0}
        undecided: list = []
        cases = {}
        for ignore in (False, True):
            init_env = spec.initial_env(ignore)
            has_flow = init_env["self.flow"] != C(None)
            for server0 in ("CLOSED", "OPEN"):
                env0 = dict(init_env)
                env0.update({
                    "self._handle_event": R("self." + h0),
                    "conn.client": C(spec.cs["OPEN"]),
                    "conn.server": C(spec.cs[server0]),
                })
                mon = Relay(spec, p, inj)
                spec.nondet_seen.clear()
                res = explore_relay(spec, entry, env0, mon)
                if res["pruned"] and spec.nondet_seen:
                    by_rule["R29.1"] += 1
                    undecided.append(f"{cls}: {res['pruned']} explored paths trip an assertion of the layer, but branches could not be decided: {sorted(spec.nondet_seen)[:3]}")
                elif res["pruned"]:
                    by_rule["R29.1"] += 1
                    ctx.fail("R29.1", (rel, cls, m.cls(rel, cls)), "deliverable event rejected by @expect / assert",
                             f"{res['pruned']} explored paths trip an assertion of the layer (flow={has_flow}, server initially {server0})")
                totals["states"] += res["states"]
                totals["transitions"] += res["transitions"]
                ctx.paths += res["transitions"]
                for k, v in mon.cases.items():
                    cases[k] = cases.get(k, 0) + v
                for s in res["samples"][:2]:
                    ctx.sample({"layer": cls, "flow": has_flow, **s})
                for v in res["violations"]:
                    rule = v["message"].split()[0]
                    msg_ = v["message"][len(rule) + 1 :]
                    if (rule, msg_) in seen_msgs:
                        continue
                    seen_msgs.add((rule, msg_))
                    by_rule[rule] = by_rule.get(rule, 0) + 1
                    if msg_.startswith("[undecided: "):
                        # found on a path through a branch the model explored both ways: possibly spurious - the run ends as ANALYSIS-ERROR
                        # unless a finding on fully decided paths exists
                        undecided.append(f"{cls}: {rule} suspected on a path through a branch the relay model cannot decide {msg_[:300]}")
                        continue
                    hist = " ; ".join(f"{k}->{[e for e in t if e[0] != 'deliver']}" for k, t in v["history"][-4:])
                    ctx.fail(rule, (rel, cls, m.cls(rel, cls)), msg_, f"reachable in the extracted {cls} model (flow={has_flow}, server initially {server0}) via: {hist}")
        ctx.note(f"{cls}: {totals['states']} abstract states, {totals['transitions']} transitions over 4 initial configurations; cases {cases}")
        ctx.deferred.extend(undecided[:3])
        # the exploration must have exercised every kind of case (guards against a collapsed model)
        need = {"data": 8, "final": 2, "done": 4, "start": 6}
        if proto == "tcp":
            need["half"] = 4
        for k, n in need.items():
            if any(by_rule.values()):
                break  # a violated model may legitimately lack whole case classes; the findings are the verdict
            ctx.require(cases.get(k, 0) >= n, f"{cls} exploration collapsed: only {cases.get(k, 0)} '{k}' transitions (expected >= {n})")
        for rule, n in by_rule.items():
            if n == 0:
                ctx.ok(rule, f"{cls}: {totals['transitions']} transitions of the extracted model")
    ctx.expect_instances("R29.1", 2)
    ctx.expect_instances("R29.2", 2)
    ctx.expect_instances("R29.3", 2)


MUTANTS = [
    # R29.1
    Mutant("tcp-no-end-hook", TCP, "                if self.flow:\n                    yield TcpEndHook(self.flow)\n                    self.flow.live = False\n", "", "R29.1"),
    Mutant("tcp-error-and-end", TCP, "                    yield TcpErrorHook(self.flow)\n                yield commands.CloseConnection(self.context.client)\n                self._handle_event = self.done\n                return\n",
           "                    yield TcpErrorHook(self.flow)\n                yield commands.CloseConnection(self.context.client)\n", "R29.1"),
    Mutant("tcp-final-close-stays-relaying", TCP, "            if all_done:\n                self._handle_event = self.done\n", "            if all_done:\n", "R29.1"),
    Mutant("tcp-connect-failure-no-error-hook", TCP, "                    self.flow.error = flow.Error(str(err))\n                    yield TcpErrorHook(self.flow)\n",
           "                    self.flow.error = flow.Error(str(err))\n", "R29.1"),
    Mutant("udp-end-hook-keeps-relaying", UDP, "            self._handle_event = self.done\n            yield commands.CloseConnection(send_to)\n", "            yield commands.CloseConnection(send_to)\n", "R29.1"),
    Mutant("udp-done-relays", UDP, "    def done(self, _) -> layer.CommandGenerator[None]:\n        yield from ()",
           "    def done(self, _) -> layer.CommandGenerator[None]:\n        if isinstance(_, UdpMessageInjected):\n            yield commands.SendData(self.context.server, _.message.content)", "R29.1"),
    # R29.2
    Mutant("tcp-send-unrecorded-bytes", TCP, "                yield commands.SendData(send_to, tcp_message.content)\n", "                yield commands.SendData(send_to, event.data)\n", "R29.2"),
    Mutant("tcp-send-before-hook", TCP, "                yield TcpMessageHook(self.flow)\n                yield commands.SendData(send_to, tcp_message.content)\n",
           "                yield commands.SendData(send_to, tcp_message.content)\n                yield TcpMessageHook(self.flow)\n", "R29.2"),
    Mutant("tcp-send-to-sender", TCP, "        if from_client:\n            send_to = self.context.server\n        else:\n            send_to = self.context.client\n",
           "        if from_client:\n            send_to = self.context.client\n        else:\n            send_to = self.context.server\n", "R29.2"),
    Mutant("tcp-injected-direction-swapped", TCP, "                self.context.client\n                if event.message.from_client\n                else self.context.server,",
           "                self.context.server\n                if event.message.from_client\n                else self.context.client,", "R29.2"),
    Mutant("udp-message-not-recorded", UDP, "                self.flow.messages.append(udp_message)\n", "", "R29.2"),
    Mutant("udp-direction-flag-inverted", UDP, "udp.UDPMessage(from_client, event.data)", "udp.UDPMessage(not from_client, event.data)", "R29.2"),
    Mutant("udp-ignore-mode-drops", UDP, "            else:\n                yield commands.SendData(send_to, event.data)\n", "", "R29.2"),
    # R29.3
    Mutant("tcp-half-close-becomes-full", TCP, "yield commands.CloseTcpConnection(send_to, half_close=True)", "yield commands.CloseTcpConnection(send_to, half_close=False)", "R29.3"),
    Mutant("tcp-all-done-and", TCP, "                (self.context.client.state & ConnectionState.CAN_READ)\n                or (self.context.server.state", "                (self.context.client.state & ConnectionState.CAN_READ)\n                and (self.context.server.state", "R29.3"),
    Mutant("tcp-all-done-checks-write-bit", TCP, "(self.context.server.state & ConnectionState.CAN_READ)", "(self.context.server.state & ConnectionState.CAN_WRITE)", "R29.3"),
    Mutant("tcp-client-left-open", TCP, "                if self.context.client.state is not ConnectionState.CLOSED:\n                    yield commands.CloseConnection(self.context.client)\n", "", "R29.3"),
    Mutant("tcp-final-close-only-peer", TCP, "                if self.context.server.state is not ConnectionState.CLOSED:\n                    yield commands.CloseConnection(self.context.server)\n                if self.context.client.state is not ConnectionState.CLOSED:\n                    yield commands.CloseConnection(self.context.client)\n",
           "                if send_to.state is not ConnectionState.CLOSED:\n                    yield commands.CloseConnection(send_to)\n", "R29.3"),
    Mutant("tcp-half-close-wrong-side", TCP, "yield commands.CloseTcpConnection(send_to, half_close=True)", "yield commands.CloseTcpConnection(event.connection, half_close=True)", "R29.3"),
    Mutant("udp-close-not-propagated", UDP, "            yield commands.CloseConnection(send_to)\n", "", "R29.3"),
]
