"""C29 - raw TCP / UDP relaying is exact and each flow ends once.

Technique: typestate exploration (layerx) of the model extracted on every run from the source of `TCPLayer` and
`UDPLayer`.  The layer's three state functions are abstractly executed for every event the environment automaton
can deliver in every reachable abstract state (handler x flow? x client socket state x server socket state x
which ConnectionClosed events were already delivered).  Values are symbolic: connections are references
(`self.context.client|server`), payloads are provenance terms (`wire` / `injected` data, `content(msg(...))`),
socket states are the integers of `ConnectionState` read from mitmproxy/connection.py.

Decided (on the extracted model, both with a flow and in `ignore` mode, server connected or not at Start):
  R29.1  at most one of End/Error hook per flow; once it fired (or the layer is `done`) nothing is relayed, no
         hook fires and no command is issued; a layer that reached `done` / whose peers are both gone has fired
         exactly one of them; no event the environment can deliver trips an assertion.
  R29.2  relay identity: a DataReceived / injected message from side X produces exactly
         [messages.append(m), MessageHook, SendData(opposite(X), m.content)] with m = Message(from_client == (X is client), data)
         (with a flow) resp. [SendData(opposite(X), data)] (ignore mode): recorded == sent, read after the hook.
  R29.3  TCP half-close table: on ConnectionClosed(X) while the other peer can still send, exactly
         CloseTcpConnection(opposite(X), half_close=True) and the layer keeps relaying; when neither peer can be read
         any more the layer finishes and leaves both sockets CLOSED.  UDP: a close ends the flow and closes the other side.
NOT decided: byte-level behaviour of the asyncio transports (server.py is the environment automaton, stated as an
assumption), what an addon does inside a hook (any edit of `message.content` is covered because the send reads it
after the hook), kill() of a flow (C11).
"""

from __future__ import annotations

import ast

from ..core import AnalysisError
from ..core import norm
from ..layerx import EV
from ..layerx import explore
from ..layerx import is_ev
from ..layerx import LayerSpec
from ..layerx import Monitor
from ..model import attr_chain
from ..model import eval_order
from ..model import last_attr
from ..paths import C
from ..paths import is_const
from ..paths import R
from ..paths import Spec
from ..paths import UNKNOWN
from ..selftest import Mutant

PROP = "C29"
REG = {
    "strength": "strong",
    "technique": "typestate exploration of the models extracted from TCPLayer / UDPLayer (symbolic payload provenance, "
    "socket-state environment automaton)",
    "claim": "every reachable transition of the extracted TCPLayer and UDPLayer models (flow / ignore mode, every order of data, "
    "injections, half-closes, closes and connect failure) relays exactly the recorded message content to the opposite peer after the "
    "message hook, propagates a half-close as a half-close while the other direction stays open, fires exactly one end/error hook "
    "per flow and relays nothing afterwards.",
    "note": "Environment automaton = ConnectionHandler in proxy/server.py (one ConnectionClosed per connection, CAN_READ cleared "
    "before delivery for TCP, CLOSED for UDP; CloseConnection => CLOSED; half_close => CAN_WRITE cleared). Addon edits are symbolic "
    "(content is read after the hook).",
}

TCP = "mitmproxy/proxy/layers/tcp.py"
UDP = "mitmproxy/proxy/layers/udp.py"
EVENTS = "mitmproxy/proxy/events.py"
CONN = "mitmproxy/connection.py"
SERVER = "mitmproxy/proxy/server.py"

SIDES = {"self.context.client": "client", "self.context.server": "server"}
OTHER = {"client": "server", "server": "client"}


def connection_state_values(model) -> dict:
    """ConnectionState members -> int, evaluated from the class body (ints, names, |)."""
    cls = model.cls(CONN, "ConnectionState")
    vals: dict[str, int] = {}

    def ev(e):
        if isinstance(e, ast.Constant) and isinstance(e.value, int):
            return e.value
        if isinstance(e, ast.Name) and e.id in vals:
            return vals[e.id]
        if isinstance(e, ast.BinOp) and isinstance(e.op, ast.BitOr):
            return ev(e.left) | ev(e.right)
        raise AnalysisError(f"ConnectionState member not evaluable: {norm(e)}")

    for st in cls.body:
        if isinstance(st, ast.Assign) and len(st.targets) == 1 and isinstance(st.targets[0], ast.Name):
            vals[st.targets[0].id] = ev(st.value)
    for need in ("CLOSED", "CAN_READ", "CAN_WRITE", "OPEN"):
        if need not in vals:
            raise AnalysisError(f"ConnectionState.{need} vanished")
    if not (vals["CLOSED"] == 0 and vals["CAN_READ"] and vals["CAN_WRITE"] and vals["CAN_READ"] & vals["CAN_WRITE"] == 0
            and vals["OPEN"] == vals["CAN_READ"] | vals["CAN_WRITE"]):
        raise AnalysisError(f"ConnectionState is not the two-bit flag set the model assumes: {vals}")
    return vals


def dataclass_fields(model, rel: str, name: str) -> list[str]:
    """Positional field order of an event dataclass (annotated names along the MRO, bases first)."""
    out: list[str] = []
    for m, c in reversed(model.mro(rel, name)):
        for st in c.body:
            if isinstance(st, ast.AnnAssign) and isinstance(st.target, ast.Name) and st.target.id not in out:
                out.append(st.target.id)
    return out


class RelaySpec(LayerSpec):
    """Model extraction for TCPLayer / UDPLayer."""

    tracked = ("self._handle_event", "self.flow", "conn.client", "conn.server")
    dispatch_attrs = ("self._handle_event",)
    max_depth = 4

    def __init__(self, model, rel, cls, proto, msg_class, injected_class):
        super().__init__(model, rel, cls)
        self.proto = proto
        self.msg_class = msg_class  # 'TCPMessage'
        self.injected_class = injected_class
        self.cs = connection_state_values(model)
        self.data_fields = dataclass_fields(model, EVENTS, "DataReceived")
        if self.data_fields != ["connection", "data"]:
            raise AnalysisError(f"events.DataReceived fields changed: {self.data_fields}")

    def extra_modules(self):
        return [self.model.module(EVENTS)]

    def refs_are_distinct(self, a, b):
        return (a in SIDES and b in SIDES) or (a.startswith("self.") and b.startswith("self.") and a[5:] in self.handlers and b[5:] in self.handlers)

    handlers = ("start", "relay_messages", "done")

    # ---- values
    def top_event(self, st):
        return st.get("0:event")

    def value(self, expr, st, depth):
        ch = attr_chain(expr)
        if ch in ("self.context.client.state", "self.context.server.state"):
            return st.get("conn." + ch.split(".")[2])
        if ch.startswith("ConnectionState.") and ch.count(".") == 1:
            n = ch.split(".")[1]
            if n not in self.cs:
                raise AnalysisError(f"unknown ConnectionState member {ch}")
            return C(self.cs[n])
        if isinstance(expr, ast.BinOp) and isinstance(expr.op, (ast.BitAnd, ast.BitOr)):
            a, b = self.value(expr.left, st, depth), self.value(expr.right, st, depth)
            if is_const(a) and is_const(b) and isinstance(a[1], int) and isinstance(b[1], int):
                return C(a[1] & b[1] if isinstance(expr.op, ast.BitAnd) else a[1] | b[1])
            return UNKNOWN
        if isinstance(expr, ast.IfExp):
            t = self.truth(expr.test, st, depth)
            if t is None:
                return UNKNOWN
            return self.value(expr.body if t else expr.orelse, st, depth)
        if isinstance(expr, ast.Yield) and isinstance(expr.value, ast.Call) and last_attr(expr.value.func) == "OpenConnection":
            ev = self.top_event(st)
            if is_ev(ev):
                d = dict(ev[2])
                if "open_err" in d:
                    return C("connect failed") if d["open_err"] else C(None)
            return UNKNOWN
        if isinstance(expr, ast.Call):
            name = last_attr(expr.func)
            if name == "DataReceived" and not expr.keywords and len(expr.args) == 2:
                conn = self.value(expr.args[0], st, depth)
                data = self.value(expr.args[1], st, depth)
                if conn[0] != "r" or conn[1] not in SIDES:
                    raise AnalysisError(f"DataReceived built for an unmodelled connection: {norm(expr)}")
                return ("ev", "DataReceived", (("connection", SIDES[conn[1]]), ("data", data)))
            if name == self.msg_class and len(expr.args) == 2 and not expr.keywords:
                return ("msg", self.value(expr.args[0], st, depth), self.value(expr.args[1], st, depth))
        # attributes of abstract values
        if isinstance(expr, ast.Attribute):
            base = None
            if isinstance(expr.value, ast.Name):
                base = st.get(f"{depth}:{expr.value.id}")
            elif isinstance(expr.value, ast.Attribute) and isinstance(expr.value.value, ast.Name) and expr.value.attr == "message":
                ev = st.get(f"{depth}:{expr.value.value.id}")
                if is_ev(ev) and self.ev_isa(ev[1], "MessageInjected"):
                    d = dict(ev[2])
                    if expr.attr == "from_client":
                        return C(d["from_client"])
                    if expr.attr == "content":
                        return ("data", "injected")
                    return UNKNOWN
            if is_ev(base):
                d = dict(base[2])
                if expr.attr == "connection" and "connection" in d:
                    return R("self.context." + d["connection"])
                if expr.attr == "data" and "data" in d:
                    return d["data"]
                return UNKNOWN
            if isinstance(base, tuple) and base and base[0] == "msg":
                if expr.attr == "content":
                    return ("content", base)
                if expr.attr == "from_client":
                    return base[1]
                return UNKNOWN
        return LayerSpec.value(self, expr, st, depth)

    def decide_extra(self, cond, st, depth):
        if isinstance(cond, ast.BinOp):
            v = self.value(cond, st, depth)
            if is_const(v):
                return bool(v[1])
        if isinstance(cond, ast.Compare) and attr_chain(cond.left) == "self.context.server.timestamp_start" and len(cond.ops) == 1:
            c = cond.comparators[0]
            if isinstance(c, ast.Constant) and c.value is None and isinstance(cond.ops[0], (ast.Is, ast.IsNot)):
                v = st.get("conn.server")
                if is_const(v):
                    never_connected = v[1] == self.cs["CLOSED"]
                    return never_connected if isinstance(cond.ops[0], ast.Is) else not never_connected
        return LayerSpec.decide_extra(self, cond, st, depth)

    def match_case(self, subject, pattern, st, depth):
        if isinstance(pattern, ast.MatchAs) and pattern.pattern is None:
            return True
        v = self.value(subject, st, depth)
        if isinstance(pattern, ast.MatchClass) and is_ev(v) and not pattern.patterns and not pattern.kwd_patterns:
            return self.ev_isa(v[1], last_attr(pattern.cls))
        raise AnalysisError(f"{self.rel}: match pattern the relay model does not interpret: {norm(pattern)}")

    # ---- the environment's part of a transition
    def delivered(self, st):
        """socket states after the proxy server updated them for the event about to be delivered"""
        ev = self.top_event(st)
        cl, sv = st.get("conn.client"), st.get("conn.server")
        if is_ev(ev) and ev[1] == "ConnectionClosed":
            side = dict(ev[2])["connection"]
            cur = st.get("conn." + side)[1]
            new = (cur & ~self.cs["CAN_READ"]) if self.proto == "tcp" else self.cs["CLOSED"]
            if side == "client":
                cl = C(new)
            else:
                sv = C(new)
        return cl, sv

    def side(self, v):
        if isinstance(v, tuple) and v and v[0] == "r" and v[1] in SIDES:
            return SIDES[v[1]]
        return "?" + str(v)

    # ---- events
    def events(self, node, st):
        out = []
        depth = self.depth_of(st, node)
        if isinstance(node, ast.Expr) and isinstance(node.value, ast.Call) and attr_chain(node.value.func) == "__deliver__":
            ev = self.top_event(st)
            cl, sv = self.delivered(st)
            d = dict(ev[2])
            return [("deliver", ev[1], d.get("connection", "client" if d.get("from_client") else "server" if "from_client" in d else "-"), cl[1], sv[1])]
        for n in eval_order(node):
            if isinstance(n, ast.Yield):
                v = n.value
                if isinstance(v, ast.Call):
                    name = last_attr(v.func)
                    if name.endswith("Hook"):
                        out.append(("hook", name))
                    elif name == "SendData" and len(v.args) == 2:
                        out.append(("send", self.side(self.value(v.args[0], st, depth)), self.value(v.args[1], st, depth)))
                    elif name == "OpenConnection":
                        out.append(("open", self.side(self.value(v.args[0], st, depth)) if v.args else "?"))
                    elif name in ("CloseConnection", "CloseTcpConnection"):
                        half = False
                        for k in v.keywords:
                            if k.arg == "half_close":
                                hv = self.value(k.value, st, depth)
                                if not is_const(hv):
                                    raise AnalysisError(f"half_close not a literal: {norm(v)}")
                                half = bool(hv[1])
                        if len(v.args) >= 2:
                            hv = self.value(v.args[1], st, depth)
                            if not is_const(hv):
                                raise AnalysisError(f"half_close not a literal: {norm(v)}")
                            half = bool(hv[1])
                        out.append(("close", self.side(self.value(v.args[0], st, depth)) if v.args else "?", "half" if half else "full"))
                    elif name == "Log":
                        pass
                    else:
                        out.append(("cmd", name))
                elif v is not None:
                    out.append(("cmd", "?"))
            elif isinstance(n, ast.Call) and attr_chain(n.func) == "self.flow.messages.append" and len(n.args) == 1:
                out.append(("append", self.value(n.args[0], st, depth)))
        if isinstance(node, ast.Assign):
            for t in node.targets:
                ch = attr_chain(t)
                if ch == "self._handle_event":
                    out.append(("set", attr_chain(node.value) or "?"))
                elif ch == "self.flow.live":
                    out.append(("live", bool(getattr(node.value, "value", None))))
                elif ch == "self.flow.error":
                    out.append(("error:=",))
        return out

    def depth_of(self, st, node):
        # the frame depth is not passed to events(); recover it: the deepest frame that has bindings
        d = 0
        for k, _ in st.env:
            if k[:1].isdigit() and ":" in k:
                d = max(d, int(k.split(":", 1)[0]))
        return d

    # ---- effects of commands on the sockets (proxy/server.py)
    def effect(self, stmt, st, depth):
        if isinstance(stmt, ast.Expr) and isinstance(stmt.value, ast.Call) and attr_chain(stmt.value.func) == "__deliver__":
            cl, sv = self.delivered(st)
            return st.set("conn.client", cl).set("conn.server", sv)
        y = None
        if isinstance(stmt, ast.Expr) and isinstance(stmt.value, ast.Yield):
            y = stmt.value
        elif isinstance(stmt, ast.Assign) and isinstance(stmt.value, ast.Yield):
            y = stmt.value
        if y is not None and isinstance(y.value, ast.Call):
            name = last_attr(y.value.func)
            args = y.value.args
            if name in ("CloseConnection", "CloseTcpConnection") and args:
                side = self.side(self.value(args[0], st, depth))
                if side.startswith("?"):
                    raise AnalysisError(f"close of an unmodelled connection: {norm(y.value)}")
                half = any(k.arg == "half_close" and is_const(self.value(k.value, st, depth)) and self.value(k.value, st, depth)[1] for k in y.value.keywords)
                if len(args) >= 2:
                    hv = self.value(args[1], st, depth)
                    half = bool(is_const(hv) and hv[1])
                cur = st.get("conn." + side)[1]
                new = (cur & ~self.cs["CAN_WRITE"]) if half else self.cs["CLOSED"]
                st = st.set("conn." + side, C(new))
            elif name == "OpenConnection" and args:
                err = self.value(y, st, depth)
                if is_const(err) and err[1] is None:
                    st = st.set("conn.server", C(self.cs["OPEN"]))
        return LayerSpec.effect(self, stmt, st, depth)


def entry_function():
    src = "def __entry__(self, event):\n    __deliver__(event)\n    yield from self._handle_event(event)\n"
    return ast.parse(src).body[0]


def initial_handler(model, rel, cls) -> str:
    c = model.cls(rel, cls)
    hits = [st for st in c.body if isinstance(st, ast.Assign) and any(isinstance(t, ast.Name) and t.id == "_handle_event" for t in st.targets)]
    if len(hits) != 1 or not isinstance(hits[0].value, ast.Name):
        raise AnalysisError(f"{rel}::{cls}: class-level `_handle_event = <state function>` not found")
    return hits[0].value.id


class Relay(Monitor):
    """mon = frozenset of flags: started, ended, cc_client, cc_server"""

    init = frozenset()

    def __init__(self, spec: RelaySpec, hook_prefix: str, inj: str):
        self.spec = spec
        self.p = hook_prefix  # 'Tcp' / 'Udp'
        self.inj = inj
        self.cases = {"data": 0, "half": 0, "final": 0, "done": 0, "start": 0}

    def offers(self, env, mon):
        h = env["self._handle_event"]
        cs = self.spec.cs
        if h == R("self.start"):
            if env["conn.server"] == C(cs["CLOSED"]):
                return [EV("Start", open_err=False), EV("Start", open_err=True)]
            return [EV("Start")]
        out = []
        for side in ("client", "server"):
            state = env["conn." + side][1]
            if f"cc_{side}" in mon or (side == "server" and "server_never" in mon):
                continue
            if state & cs["CAN_READ"]:
                out.append(EV("DataReceived", connection=side, data=("data", "wire")))
            out.append(EV("ConnectionClosed", connection=side))
        out += [EV(self.inj, from_client=True), EV(self.inj, from_client=False)]
        return out

    def step(self, mon, ev, trace, env, report, exc=None):
        flags = set(mon)
        kind = ev[1]
        attrs = dict(ev[2])
        cs = self.spec.cs
        p = self.p
        has_flow = env.get("self.flow") == C(True)
        pre_done = "done" in flags
        if exc is not None:
            report(f"R29.1 {kind} makes the layer raise {exc}")
            return None
        dl = [e for e in trace if e[0] == "deliver"]
        if len(dl) != 1:
            raise AnalysisError(f"C29 model: transition without delivery marker: {trace}")
        _, _, src, cl, sv = dl[0]
        body = [e for e in trace if e[0] != "deliver"]
        effects = [e for e in body if e[0] in ("hook", "send", "append", "close", "open", "cmd")]
        for e in body:
            if e[0] == "send" and (not isinstance(e[2], tuple) or e[2] == UNKNOWN or str(e[1]).startswith("?")):
                raise AnalysisError(f"C29 model: SendData with operands the model cannot interpret: {e}")
        # ---------------- R29.1: at most one end/error, nothing afterwards
        for i, e in enumerate(body):
            if e[0] == "hook" and e[1] in (p + "EndHook", p + "ErrorHook"):
                if "ended" in flags:
                    report(f"R29.1 a second end/error hook ({e[1]}) fires for the same flow")
                flags.add("ended")
                later = [x for x in body[i + 1 :] if x[0] in ("send", "append") or (x[0] == "hook")]
                if later:
                    report(f"R29.1 {later[0]} happens after {e[1]}")
            elif e[0] == "hook" and e[1] == p + "StartHook":
                flags.add("started")
            elif e[0] in ("send", "append") or e[0] == "hook":
                if "ended" in flags:
                    report(f"R29.1 {e[:2]} happens after the flow's end/error hook")
        if pre_done and effects:
            report(f"R29.1 the finished layer still reacts to {kind}: {effects[0][:2]}")
        now_done = env.get("self._handle_event") == R("self.done")
        if now_done:
            flags.add("done")
            if has_flow and "ended" not in flags:
                report("R29.1 the layer finished without firing the flow's end or error hook")
        if "ended" in flags and not now_done:
            report("R29.1 end/error hook fired but the layer keeps relaying")
        # ---------------- per event
        if kind == "Start":
            self.cases["start"] += 1
            if attrs.get("open_err"):
                flags.add("server_never")
                if not now_done:
                    report("R29.1 server connect failed but the layer starts relaying")
                if has_flow and not any(e == ("hook", p + "ErrorHook") for e in body):
                    report("R29.1 server connect failed but no error hook fires")
            elif now_done:
                report("R29.1 the layer finishes at Start although the server is connected")
            if any(e[0] == "send" for e in body):
                report("R29.2 data sent at Start")
        elif kind in ("DataReceived", self.inj) and not pre_done:
            self.cases["data"] += 1
            dst = OTHER[src]
            data = ("data", "wire") if kind == "DataReceived" else ("data", "injected")
            if has_flow:
                m = ("msg", C(src == "client"), data)
                want = [("append", m), ("hook", p + "MessageHook"), ("send", dst, ("content", m))]
            else:
                want = [("send", dst, data)]
            got = [e for e in body if e[0] in ("append", "hook", "send", "close", "open", "cmd")]
            if got != want:
                report(f"R29.2 {kind} from {src}: expected {want}, the layer does {got}")
            if now_done:
                report(f"R29.2 {kind} finishes the layer")
        elif kind == "ConnectionClosed" and not pre_done:
            flags.add("cc_" + src)
            dst = OTHER[src]
            closes = [e for e in body if e[0] == "close"]
            if self.spec.proto == "tcp":
                readable = (cl & cs["CAN_READ"]) or (sv & cs["CAN_READ"])
                if readable:
                    self.cases["half"] += 1
                    if effects != [("close", dst, "half")]:
                        report(f"R29.3 {src} half-closed while {dst} can still send: expected [close({dst}, half)], the layer does {effects}")
                    if now_done:
                        report(f"R29.3 {src} half-closed while {dst} can still send but the layer finishes")
                else:
                    self.cases["final"] += 1
                    if not now_done:
                        report("R29.3 neither peer can send any more but the layer does not finish")
                    if env["conn.client"] != C(cs["CLOSED"]) or env["conn.server"] != C(cs["CLOSED"]):
                        report(f"R29.3 layer finished but sockets are left client={env['conn.client'][1]} server={env['conn.server'][1]} (not CLOSED)")
                    if any(c[2] == "half" for c in closes):
                        report("R29.3 final close issued as half-close")
            else:
                self.cases["final"] += 1
                if not now_done:
                    report("R29.3 a UDP peer is gone but the layer does not finish")
                if ("close", dst, "full") not in closes:
                    report(f"R29.3 UDP {src} gone but {dst} is not closed")
            if any(e[0] in ("send", "append") for e in body):
                report("R29.2 data relayed on ConnectionClosed")
        elif kind == "ConnectionClosed":
            flags.add("cc_" + src)
            self.cases["done"] += 1
        else:
            self.cases["done"] += 1
        if "cc_client" in flags and ("cc_server" in flags or "server_never" in flags) and not now_done:
            report("R29.1 both peers are gone but the flow never ended")
        return frozenset(flags)


LAYERS = [
    (TCP, "TCPLayer", "tcp", "TCPMessage", "TcpMessageInjected", "Tcp"),
    (UDP, "UDPLayer", "udp", "UDPMessage", "UdpMessageInjected", "Udp"),
]


def check(ctx):
    ctx.rule("R29.1", "exactly one end/error hook per flow, nothing relayed / no command afterwards, no deliverable event trips an assertion")
    ctx.rule("R29.2", "relay identity: append(m) ; MessageHook ; SendData(opposite, m.content) with m built from the event (ignore mode: event data)")
    ctx.rule("R29.3", "half-close propagated as half-close while the other peer can send; otherwise finish and leave both sockets CLOSED")
    m = ctx.model
    ctx.func(SERVER, "ConnectionHandler.handle_connection")
    ctx.func(SERVER, "ConnectionHandler.close_connection")
    ctx.assume(
        "environment automaton (proxy/server.py): Start first; DataReceived(c) only while c is readable and its ConnectionClosed was not "
        "delivered; exactly one ConnectionClosed per opened connection, delivered after CAN_READ was cleared (TCP) / state set CLOSED "
        "(UDP, or closed by command); CloseConnection => CLOSED; CloseTcpConnection(half_close=True) => CAN_WRITE cleared; "
        "OpenConnection succeeds (OPEN) or fails (reply = error text); injected messages at any time after Start"
    )
    ctx.assume("paths that would trip an @expect assertion are reported, not pruned: the run requires 0 pruned paths")
    entry = entry_function()
    for rel, cls, proto, msg, inj, p in LAYERS:
        for fn in ("start", "relay_messages", "done"):
            ctx.func(rel, f"{cls}.{fn}")
        spec = RelaySpec(m, rel, cls, proto, msg, inj)
        ctx.require(spec.ev_isa(inj, "MessageInjected"), f"{rel}::{inj} is no MessageInjected subclass any more")
        h0 = initial_handler(m, rel, cls)
        ctx.require(h0 in spec.handlers, f"{rel}::{cls} starts in unmodelled handler {h0}")
        seen_msgs = set()
        totals = {"states": 0, "transitions": 0}
        by_rule = {"R29.1": 0, "R29.2": 0, "R29.3": 0}
        cases = {}
        for has_flow in (True, False):
            for server0 in ("CLOSED", "OPEN"):
                env0 = {
                    "self._handle_event": R("self." + h0),
                    "self.flow": C(has_flow),
                    "conn.client": C(spec.cs["OPEN"]),
                    "conn.server": C(spec.cs[server0]),
                }
                mon = Relay(spec, p, inj)
                res = explore(spec, entry, env0, mon)
                if res["pruned"]:
                    by_rule["R29.1"] += 1
                    ctx.fail("R29.1", (rel, cls, m.cls(rel, cls)), "deliverable event rejected by @expect / assert",
                             f"{res['pruned']} explored paths trip an assertion of the layer (flow={has_flow}, server initially {server0})")
                totals["states"] += res["states"]
                totals["transitions"] += res["transitions"]
                ctx.paths += res["transitions"]
                for k, v in mon.cases.items():
                    cases[k] = cases.get(k, 0) + v
                for s in res["samples"][:2]:
                    ctx.sample({"layer": cls, "flow": has_flow, **s})
                for v in res["violations"]:
                    rule = v["message"].split()[0]
                    msg_ = v["message"][len(rule) + 1 :]
                    if (rule, msg_) in seen_msgs:
                        continue
                    seen_msgs.add((rule, msg_))
                    by_rule[rule] = by_rule.get(rule, 0) + 1
                    hist = " ; ".join(f"{k}->{[e for e in t if e[0] != 'deliver']}" for k, t in v["history"][-4:])
                    ctx.fail(rule, (rel, cls, m.cls(rel, cls)), msg_, f"reachable in the extracted {cls} model (flow={has_flow}, server initially {server0}) via: {hist}")
        ctx.note(f"{cls}: {totals['states']} abstract states, {totals['transitions']} transitions over 4 initial configurations; cases {cases}")
        # the exploration must have exercised every kind of case (guards against a collapsed model)
        need = {"data": 8, "final": 2, "done": 4, "start": 6}
        if proto == "tcp":
            need["half"] = 4
        for k, n in need.items():
            if any(by_rule.values()):
                break  # a violated model may legitimately lack whole case classes; the findings are the verdict
            ctx.require(cases.get(k, 0) >= n, f"{cls} exploration collapsed: only {cases.get(k, 0)} '{k}' transitions (expected >= {n})")
        for rule, n in by_rule.items():
            if n == 0:
                ctx.ok(rule, f"{cls}: {totals['transitions']} transitions of the extracted model")
    ctx.expect_instances("R29.1", 2)
    ctx.expect_instances("R29.2", 2)
    ctx.expect_instances("R29.3", 2)


MUTANTS = [
    # R29.1
    Mutant("tcp-no-end-hook", TCP, "                if self.flow:\n                    yield TcpEndHook(self.flow)\n                    self.flow.live = False\n", "", "R29.1"),
    Mutant("tcp-error-and-end", TCP, "                    yield TcpErrorHook(self.flow)\n                yield commands.CloseConnection(self.context.client)\n                self._handle_event = self.done\n                return\n",
           "                    yield TcpErrorHook(self.flow)\n                yield commands.CloseConnection(self.context.client)\n", "R29.1"),
    Mutant("tcp-final-close-stays-relaying", TCP, "            if all_done:\n                self._handle_event = self.done\n", "            if all_done:\n", "R29.1"),
    Mutant("tcp-connect-failure-no-error-hook", TCP, "                    self.flow.error = flow.Error(str(err))\n                    yield TcpErrorHook(self.flow)\n",
           "                    self.flow.error = flow.Error(str(err))\n", "R29.1"),
    Mutant("udp-end-hook-keeps-relaying", UDP, "            self._handle_event = self.done\n            yield commands.CloseConnection(send_to)\n", "            yield commands.CloseConnection(send_to)\n", "R29.1"),
    Mutant("udp-done-relays", UDP, "    def done(self, _) -> layer.CommandGenerator[None]:\n        yield from ()",
           "    def done(self, _) -> layer.CommandGenerator[None]:\n        if isinstance(_, UdpMessageInjected):\n            yield commands.SendData(self.context.server, _.message.content)", "R29.1"),
    # R29.2
    Mutant("tcp-send-unrecorded-bytes", TCP, "                yield commands.SendData(send_to, tcp_message.content)\n", "                yield commands.SendData(send_to, event.data)\n", "R29.2"),
    Mutant("tcp-send-before-hook", TCP, "                yield TcpMessageHook(self.flow)\n                yield commands.SendData(send_to, tcp_message.content)\n",
           "                yield commands.SendData(send_to, tcp_message.content)\n                yield TcpMessageHook(self.flow)\n", "R29.2"),
    Mutant("tcp-send-to-sender", TCP, "        if from_client:\n            send_to = self.context.server\n        else:\n            send_to = self.context.client\n",
           "        if from_client:\n            send_to = self.context.client\n        else:\n            send_to = self.context.server\n", "R29.2"),
    Mutant("tcp-injected-direction-swapped", TCP, "                self.context.client\n                if event.message.from_client\n                else self.context.server,",
           "                self.context.server\n                if event.message.from_client\n                else self.context.client,", "R29.2"),
    Mutant("udp-message-not-recorded", UDP, "                self.flow.messages.append(udp_message)\n", "", "R29.2"),
    Mutant("udp-direction-flag-inverted", UDP, "udp.UDPMessage(from_client, event.data)", "udp.UDPMessage(not from_client, event.data)", "R29.2"),
    Mutant("udp-ignore-mode-drops", UDP, "            else:\n                yield commands.SendData(send_to, event.data)\n", "", "R29.2"),
    # R29.3
    Mutant("tcp-half-close-becomes-full", TCP, "yield commands.CloseTcpConnection(send_to, half_close=True)", "yield commands.CloseTcpConnection(send_to, half_close=False)", "R29.3"),
    Mutant("tcp-all-done-and", TCP, "                (self.context.client.state & ConnectionState.CAN_READ)\n                or (self.context.server.state", "                (self.context.client.state & ConnectionState.CAN_READ)\n                and (self.context.server.state", "R29.3"),
    Mutant("tcp-all-done-checks-write-bit", TCP, "(self.context.server.state & ConnectionState.CAN_READ)", "(self.context.server.state & ConnectionState.CAN_WRITE)", "R29.3"),
    Mutant("tcp-client-left-open", TCP, "                if self.context.client.state is not ConnectionState.CLOSED:\n                    yield commands.CloseConnection(self.context.client)\n", "", "R29.3"),
    Mutant("tcp-half-close-wrong-side", TCP, "yield commands.CloseTcpConnection(send_to, half_close=True)", "yield commands.CloseTcpConnection(event.connection, half_close=True)", "R29.3"),
    Mutant("udp-close-not-propagated", UDP, "            yield commands.CloseConnection(send_to)\n", "", "R29.3"),
]
