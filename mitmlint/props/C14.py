"""C14 - TLS interception is byte-transparent after the handshake (ordering clauses of TLSLayer / TunnelLayer).

Decided (path facts; exceptions of the OpenSSL calls are modelled at every statement of a ``try`` body for the classes its handlers name):
  R14.1 ``TLSLayer.receive_data``: received bytes are fed to OpenSSL (``bio_write``) before anything is read; every ``recv`` result is
        accumulated into one buffer that is not reset between reads; whenever that buffer is non-empty exactly one
        ``DataReceived(self.conn, bytes(buffer))`` goes to the child, after the read loop; a ``ConnectionClosed`` is produced exactly on
        the paths that saw ``ZeroReturnError`` (close_notify) and only *after* the data; ``tls_interact()`` runs after the last ``recv`` on
        every path.  ``send_data``: ``sendall(data)`` then ``tls_interact()`` on every path.  ``tls_interact``: every successful
        ``bio_read`` is followed by ``SendData(self.conn, <those bytes>)`` before the next read; the loop ends only on WantReadError.
  R14.2 ``TLSLayer.receive_close`` forwards the transport close to the child unless ``get_shutdown() & RECEIVED_SHUTDOWN`` (evaluated on
        the four shutdown states): a close is suppressed only when close_notify was already delivered.
  R14.3 handshake-time data: ``TunnelLayer._handle_event`` routes DataReceived to ``receive_handshake_data`` while ESTABLISHING and to
        ``receive_data`` otherwise; ``event_to_child`` appends to ``_event_queue`` (and delivers nothing) exactly while ESTABLISHING
        without a pending OpenConnection; ``_handshake_finished`` opens the tunnel *before* replaying the queue in order and clears it;
        ``TLSLayer.receive_handshake_data`` calls ``receive_data(b"")`` on every path that reports success, so application data that
        arrived with the last handshake flight is not stranded.
Not decided: OpenSSL's record processing for arbitrary record sizes / segmentations (library).
"""

from __future__ import annotations

import ast

from ..core import AnalysisError
from ..core import norm
from ..model import attr_chain
from ..model import call_name
from ..model import last_attr
from ..model import walk_in_order
from ..paths import GenericSpec
from ..paths import index_of
from ..paths import traces_of
from ..selftest import Mutant
from ._helpers_B import ceval
from ._helpers_B import consistent
from ._helpers_B import feasible
from ._helpers_B import FlowSpec
from ._helpers_B import mentions
from ._helpers_B import NotAnAtom

PROP = "C14"
REG = {
    "strength": "narrow",
    "technique": "CFG path enumeration (loops unrolled three times, implicit exception edges into the code's own handlers) with must-precede / "
    "exactly-once facts; semantic evaluation of the shutdown-flag condition",
    "claim": "ordering clauses only: bytes are fed to OpenSSL before reading, all decrypted bytes of one call are delivered once and before a "
    "close_notify close, pending TLS output is flushed after reading/writing, transport closes are suppressed only after close_notify, and "
    "events arriving during the handshake are queued and replayed in order after the tunnel opened.",
    "note": "OpenSSL / pyOpenSSL behaviour (recv, bio_read, shutdown flags) is trusted. Loops unrolled three times.",
}
PT = "mitmproxy/proxy/layers/tls.py"
TU = "mitmproxy/proxy/tunnel.py"

E2C = "self.event_to_child"


def _child_event(e):
    """class name of the event passed to event_to_child in a ('callx', 'self.event_to_child', node) event"""
    n = e[2]
    return last_attr(n.args[0].func) if n.args and isinstance(n.args[0], ast.Call) else ""


def _r14_1(ctx):
    rd = ctx.func(PT, "TLSLayer.receive_data")
    where = (PT, "TLSLayer.receive_data", rd)
    data_p = rd.args.args[1].arg
    RECV, BIOW, INTERACT = "self.tls.recv", "self.tls.bio_write", "self.tls_interact"

    def keep(ev):
        if ev[0] == "callx":
            return ev[1] in (RECV, BIOW, E2C) or ev[1].endswith(".extend")
        if ev[0] == "yield_from":
            return ev[1] == INTERACT
        if ev[0] in ("assign", "cond", "except"):
            return True
        return False

    res, eng = traces_of(rd, FlowSpec(keep=keep, call_nodes=True, unroll=3))
    term = [(t, how) for t, how, st in res if how == "return"]
    ctx.require(term, "TLSLayer.receive_data: no returning path")
    ctx.paths += len(term)
    # the buffer: receiver of the .extend(...) call that wraps recv
    recvs = [n for n in walk_in_order(rd) if isinstance(n, ast.Call) and call_name(n) == RECV]
    ctx.require(len(recvs) == 1, f"TLSLayer.receive_data: {len(recvs)} recv() call sites (one modelled)")
    par = getattr(recvs[0], "_parent", None)
    ctx.require(isinstance(par, ast.Call) and isinstance(par.func, ast.Attribute) and par.func.attr == "extend" and isinstance(par.func.value, ast.Name) and par.args == [recvs[0]],
                "TLSLayer.receive_data: recv() result is not accumulated with <buffer>.extend(...) (accepted idiom)")
    buf = par.func.value.id
    bad = {"feed": 0, "accumulate": 0, "deliver": 0, "close": 0, "interact": 0}
    n_multi = n_close = n_data = 0
    for t, how in term:
        names = [(e[1] if e[0] in ("callx", "yield_from") else None) for e in t]
        r_idx = [i for i, e in enumerate(t) if e[0] == "callx" and e[1] == RECV]
        ok_reads = [i for i in r_idx if i + 1 < len(t) and t[i + 1][0] == "callx" and t[i + 1][1] == buf + ".extend"]
        # feed before read
        fed = [i for i, e in enumerate(t) if e[0] == "callx" and e[1] == BIOW]
        has_data = [e[2] for e in t if e[0] == "cond" and e[1] == data_p]
        if not (has_data and not has_data[0]):  # unless the path established that there is nothing to feed
            if len(fed) != 1 or (r_idx and fed[0] > r_idx[0]) or norm(t[fed[0]][2]) != f"{BIOW}({data_p})":
                bad["feed"] += 1
        # accumulation: the buffer is bound once, before the first read
        binds = [i for i, e in enumerate(t) if e[0] == "assign" and e[1] == buf]
        if len(binds) != 1 or (r_idx and binds[0] > r_idx[0]):
            bad["accumulate"] += 1
        if len(ok_reads) >= 2:
            n_multi += 1
        # delivery
        sends = [(i, _child_event(e)) for i, e in enumerate(t) if e[0] == "callx" and e[1] == E2C]
        data_ev = [i for i, k in sends if k == "DataReceived"]
        close_ev = [i for i, k in sends if k == "ConnectionClosed"]
        nonempty = [e[2] for e in t if e[0] == "cond" and e[1] == buf]
        if nonempty and nonempty[-1]:
            n_data += 1
            good = len(data_ev) == 1 and (not r_idx or data_ev[0] > r_idx[-1])
            if good:
                n = t[data_ev[0]][2].args[0]
                good = len(n.args) == 2 and norm(n.args[0]) == "self.conn" and norm(n.args[1]) in (f"bytes({buf})", buf)
            if not good:
                bad["deliver"] += 1
        elif data_ev and not nonempty:
            bad["deliver"] += 1
        zero = ("except", "ZeroReturnError") in t
        if zero:
            n_close += 1
            if len(close_ev) != 1 or (data_ev and close_ev[0] < data_ev[-1]) or norm(t[close_ev[0]][2].args[0]) != "events.ConnectionClosed(self.conn)":
                bad["close"] += 1
        elif close_ev:
            bad["close"] += 1
        inter = [i for i, e in enumerate(t) if e == ("yield_from", INTERACT)]
        if not inter or (r_idx and inter[-1] < r_idx[-1]):
            bad["interact"] += 1
    ctx.require(n_multi > 0 and n_close > 0 and n_data > 0, f"TLSLayer.receive_data: expected multi-read ({n_multi}), close_notify ({n_close}) and data ({n_data}) paths")
    ctx.check(bad["feed"] == 0, "R14.1", where, "bio_write(data) before the first recv()", f"{bad['feed']} path(s) read from OpenSSL before (or without) feeding the received bytes exactly once", desc="received bytes fed to OpenSSL before reading")
    ctx.check(bad["accumulate"] == 0, "R14.1", where, "one plaintext buffer for all recv() results", f"{bad['accumulate']} path(s) rebind the plaintext buffer between reads: decrypted bytes are lost", desc=f"buffer `{buf}` bound once before the read loop ({n_multi} multi-read paths)")
    ctx.check(bad["deliver"] == 0, "R14.1", where, "exactly one DataReceived(self.conn, bytes(plaintext)) after the read loop", f"{bad['deliver']} path(s) with decrypted bytes deliver them not exactly once / not completely / before reading finished", desc=f"one DataReceived with the whole buffer on {n_data} paths")
    ctx.check(bad["close"] == 0, "R14.1", where, "ConnectionClosed exactly on close_notify, after the data", f"{bad['close']} path(s) deliver the close_notify close before the data, twice, not at all, or without close_notify", desc=f"close_notify -> one ConnectionClosed after the data ({n_close} paths)")
    ctx.check(bad["interact"] == 0, "R14.1", where, "tls_interact() after the last recv()", f"{bad['interact']} path(s) do not flush pending TLS output after reading", desc="tls_interact after the read loop on every path")

    # send_data
    sd = ctx.func(PT, "TLSLayer.send_data")
    p = sd.args.args[1].arg
    SENDALL = "self.tls.sendall"
    res, eng = traces_of(sd, FlowSpec(keep=lambda ev: (ev[0] == "callx" and ev[1] == SENDALL) or ev == ("yield_from", INTERACT) or ev[0] == "except", call_nodes=True))
    bad_s = 0
    n_plain = 0
    for t, how, st in res:
        ctx.paths += 1
        inter = [i for i, e in enumerate(t) if e == ("yield_from", INTERACT)]
        snd = [i for i, e in enumerate(t) if e[0] == "callx"]
        exc = any(e[0] == "except" for e in t)
        ok = how == "return" and len(inter) == 1 and all(i < inter[0] for i in snd)
        if not exc:
            n_plain += 1
            ok = ok and len(snd) == 1 and norm(t[snd[0]][2]) == f"{SENDALL}({p})"
        bad_s += not ok
    ctx.require(n_plain > 0, "TLSLayer.send_data: no exception-free path")
    ctx.check(bad_s == 0, "R14.1", (PT, "TLSLayer.send_data", sd), "sendall(data) then tls_interact()", f"{bad_s} path(s) do not encrypt the whole payload exactly once and flush the produced records afterwards", desc="send_data: sendall(data); tls_interact() on all paths")

    # tls_interact
    ti = ctx.func(PT, "TLSLayer.tls_interact")
    BIOR = "self.tls.bio_read"
    res, eng = traces_of(ti, FlowSpec(keep=lambda ev: (ev[0] == "callx" and ev[1] in (BIOR, "commands.SendData")) or ev[0] in ("assign", "except"), call_nodes=True, unroll=3))
    bad_t = n_two = 0
    for t, how, st in res:
        ctx.paths += 1
        reads = [i for i, e in enumerate(t) if e[0] == "callx" and e[1] == BIOR]
        if how != "return" or ("except", "WantReadError") not in t:
            bad_t += 1  # the loop may only be left when OpenSSL has nothing more to send
            continue
        completed = 0
        for k, i in enumerate(reads):
            nxt = reads[k + 1] if k + 1 < len(reads) else len(t)
            seg = t[i + 1 : nxt]
            par = getattr(t[i][2], "_parent", None)
            var = par.targets[0].id if isinstance(par, ast.Assign) and len(par.targets) == 1 and isinstance(par.targets[0], ast.Name) else None
            sends = [e for e in seg if e[0] == "callx" and e[1] == "commands.SendData"]
            if var is None or len(sends) != 1 or [norm(a) for a in sends[0][2].args] != ["self.conn", var] or sum(1 for e in seg if e == ("assign", var)) != 1:
                bad_t += 1
                break
            completed += 1
        n_two += completed >= 2
    ctx.require(n_two > 0 or bad_t > 0, "TLSLayer.tls_interact: no path with two completed reads (loop shape changed)")
    ctx.check(bad_t == 0, "R14.1", (PT, "TLSLayer.tls_interact", ti), "bio_read -> SendData(self.conn, data) until WantReadError", f"{bad_t} path(s) drop, duplicate or reorder TLS records produced by OpenSSL, or leave the loop early", desc="tls_interact: every bio_read chunk sent once, in order, until WantReadError")
    ctx.expect_instances("R14.1", 7)


def _r14_2(ctx):
    rc = ctx.func(PT, "TLSLayer.receive_close")
    SUPER = "super().receive_close"
    res, eng = traces_of(rc, FlowSpec(keep=lambda ev: ev[0] == "cond" or ev == ("yield_from", SUPER), implicit_raises=False))
    flags = {"SSL.RECEIVED_SHUTDOWN": 2, "SSL.SENT_SHUTDOWN": 1}

    def atom_for(state):
        def atom(node, env):
            if isinstance(node, ast.Call) and call_name(node) == "self.tls.get_shutdown" and not node.args:
                return state
            if isinstance(node, ast.Attribute) and attr_chain(node) in flags:
                return flags[attr_chain(node)]
            if isinstance(node, (ast.Call, ast.Attribute, ast.Name)):
                raise AnalysisError(f"TLSLayer.receive_close: condition term not modelled: {norm(node)}")
            raise NotAnAtom

        return atom

    ctx.require(any(e[0] == "cond" for t, _, _ in res for e in t), "TLSLayer.receive_close no longer branches (shape not modelled)")
    for state in (0, 1, 2, 3):
        got = set()
        for t, how, st in res:
            if how == "return" and feasible(t, lambda n: True, atom_for(state), what="TLSLayer.receive_close"):
                got.add(("yield_from", SUPER) in t)
                ctx.paths += 1
        want = not (state & 2)
        ctx.check(got == {want}, "R14.2", (PT, "TLSLayer.receive_close", rc), f"shutdown state {state}: forward close = {want}",
                  f"with get_shutdown()={state} the transport close is {'forwarded' if True in got else 'suppressed'}"
                  + (" although close_notify was already delivered as a close (duplicate close)" if not want else " although no close_notify was received: the child never learns that the peer closed"),
                  desc=f"get_shutdown()={state} -> {'forward' if want else 'suppress'}")
    tr = ctx.func(TU, "TunnelLayer.receive_close")
    res, eng = traces_of(tr, FlowSpec(keep=lambda ev: ev[0] == "callx" and ev[1] == E2C, call_nodes=True, implicit_raises=False))
    ok = all(how == "return" and len(t) == 1 and norm(t[0][2].args[0]) == "events.ConnectionClosed(self.conn)" for t, how, st in res)
    ctx.check(ok, "R14.2", (TU, "TunnelLayer.receive_close", tr), "event_to_child(ConnectionClosed(self.conn))", "the default close handling does not deliver exactly one ConnectionClosed for the inner connection", desc="TunnelLayer.receive_close delivers ConnectionClosed(self.conn)")
    ctx.expect_instances("R14.2", 5)


def _r14_3(ctx):
    # (a) routing of DataReceived
    he = ctx.func(TU, "TunnelLayer._handle_event")
    RHD, RD = "self.receive_handshake_data", "self.receive_data"
    ISDATA = "isinstance(event, events.DataReceived)"
    res, eng = traces_of(he, FlowSpec(keep=lambda ev: (ev[0] == "cond" and (ev[1] == ISDATA or "self.tunnel_state" in ev[1])) or (ev[0] == "callx" and ev[1] in (RHD, RD)), call_nodes=True, implicit_raises=False))
    states = {"TunnelState.ESTABLISHING": "E", "TunnelState.OPEN": "O", "TunnelState.CLOSED": "C", "TunnelState.INACTIVE": "I"}

    def world(ts, pending, fname):
        def atom(node, env):
            if isinstance(node, ast.Attribute):
                ch = attr_chain(node)
                if ch == "self.tunnel_state":
                    return ts
                if ch in states:
                    return states[ch]
                if ch == "self.command_to_reply_to":
                    return pending
            if isinstance(node, (ast.Call, ast.Attribute, ast.Name)):
                raise AnalysisError(f"TunnelLayer.{fname}: condition term not modelled: {norm(node)}")
            raise NotAnAtom

        return atom

    ts_rel = lambda nd: mentions(nd, "self.tunnel_state")  # noqa: E731
    data_paths = [(t, how) for t, how, st in res if any(e[0] == "cond" and e[1] == ISDATA and e[2] for e in t)]
    ctx.require(data_paths and any(e[0] == "cond" and ts_rel(e[3]) for t, _ in data_paths for e in t), "TunnelLayer._handle_event: DataReceived handling / tunnel-state test not found")
    n = bad = 0
    for ts in "EOC":
        for t, how in data_paths:
            if not feasible(t, ts_rel, world(ts, None, "_handle_event"), what="TunnelLayer._handle_event"):
                continue
            n += 1
            ctx.paths += 1
            calls = [(e[1], norm(e[2])) for e in t if e[0] == "callx"]
            want = RHD if ts == "E" else RD
            bad += not (len(calls) == 1 and calls[0] == (want, f"{want}(event.data)"))
    ctx.require(n >= 3, "TunnelLayer._handle_event: DataReceived paths not found")
    ctx.check(bad == 0, "R14.3", (TU, "TunnelLayer._handle_event", he), "DataReceived -> receive_handshake_data while ESTABLISHING, else receive_data",
              f"{bad} of {n} (state, path) case(s) hand tunnel bytes to the wrong consumer (or not exactly once)", desc=f"DataReceived routed by tunnel state ({n} cases)")
    # (b) queueing in event_to_child
    ec = ctx.func(TU, "TunnelLayer.event_to_child")
    evp = ec.args.args[1].arg
    APP, CHILD = "self._event_queue.append", "self.child_layer.handle_event"
    res, eng = traces_of(ec, FlowSpec(keep=lambda ev: ev[0] == "cond" or (ev[0] == "callx" and ev[1] in (APP, CHILD)) or (ev[0] == "callx" and ev[1].startswith("self._event_queue.")), call_nodes=True, implicit_raises=False))
    rel = lambda nd: mentions(nd, "self.tunnel_state", "self.command_to_reply_to")  # noqa: E731
    ctx.require(any(e[0] == "cond" and rel(e[3]) for t, _, _ in res for e in t), "TunnelLayer.event_to_child no longer tests tunnel_state / command_to_reply_to")
    for ts in "EOCI":
        for pending in (None, "cmd"):
            want_queue = ts == "E" and pending is None
            verdicts = set()
            for t, how, st in res:
                if how != "return" or not feasible(t, rel, world(ts, pending, "event_to_child"), what="TunnelLayer.event_to_child"):
                    continue
                ctx.paths += 1
                calls = [(e[1], [norm(a) for a in e[2].args]) for e in t if e[0] == "callx"]
                if want_queue:
                    verdicts.add(calls == [(APP, [evp])])
                else:
                    verdicts.add(bool(calls) and calls[0] == (CHILD, [evp]) and all(c[0] == CHILD for c in calls))
            ctx.require(verdicts, f"TunnelLayer.event_to_child: no feasible path for state {ts}, pending={pending}")
            ctx.cells += 1
            ctx.check(verdicts == {True}, "R14.3", (TU, "TunnelLayer.event_to_child", ec), f"tunnel_state={ts}, pending OpenConnection={pending is not None}: {'queue' if want_queue else 'deliver'}",
                      "events are " + ("not appended to the queue (or also delivered) during the handshake: early data overtakes the handshake or is lost" if want_queue else "queued or dropped although the tunnel is not establishing: they are never delivered"),
                      desc=f"state {ts}/pending={pending is not None}: {'append to _event_queue only' if want_queue else 'child_layer.handle_event(event)'}")
    # (c) replay in _handshake_finished
    hf = ctx.func(TU, "TunnelLayer._handshake_finished")
    errp = hf.args.args[1].arg
    res, eng = traces_of(hf, FlowSpec(keep=lambda ev: ev[0] in ("cond", "loop", "assignx") or (ev[0] == "callx" and (ev[1] == E2C or ev[1].startswith("self._event_queue."))), call_nodes=True, assign_nodes=True, loops=True, implicit_raises=False, unroll=2))
    n = bad = 0
    for t, how, st in res:
        if how != "return" or any(e[0] == "cond" and e[1] == errp and e[2] for e in t) or any(e[0] == "cond" and e[1] == "self.command_to_reply_to" and e[2] for e in t):
            continue
        loops = [e for e in t if e[0] == "loop" and e[1]]
        if not loops:
            continue
        n += 1
        ctx.paths += 1
        node = loops[0][2]
        ok = norm(node.iter) == "self._event_queue" and isinstance(node.target, ast.Name)
        opened = index_of(t, lambda e: e[0] == "assignx" and e[1] == "self.tunnel_state" and norm(e[2]) == "TunnelState.OPEN")
        first_loop = index_of(t, lambda e: e[0] == "loop")
        deliveries = [e for e in t if e[0] == "callx" and e[1] == E2C]
        clears = [i for i, e in enumerate(t) if e[0] == "callx" and e[1] == "self._event_queue.clear"]
        last_deliv = max((i for i, e in enumerate(t) if e[0] == "callx" and e[1] == E2C), default=-1)
        ok = ok and 0 <= opened < first_loop and len(deliveries) == len(loops) and all([norm(a) for a in d[2].args] == [node.target.id] for d in deliveries)
        ok = ok and len(clears) == 1 and clears[0] > last_deliv
        bad += not ok
    ctx.require(n > 0, "TunnelLayer._handshake_finished: replay loop not found on the success path")
    ctx.check(bad == 0, "R14.3", (TU, "TunnelLayer._handshake_finished", hf), "success: tunnel OPEN, then replay _event_queue in order, then clear",
              f"{bad} of {n} success path(s) replay queued events before opening the tunnel (they would be re-queued), skip/duplicate events, or do not clear the queue", desc=f"queued events replayed in order after OPEN, queue cleared ({n} paths)")
    # (d) early application data after the handshake
    rhd = ctx.func(PT, "TLSLayer.receive_handshake_data")
    res, eng = traces_of(rhd, FlowSpec(keep=lambda ev: ev[0] == "ret" or (ev[0] == "callx" and ev[1] in ("self.receive_data", "self.tls.do_handshake")), call_nodes=True, ret_nodes=True))
    n = bad = 0
    for t, how, st in res:
        rets = [e[1] for e in t if e[0] == "ret"]
        if how != "return" or not rets or not isinstance(rets[-1], ast.Tuple) or len(rets[-1].elts) != 2:
            raise AnalysisError("TLSLayer.receive_handshake_data: a path does not return a (done, err) tuple literal")
        done = rets[-1].elts[0]
        if not isinstance(done, ast.Constant):
            raise AnalysisError("TLSLayer.receive_handshake_data: `done` is not a literal")
        if done.value is True:
            n += 1
            ctx.paths += 1
            hs = index_of(t, lambda e: e[0] == "callx" and e[1] == "self.tls.do_handshake")
            rdx = [i for i, e in enumerate(t) if e[0] == "callx" and e[1] == "self.receive_data"]
            bad += not (hs >= 0 and len(rdx) == 1 and rdx[0] > hs and norm(t[rdx[0]][2]) == "self.receive_data(b'')")
    ctx.require(n > 0, "TLSLayer.receive_handshake_data: no successful path")
    ctx.check(bad == 0, "R14.3", (PT, "TLSLayer.receive_handshake_data", rhd), "success -> receive_data(b'') after do_handshake()",
              f"{bad} of {n} successful path(s) do not drain application data that arrived together with the final handshake bytes", desc=f"receive_data(b'') after a completed handshake ({n} paths)")
    ctx.expect_instances("R14.3", 1 + 8 + 1 + 1)


def _r14_4(ctx):
    """TunnelLayer._handle_command: no command of the inner layer is dropped.  Every terminating path does something with the command:
    SendData for the tunnelled connection -> send_data(command.data) (encrypts + sends), CloseConnection -> send_close, OpenConnection ->
    its own OpenConnection, anything else -> passed on unchanged.  A path that returns without any of these silently loses bytes the inner
    layer sent ("every byte the inner layer sends reaches the peer")."""
    TUN = "mitmproxy/proxy/tunnel.py"
    fn = ctx.func(TUN, "TunnelLayer._handle_command")
    params = [a.arg for a in fn.args.args]
    ctx.require(len(params) == 2, "TunnelLayer._handle_command signature changed")
    cmd = params[1]
    res, eng = traces_of(fn, GenericSpec(keep=lambda e: e[0] in ("yield", "yield_from", "cond"), record_conds=True))
    term = [(t, how) for t, how, st in res if how == "return"]
    ctx.require(len(term) >= 4, f"TunnelLayer._handle_command: expected >= 4 returning paths, got {len(term)}")
    ctx.paths += len(term)
    dropped = [t for t, how in term if not any(e[0] in ("yield", "yield_from") for e in t)]
    ctx.check(not dropped, "R14.4", (TUN, "TunnelLayer._handle_command", fn), "every path handles or forwards the command",
              f"{len(dropped)} path(s) return without sending, closing, opening or forwarding the command (conditions: {[e[1] for e in dropped[0] if e[0] == 'cond'] if dropped else ''}): "
              "data the inner layer sends is silently lost", desc=f"_handle_command: all {len(term)} returning paths act on the command")
    send_paths = [t for t, how in term if any(e[0] == "cond" and "SendData" in e[1] and e[2] for e in t)]
    ctx.require(send_paths, "TunnelLayer._handle_command: no path for SendData found")
    ok = all(any(e[0] == "yield_from" and e[1].endswith("send_data") for e in t) for t in send_paths)
    ctx.check(ok, "R14.4", (TUN, "TunnelLayer._handle_command", fn), "SendData -> self.send_data(...) on every path",
              "a SendData for the tunnelled connection does not reach send_data on every path", desc=f"SendData reaches send_data on all {len(send_paths)} paths")
    calls = [c for c in walk_in_order(fn) if isinstance(c, ast.Call) and norm(c.func).endswith("self.send_data")]
    ctx.check(len(calls) >= 1 and all(len(c.args) == 1 and norm(c.args[0]) == f"{cmd}.data" for c in calls), "R14.4", (TUN, "TunnelLayer._handle_command", fn), f"send_data({cmd}.data)",
              "the bytes handed to send_data are not the command's data", desc=f"send_data receives {cmd}.data itself")
    ctx.expect_instances("R14.4", 3)


def check(ctx):
    ctx.rule("R14.4", "TunnelLayer._handle_command never drops a command: SendData reaches send_data(command.data) on every path")
    ctx.rule("R14.1", "receive_data / send_data / tls_interact: feed before read, accumulate, deliver once, close after data, flush after I/O")
    ctx.rule("R14.2", "receive_close suppresses the transport close only after close_notify (RECEIVED_SHUTDOWN)")
    ctx.rule("R14.3", "handshake-time events are queued, replayed in order after OPEN; receive_data(b'') after a completed handshake")
    ctx.trust("pyOpenSSL Connection.recv/bio_read/bio_write/sendall/get_shutdown semantics; WantReadError/ZeroReturnError are subclasses of SSL.Error")
    ctx.assume("exceptions are modelled at every statement of a try body for the classes its handlers name")
    _r14_1(ctx)
    _r14_2(ctx)
    _r14_3(ctx)
    _r14_4(ctx)


MUTANTS = [
    Mutant("senddata-dropped-unless-tunnel-open", TU, "                yield from self.send_data(command.data)\n", "                if self.tunnel_state is TunnelState.OPEN:\n                    yield from self.send_data(command.data)\n", "R14.4"),
    Mutant("unknown-commands-swallowed", TU, "        else:\n            yield command\n\n    def event_to_child", "        elif not isinstance(command, commands.Log):\n            yield command\n\n    def event_to_child", "R14.4"),
    Mutant("close-before-data", PT,
           "        if plaintext:\n            yield from self.event_to_child(\n                events.DataReceived(self.conn, bytes(plaintext))\n            )\n        if close:\n            self.conn.state &= ~connection.ConnectionState.CAN_READ\n            if self.debug:\n                yield commands.Log(f\"{self.debug}[tls] close_notify {self.conn}\", DEBUG)\n            yield from self.event_to_child(events.ConnectionClosed(self.conn))\n",
           "        if close:\n            self.conn.state &= ~connection.ConnectionState.CAN_READ\n            yield from self.event_to_child(events.ConnectionClosed(self.conn))\n        if plaintext:\n            yield from self.event_to_child(\n                events.DataReceived(self.conn, bytes(plaintext))\n            )\n", "R14.1"),
    Mutant("buffer-reset-each-read", PT, "        while True:\n            try:\n                plaintext.extend(self.tls.recv(65535))\n", "        while True:\n            try:\n                plaintext = bytearray()\n                plaintext.extend(self.tls.recv(65535))\n", "R14.1"),
    Mutant("close-notify-swallowed", PT, "            except SSL.ZeroReturnError:\n                close = True\n                break\n", "            except SSL.ZeroReturnError:\n                break\n", "R14.1"),
    Mutant("no-flush-after-recv", PT, "        # https://github.com/mitmproxy/mitmproxy/discussions/7550\n        yield from self.tls_interact()\n\n        if plaintext:", "        if plaintext:", "R14.1"),
    Mutant("data-fed-after-read", PT, "    def receive_data(self, data: bytes) -> layer.CommandGenerator[None]:\n        if data:\n            self.tls.bio_write(data)\n\n        plaintext = bytearray()",
           "    def receive_data(self, data: bytes) -> layer.CommandGenerator[None]:\n        plaintext = bytearray()", "R14.1"),
    Mutant("send-data-no-flush-on-error", PT, "            # The other peer may still be trying to send data over, which we discard here.\n            pass\n        yield from self.tls_interact()\n",
           "            # The other peer may still be trying to send data over, which we discard here.\n            return\n        yield from self.tls_interact()\n", "R14.1"),
    Mutant("interact-sends-first-chunk-only", PT, "            else:\n                yield commands.SendData(self.conn, data)\n\n    def receive_handshake_data", "            else:\n                yield commands.SendData(self.conn, data)\n                return\n\n    def receive_handshake_data", "R14.1"),
    Mutant("receive-close-inverted", PT, "        if self.tls.get_shutdown() & SSL.RECEIVED_SHUTDOWN:\n", "        if not self.tls.get_shutdown() & SSL.RECEIVED_SHUTDOWN:\n", "R14.2"),
    Mutant("receive-close-sent-shutdown", PT, "        if self.tls.get_shutdown() & SSL.RECEIVED_SHUTDOWN:\n", "        if self.tls.get_shutdown() & SSL.SENT_SHUTDOWN:\n", "R14.2"),
    Mutant("receive-close-any-shutdown", PT, "        if self.tls.get_shutdown() & SSL.RECEIVED_SHUTDOWN:\n", "        if self.tls.get_shutdown():\n", "R14.2"),
    Mutant("queue-while-pending-open", TU, "            self.tunnel_state is TunnelState.ESTABLISHING\n            and not self.command_to_reply_to\n        ):\n            self._event_queue.append(event)",
           "            self.tunnel_state is TunnelState.ESTABLISHING\n        ):\n            self._event_queue.append(event)", "R14.3"),
    Mutant("queue-drops-events", TU, "            self._event_queue.append(event)\n            return\n", "            return\n", "R14.3"),
    Mutant("replay-before-open", TU, "        if err:\n            self.tunnel_state = TunnelState.CLOSED\n        else:\n            self.tunnel_state = TunnelState.OPEN\n        if self.command_to_reply_to:",
           "        if err:\n            self.tunnel_state = TunnelState.CLOSED\n        if self.command_to_reply_to:", "R14.3"),
    Mutant("queue-not-cleared", TU, "                yield from self.event_to_child(evt)\n            self._event_queue.clear()\n", "                yield from self.event_to_child(evt)\n", "R14.3"),
    Mutant("no-drain-after-handshake", PT, "            yield from self.receive_data(b\"\")\n            return True, None\n", "            return True, None\n", "R14.3"),
    Mutant("handshake-bytes-to-receive-data", TU, "                if self.tunnel_state is TunnelState.ESTABLISHING:\n                    done, err = yield from self.receive_handshake_data(event.data)",
           "                if self.tunnel_state is TunnelState.OPEN:\n                    done, err = yield from self.receive_handshake_data(event.data)", "R14.3"),
]
