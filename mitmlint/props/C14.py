"""C14 - TLS interception is byte-transparent after the handshake (TLSLayer / TunnelLayer against a scripted OpenSSL).

How it is decided.  Nothing is matched syntactically.  A ``TLSLayer`` object is built by *interpreting* the repository's constructors
(``mitmlint/pyint.py``: AST interpreter, generator methods by lazy replay; repository code is never imported or run), its three outside
interfaces are replaced by recording stubs

  * ``self.tls``          - a deterministic model of a pyOpenSSL ``Connection`` (``bio_write`` makes scripted plaintext chunks available,
                            ``recv(n)`` hands them out honouring ``n`` and then raises WantReadError / ZeroReturnError (close_notify, sets
                            RECEIVED_SHUTDOWN) / Error, TLS output produced while reading, writing or handshaking waits in a FIFO for
                            ``bio_read(n)``, ``sendall`` encrypts into records or fails with an alert, ``do_handshake`` follows a script),
  * ``self.child_layer``  - records every event it is handed and answers with scripted commands,
  * the yielded commands  - what the layer hands to the layer below,

and a schedule of events is fed to ``_handle_event`` (the public entry of the layer).  After EVERY event the normalised observations
(events the child received; ``SendData`` bytes for the tunnel connection and commands of the child passed on, in order; wire bytes fed to
OpenSSL; nothing left unread / unsent inside OpenSSL) are compared with a golden reference model of the tunnel semantics written down in
this module (``_Golden``).  Renamed locals / private attributes, extracted or inlined helpers (also generator helpers returning values),
``match`` instead of ``isinstance`` chains, ``contextlib.suppress``, early returns, inverted tests, extra logging / assertions are all
just interpreted, so behaviour-preserving edits cannot change the verdict; an edit that loses, duplicates or reorders bytes or closes does.

  R14.1 post-handshake data path: wire bytes are fed exactly once before reading; all plaintext OpenSSL has is delivered to the child
        exactly once and in order within the same event (multi-chunk reads, chunks larger than the read size, consecutive events);
        close_notify becomes exactly one ConnectionClosed *after* the data; TLS output produced while reading is flushed (all of it, in
        order) before the event ends; the child's SendData is encrypted completely, exactly once, and every record produced is sent in
        order - also when ``sendall`` fails with ZeroReturnError / SysCallError (nothing raised, pending output still flushed).
  R14.2 transport close: forwarded to the child unless close_notify was already delivered (all four shutdown-flag states: SENT_SHUTDOWN
        alone never suppresses it) - the child learns about the peer's close exactly once.
  R14.3 handshake: tunnel bytes go to the handshake while ESTABLISHING; events for the child are queued (nothing delivered) exactly while
        ESTABLISHING without a pending OpenConnection and replayed exactly once, in arrival order, when the handshake completes -
        followed by application data that arrived with the last handshake flight (not stranded); with a pending OpenConnection events
        are delivered directly and the completion is reported; a later re-establishment does not replay old events again.
  R14.4 commands of the child: SendData for the tunnelled connection is encrypted and sent in every tunnel state (the write side stays
        usable after the peer half-closed), everything else (other connections, CloseConnection, Log, unknown commands) is passed on
        unchanged, exactly once and in order relative to the data.
Not decided: OpenSSL's record processing itself (library; modelled by the stub), handshake *failure* paths (C15), DTLS specifics,
OpenConnection initiated by the child (blocking command, needs a reply value).
"""

from __future__ import annotations

import ast
import collections
import copy
import enum
import logging
import struct
import types

from ..core import AnalysisError
from ..pyint import _Break
from ..pyint import _Continue
from ..pyint import _Return
from ..pyint import ClassRef
from ..pyint import Func
from ..pyint import Gen
from ..pyint import Interp
from ..pyint import Raised
from ..pyint import Rec
from ..selftest import Mutant
from ._helpers_B import ceval

PROP = "C14"
REG = {
    "strength": "partial",
    "technique": "bounded semantic interpretation: TLSLayer/TunnelLayer are interpreted from their AST (pyint, generators by lazy replay) against a scripted "
    "OpenSSL model, a recording child layer and a golden reference model; observations are compared after every event of each schedule",
    "claim": "for every enumerated schedule (data events with 0-6 plaintext chunks incl. chunks larger than the read size, WantRead / close_notify / error "
    "endings, TLS output produced while reading, transport close in all four shutdown states, child replies, failing sendall, handshake with queued events, "
    "early data, pending OpenConnection, re-establishment) the child receives exactly the decrypted bytes once and in order with the close after the data, "
    "every byte the child sends is encrypted once and all produced records leave in order, queued events are replayed once in order.",
    "note": "pyOpenSSL behaviour is the stub's (trusted model). Bounded: schedules of at most five events, at most six chunks per read. Handshake failure paths "
    "are not part of this property's check (C15).",
}
PT = "mitmproxy/proxy/layers/tls.py"
TU = "mitmproxy/proxy/tunnel.py"
CMDS = "mitmproxy/proxy/commands.py"
EVTS = "mitmproxy/proxy/events.py"
CONN = "mitmproxy/connection.py"

RS = 3  # the model's TLS record payload size: sendall(b"hello") produces the records <hel> <lo>


# ---------------------------------------------------------------------------------------------------
# the OpenSSL model (state lives in a plain dict so that pyint's generator replay can snapshot / restore it)


class Error(Exception):
    pass


class WantReadError(Error):
    pass


class WantWriteError(Error):
    pass


class ZeroReturnError(Error):
    pass


class SysCallError(Error):
    pass


_SSL_EXC = {c.__name__: c for c in (Error, WantReadError, WantWriteError, ZeroReturnError, SysCallError)}
RECEIVED_SHUTDOWN, SENT_SHUTDOWN = 2, 1


def _ssl_world(shutdown=0, hs=(), sendmode="ok"):
    return {
        "fed": [],  # wire bytes handed to bio_write, in order
        "react": [],  # per future bio_write: (plaintext chunks, ending, records produced when the read loop reaches the ending)
        "plain": [],  # decrypted chunks waiting for recv()
        "term": "want",  # what recv() raises once `plain` is empty: want | zero | error
        "late": [],  # TLS records OpenSSL produces when recv() hits the ending (KeyUpdate answer, alert, ...)
        "out": [],  # TLS records waiting for bio_read()
        "shutdown": shutdown,
        "hs": [list(x) for x in hs],  # do_handshake script: ["want", flight] | ["ok", flight, early plaintext chunks]
        "handshaking": bool(hs),
        "sendmode": sendmode,  # ok | zero | syscall
        "calls": 0,
        "child": [],  # what the child layer saw during the current event
    }


def _ssl_bio_write(w, data):
    w["calls"] += 1
    data = bytes(data)
    if not data:
        raise Error("bio_write of an empty buffer")  # what pyOpenSSL does
    w["fed"].append(data)
    if w["react"] and not w["handshaking"]:
        chunks, term, late = w["react"].pop(0)
        w["plain"].extend(chunks)
        w["term"] = term
        w["late"] = list(w["late"]) + list(late)
    return len(data)


def _ssl_recv(w, n, flags=None):
    w["calls"] += 1
    if not isinstance(n, int) or isinstance(n, bool) or n <= 0:
        raise ValueError("recv: bufsiz must be a positive integer")
    if w["handshaking"]:
        raise WantReadError()
    if w["plain"]:
        c = w["plain"][0]
        if len(c) > n:
            w["plain"][0] = c[n:]
            return c[:n]
        w["plain"].pop(0)
        return c
    w["out"].extend(w["late"])
    w["late"] = []
    t = w["term"]
    if t == "zero":
        w["shutdown"] |= RECEIVED_SHUTDOWN
        raise ZeroReturnError()
    if t == "error":
        w["term"] = "want"
        raise Error([("SSL routines", "", "tlsv1 alert unknown ca")])
    raise WantReadError()


def _ssl_bio_read(w, n):
    w["calls"] += 1
    if not isinstance(n, int) or isinstance(n, bool) or n <= 0:
        raise ValueError("bio_read: bufsiz must be a positive integer")
    if not w["out"]:
        raise WantReadError()
    c = w["out"][0]
    if len(c) > n:
        w["out"][0] = c[n:]
        return c[:n]
    w["out"].pop(0)
    return c


def _ssl_sendall(w, data, flags=0):
    w["calls"] += 1
    data = bytes(data)
    if w["sendmode"] == "ok":
        for i in range(0, len(data), RS):
            w["out"].append(b"<" + data[i : i + RS] + b">")
        return len(data)
    w["out"].append(b"!alert!")
    raise (ZeroReturnError if w["sendmode"] == "zero" else SysCallError)()


def _ssl_get_shutdown(w):
    return w["shutdown"]


def _ssl_do_handshake(w):
    w["calls"] += 1
    if not w["hs"]:
        w["handshaking"] = False
        return None  # already complete: a no-op
    step = w["hs"].pop(0)
    w["out"].extend(step[1])
    if step[0] == "want":
        raise WantReadError()
    w["handshaking"] = False
    w["plain"].extend(step[2])
    w["term"] = "want"
    return None


# ---------------------------------------------------------------------------------------------------
# golden reference model of the tunnel (what the property demands, in terms of the same OpenSSL model)

BIG = 1 << 20


class GoldenTunnel:
    """what tunnel.TunnelLayer itself promises (a transparent tunnel whose handshake completes with the first tunnel bytes): events for the
    child are queued while ESTABLISHING unless an OpenConnection is pending, replayed once in order when the handshake completes; SendData
    of the child for the inner connection goes to the tunnel connection, everything else is passed on."""

    def __init__(self, w, state, pending, policy, tunnel="conn"):
        self.w, self.state, self.pending, self.policy, self.tunnel = w, state, pending, policy, tunnel
        self.queue = []
        self.child = []
        self.parent = []

    # -- the protocol inside the tunnel (overridden for TLS)
    def handshake(self, data):
        return True

    def receive_data(self, data):
        self.to_child(("data", "conn", data))

    def send_data(self, data):
        self.parent.append(("send", self.tunnel, data))

    def receive_close(self):
        self.to_child(("close", "conn"))

    # -- the tunnel
    def to_child(self, ev):
        if self.state == "E" and self.pending is None:
            self.queue.append(ev)
            return
        self.child.append(ev)
        for c in self.policy.get(ev[0], ()):
            if c[0] == "send":
                self.send_data(c[1])
            elif c[0] == "closecmd":
                self.parent.append(("closeconn", self.tunnel))
            else:
                self.parent.append(("pass", c[0]))

    def step(self, st):
        self.child, self.parent = [], []
        if st[0] == "other":
            self.to_child(st[1])
        elif st[0] == "wire":
            if self.state == "E":
                if self.handshake(st[1]):
                    self.state = "O"
                    if self.pending is not None:
                        p, self.pending = self.pending, None
                        self.to_child(("occ", p, None))
                    else:
                        q, self.queue = self.queue, []
                        for e in q:
                            self.to_child(e)
            else:
                self.receive_data(st[1])
        elif st[0] == "close":
            if self.state == "O":
                self.receive_close()
            self.state = "C"
        elif st[0] == "reestablish":
            self.state = "E"
        return _norm(self.child), _norm(self.parent)


class _Golden(GoldenTunnel):
    """the TLS tunnel, in terms of the OpenSSL model"""

    def interact(self):
        while True:
            try:
                d = _ssl_bio_read(self.w, BIG)
            except WantReadError:
                return
            self.parent.append(("send", self.tunnel, d))

    def handshake(self, data):
        if data:
            _ssl_bio_write(self.w, data)
        try:
            _ssl_do_handshake(self.w)
        except WantReadError:
            self.interact()
            return False
        self.receive_data(b"")  # application data that came with the last flight
        return True

    def receive_data(self, data):
        if data:
            _ssl_bio_write(self.w, data)
        buf, close = b"", False
        while True:
            try:
                buf += _ssl_recv(self.w, BIG)
            except WantReadError:
                break
            except ZeroReturnError:
                close = True
                break
            except Error:
                break
        self.interact()
        if buf:
            self.to_child(("data", "conn", buf))
        if close:
            self.to_child(("close", "conn"))

    def send_data(self, data):
        try:
            _ssl_sendall(self.w, data)
        except (ZeroReturnError, SysCallError):
            pass
        self.interact()

    def receive_close(self):
        if not (_ssl_get_shutdown(self.w) & RECEIVED_SHUTDOWN):
            self.to_child(("close", "conn"))


def _norm(seq):
    """merge adjacent byte deliveries for the same connection (how the bytes are cut into events / commands is not part of the property)"""
    out = []
    for x in seq:
        if out and x[0] in ("data", "send") and out[-1][0] == x[0] and out[-1][:-1] == x[:-1]:
            out[-1] = out[-1][:-1] + (out[-1][-1] + x[-1],)
        else:
            out.append(tuple(x))
    return out


# ---------------------------------------------------------------------------------------------------
# the interpreter


class _ConsumerExit(Exception):
    """the body of a ``for`` loop over a generator left the loop (break / return / exception): unwinds the producer like a closed generator"""

    def __init__(self, token, exc):
        super().__init__("consumer left the loop")
        self.token, self.exc = token, exc


class _TInterp(Interp):
    """pyint + (a) generators with real producer / consumer interleaving and ``yield from`` values (below), (b) the exception hierarchy of
    the OpenSSL model, (c) rule-supplied stubs may receive records, (d) classes whose constructor is outside the interpreter's subset become
    opaque records, (e) the members of ``connection.ConnectionState`` are a real ``enum.Flag``."""

    flag = None
    construct = frozenset()
    _kinds: dict = {}
    _props: dict = {}

    # -- generators.  pyint runs a generator by replaying it from the start for every value and restoring the state its arguments had -
    #    which also undoes what the *consumer* did in between (a ``for`` loop over a generator whose body talks to OpenSSL or the child), and
    #    it gives ``yield from`` no value.  Here a generator body is never suspended; instead the consumer is run from inside the producer's
    #    ``yield`` (internal iteration), which produces exactly the order of effects of real generators for the consumers that occur:
    #      * the harness itself (pulls every command, does nothing in between): a yield appends to the output,
    #      * ``yield from g()``: g's body runs in place, its yields go where the enclosing generator's yields go, its return value is the value,
    #      * ``for x in g(): body``: g's body runs, every yield binds x and runs ``body`` (break / return / an exception in the body leave
    #        through g's ``finally`` blocks like a closed generator, without being seen by g's ``except`` clauses),
    #      * every other consumer (list(), comprehension, unpacking, iter()/next()): the generator is run to its end first (eager).
    _handlers: list = []

    def run_direct(self, g):
        if self._gen_targets or self._handlers:
            raise AnalysisError("C14 harness: nested top-level run")
        out = []
        self._handlers = [out.append]
        try:
            self._inline(g)
            return out
        finally:
            self._handlers = []

    def _fresh(self, v):
        return isinstance(v, Gen) and self._handlers and not self._gen_targets and v.k == 0 and not v.done

    def _inline(self, g):
        g.done = True
        try:
            self.block(g.node.body, dict(g.env), g.f.mod, g.depth)
        except _Return as r:
            return r.value
        return None

    def do_yield(self, value):
        if not self._gen_targets and self._handlers:
            h = self._handlers.pop()  # the consumer runs in its own context
            try:
                h(value)
            finally:
                self._handlers.append(h)
            return None
        return Interp.do_yield(self, value)

    def iterate(self, v, node):
        if self._fresh(v):
            out = []
            self._handlers.append(out.append)
            try:
                self._inline(v)
            finally:
                self._handlers.pop()
            return out
        return Interp.iterate(self, v, node)

    def loop(self, st, env, mod, depth):
        if not isinstance(st, ast.For):
            return Interp.loop(self, st, env, mod, depth)
        itv = self.ev(st.iter, env, mod, depth)
        broke = False
        if self._fresh(itv):
            token = object()

            def body(value):
                self.tick()
                self.assign(st.target, value, env, mod, depth)
                try:
                    self.block(st.body, env, mod, depth)
                except _Continue:
                    return
                except (_Break, _Return, Raised) as ex:
                    raise _ConsumerExit(token, ex)

            self._handlers.append(body)
            try:
                try:
                    self._inline(itv)
                finally:
                    self._handlers.pop()
            except _ConsumerExit as ce:
                if ce.token is not token:
                    raise
                if not isinstance(ce.exc, _Break):
                    raise ce.exc
                broke = True
        else:
            for x in self.iterate(itv, st.iter):
                self.tick()
                self.assign(st.target, x, env, mod, depth)
                try:
                    self.block(st.body, env, mod, depth)
                except _Break:
                    broke = True
                    break
                except _Continue:
                    continue
        if not broke:
            self.block(st.orelse, env, mod, depth)

    def ev(self, e, env, mod, depth):
        if isinstance(e, ast.YieldFrom):
            v = self.ev(e.value, env, mod, depth)
            if self._fresh(v):
                return self._inline(v)
            if isinstance(v, Gen):
                raise AnalysisError("C14 harness: `yield from` of a partially consumed generator (not modelled)")
            for x in self.iterate(v, e.value):
                self.do_yield(x)
            return None
        return Interp.ev(self, e, env, mod, depth)

    # -- speed (same semantics as pyint, computed once): no source rendering per call, generator-ness cached per function
    def ev_call(self, e, env, mod, depth):
        f = self.ev(e.func, env, mod, depth)
        args = self.elts(e.args, env, mod, depth)
        kwargs = {}
        for k in e.keywords:
            if k.arg is None:
                kwargs.update(self.ev(k.value, env, mod, depth))
            else:
                kwargs[k.arg] = self.ev(k.value, env, mod, depth)
        if isinstance(f, tuple) and f and f[0] in ("$builtin", "$dictmethod", "$typing", "$exc"):
            if f[0] == "$builtin":
                return self.builtin(f[1], args, kwargs, e, env, mod, depth)
            if f[0] == "$dictmethod":
                return self.dictmethod(f[1], f[2], args, kwargs)
            if f[0] == "$exc":
                return f"<exc:{f[1]}>"
            return Interp.ev_call(self, e, env, mod, depth)  # typing helpers: arguments are pure
        return self.apply(f, args, kwargs, depth, e)

    def apply(self, f, args, kwargs, depth, node=None):
        if isinstance(f, Func):
            self.calls += 1
            if depth + 1 > self.max_depth:
                raise AnalysisError(f"pyint: call depth {self.max_depth} exceeded")
            return self.call_func(f, args, kwargs, depth + 1)
        if isinstance(f, ClassRef):
            self.calls += 1
            return self.instantiate(f, args, kwargs, depth, "?")
        if not isinstance(f, Rec) and callable(f):
            self.calls += 1
            return self.native_call(f, args, kwargs, "?")
        return Interp.apply(self, f, args, kwargs, depth, node)

    def call_func(self, f, args, kwargs, depth):
        node = f.node
        kind = self._kinds.get(id(node))
        if kind is None:
            kind = "plain"
            if isinstance(node, ast.Lambda) or isinstance(node, ast.AsyncFunctionDef):
                kind = "other"
            else:
                for n in ast.walk(node):
                    if isinstance(n, ast.Await) and self._owner(n, node):
                        kind = "other"
                        break
                    if isinstance(n, (ast.Yield, ast.YieldFrom)) and self._owner(n, node):
                        kind = "gen"
            self._kinds[id(node)] = kind
        if kind == "other":
            return Interp.call_func(self, f, args, kwargs, depth)
        # parameter binding exactly as pyint.call_func
        a = node.args
        env = {"$closure": f.closure} if f.closure else {}
        params = [p.arg for p in a.posonlyargs + a.args]
        args = list(args)
        if f.bound is not None and params and params[0] in ("self", "cls"):
            args = [f.bound] + args
            env["$self"] = f.bound
            env["$fn"] = node
        for p, v in zip(params, args):
            env[p] = v
        extra = args[len(params):]
        if a.vararg:
            env[a.vararg.arg] = tuple(extra)
        elif extra:
            raise Raised("TypeError", "too many positional arguments")
        dnames = params[len(params) - len(a.defaults):]
        for p, d in zip(dnames, a.defaults):
            if p not in env and p not in kwargs:
                env[p] = self.ev(d, {}, f.mod, depth)
        for p, d in zip(a.kwonlyargs, a.kw_defaults):
            if p.arg not in kwargs and d is not None:
                env[p.arg] = self.ev(d, {}, f.mod, depth)
        known = set(params) | {p.arg for p in a.kwonlyargs}
        rest = {}
        for k, v in kwargs.items():
            if k in known:
                env[k] = v
            else:
                rest[k] = v
        if a.kwarg:
            env[a.kwarg.arg] = rest
        elif rest:
            raise Raised("TypeError", f"unexpected keyword {list(rest)}")
        for p in params + [p.arg for p in a.kwonlyargs]:
            if p not in env:
                raise Raised("TypeError", f"missing argument {p}")
        if kind == "gen":
            return Gen(self, f, node, env, depth)
        try:
            self.block(node.body, env, f.mod, depth)
        except _Return as r:
            return r.value
        return None

    def find_property(self, rec, attr, kind="getter"):
        if rec._impl is None:
            return None
        key = (rec._impl, attr, kind)
        if key not in self._props:
            self._props[key] = Interp.find_property(self, rec, attr, kind)
        return self._props[key]

    def exc_isa(self, name, handler, mod):
        c = _SSL_EXC.get(name)
        if c is not None:
            return handler in {k.__name__ for k in c.__mro__}
        return Interp.exc_isa(self, name, handler, mod)

    def native_call(self, f, args, kwargs, where):
        if f in (str, repr) and len(args) == 1 and not kwargs and isinstance(args[0], Rec):
            return f"<{args[0]._name}>"  # only ever ends up in log messages
        if getattr(f, "_c14_stub", False):
            try:
                return f(*args, **kwargs)
            except AnalysisError:
                raise
            except Exception as e:
                raise Raised(type(e).__name__, str(e))
        return Interp.native_call(self, f, args, kwargs, where)

    def instantiate(self, c, args, kwargs, depth, where):
        if c.mod.rel in (CMDS, EVTS) or (c.mod.rel, c.node.name) in self.construct:
            return Interp.instantiate(self, c, args, kwargs, depth, where)
        # anything else (other layers, hook payloads, helper records): constructed like any class if its constructor is within the
        # interpreter's subset, otherwise an opaque record - using such an object's state later is then refused (AnalysisError)
        try:
            return Interp.instantiate(self, c, args, kwargs, depth, where)
        except AnalysisError:
            return Rec(c.node.name, _impl=(c.mod.rel, getattr(c.node, "_qual", c.node.name)), _name=f"opaque:{c.node.name}", opaque_args=tuple(args))

    def class_attr(self, cref, attr, depth):
        if self.flag is not None and cref.mod.rel == CONN and cref.node.name == "ConnectionState" and attr in self.flag.__members__:
            return self.flag[attr]
        return Interp.class_attr(self, cref, attr, depth)


class _FastModel:
    """Model proxy caching the class-hierarchy queries (the tree does not change during a run)"""

    def __init__(self, m):
        self._m, self._mro, self._meth, self._dotted = m, {}, {}, {}

    def __getattr__(self, k):
        return getattr(self._m, k)

    def mro(self, rel, qual):
        k = (rel, qual)
        if k not in self._mro:
            self._mro[k] = self._m.mro(rel, qual)
        return self._mro[k]

    def method(self, rel, cls_qual, name):
        k = (rel, cls_qual, name)
        if k not in self._meth:
            r = None
            for m, c in self.mro(rel, cls_qual):
                for st in c.body:
                    if isinstance(st, (ast.FunctionDef, ast.AsyncFunctionDef)) and st.name == name:
                        r = (m, st)
                        break
                if r:
                    break
            self._meth[k] = r
        return self._meth[k]

    def module_by_dotted(self, dotted):
        if dotted not in self._dotted:
            self._dotted[dotted] = self._m.module_by_dotted(dotted)
        return self._dotted[dotted]


def _stub(fn):
    fn._c14_stub = True
    return fn


def _connection_state(model):
    """connection.ConnectionState as a real enum.Flag (members evaluated from the class body)"""
    cls = model.cls(CONN, "ConnectionState")
    members = {}
    for st in cls.body:
        if isinstance(st, ast.Assign) and len(st.targets) == 1 and isinstance(st.targets[0], ast.Name):
            members[st.targets[0].id] = ceval(st.value, dict(members), None, "connection.ConnectionState")
    if not {"CLOSED", "CAN_READ", "CAN_WRITE", "OPEN"} <= set(members) or not all(isinstance(v, int) for v in members.values()):
        raise AnalysisError("connection.ConnectionState: members CLOSED / CAN_READ / CAN_WRITE / OPEN with integer values not found")
    return enum.Flag("ConnectionState", members)


class _Env:
    """what every scenario shares: parsed classes of the protocol vocabulary"""

    def __init__(self, ctx, layer=(PT, "TLSLayer")):
        m = _FastModel(ctx.model)
        self.model = m
        self.kinds, self.props = {}, {}
        self.flag = _connection_state(m)
        self.layer = layer
        self.laymod, self.tunmod = m.module(layer[0]), m.module(TU)
        self.cmdmod, self.evmod = m.module(CMDS), m.module(EVTS)
        self.layer_cls = m.cls(*layer)
        self.construct = frozenset((mm.rel, cc.name) for mm, cc in m.mro(*layer))
        ctx.require((TU, "TunnelLayer") in self.construct, f"{layer[1]} no longer derives from tunnel.TunnelLayer")
        self.state_cls = m.cls(TU, "TunnelState")
        for n in ("SendData", "CloseConnection", "Log", "ConnectionCommand"):
            m.cls(CMDS, n)
        for n in ("DataReceived", "ConnectionClosed", "Event"):
            m.cls(EVTS, n)
        self.trusted = {
            "collections": collections, "enum": enum, "struct": struct, "logging": _Logging(), "time": _Clock(),
            "OpenSSL": types.SimpleNamespace(SSL=_SSLNamespace()),
        }

    def connection(self, it, cls_name, name, **attrs):
        """a record bound to connection.Client / connection.Server: every declared field exists (None unless given), properties and methods
        are interpreted from the class"""
        fields = {}
        for _, cc in self.model.mro(CONN, cls_name):
            for st in cc.body:
                if isinstance(st, ast.AnnAssign) and isinstance(st.target, ast.Name):
                    fields.setdefault(st.target.id, None)
        fields.update(state=self.flag.OPEN, tls=False, transport_protocol="tcp", certificate_list=[], alpn_offers=[], cipher_list=[], id=name, peername=(name, 1), sockname=(name, 2))
        fields.update(attrs)
        return Rec(cls_name, _bases=tuple(cc.name for _, cc in self.model.mro(CONN, cls_name)[1:]), _impl=(CONN, cls_name), _name=name, **fields)


class _SSLNamespace:
    """OpenSSL.SSL as far as the model goes; anything else is refused (never guessed)"""

    RECEIVED_SHUTDOWN, SENT_SHUTDOWN = RECEIVED_SHUTDOWN, SENT_SHUTDOWN
    Error, WantReadError, WantWriteError, ZeroReturnError, SysCallError = Error, WantReadError, WantWriteError, ZeroReturnError, SysCallError

    def __getattr__(self, name):
        raise AnalysisError(f"OpenSSL.SSL.{name}: not part of the OpenSSL model of C14 (shape not modelled)")


class _Clock:
    def __getattr__(self, name):
        if name.startswith("__"):
            raise AttributeError(name)
        return _stub(lambda *a, **k: 0.0)


class _NullLogger:
    def __getattr__(self, name):
        if name.startswith("__"):
            raise AttributeError(name)
        return _stub(lambda *a, **k: None)


class _Logging:
    """the logging module: level constants; loggers swallow everything (log output is not part of the property)"""

    def __init__(self):
        for n in ("CRITICAL", "FATAL", "ERROR", "WARNING", "WARN", "INFO", "DEBUG", "NOTSET"):
            setattr(self, n, getattr(logging, n))
        self.getLogger = _stub(lambda *a, **k: _NullLogger())
        self.getLevelName = _stub(lambda lv: logging.getLevelName(lv))
        for n in ("debug", "info", "warning", "error", "critical", "exception", "log"):
            setattr(self, n, _stub(lambda *a, **k: None))


class _World:
    """one tunnel layer under test (TLSLayer, or the plain tunnel.TunnelLayer with a tunnel connection of its own) with its stubs"""

    def __init__(self, env, w, state, pending, policy, side="client"):
        self.env, self.w, self.policy = env, w, policy
        it = self.it = _TInterp(env.model, trusted_modules=env.trusted, max_steps=600000)
        it.flag, it.construct, it._kinds, it._props = env.flag, env.construct, env.kinds, env.props
        self.conn = env.connection(it, "Client" if side == "client" else "Server", "conn")
        self.other = env.connection(it, "Server" if side == "client" else "Client", "other")
        client, server = (self.conn, self.other) if side == "client" else (self.other, self.conn)
        context = Rec("Context", _name="context", client=client, server=server, layers=[], options=Rec("Options", _name="options", proxy_debug=False))
        self.plain = env.layer == (TU, "TunnelLayer")
        if self.plain:
            self.tunnel = env.connection(it, "Server", "tunnel")
            self.layer = it.instantiate(ClassRef(env.laymod, env.layer_cls), [context, self.tunnel, self.conn], {}, 0, "harness")
        else:
            self.tunnel = self.conn
            self.layer = it.instantiate(ClassRef(env.laymod, env.layer_cls), [context, self.conn], {}, 0, "harness")
            tls = Rec("SSLConnection", _name="tls", _w=w)
            for name, fn in (("bio_write", _ssl_bio_write), ("recv", _ssl_recv), ("bio_read", _ssl_bio_read), ("sendall", _ssl_sendall), ("get_shutdown", _ssl_get_shutdown),
                             ("do_handshake", _ssl_do_handshake)):
                object.__setattr__(tls, name, _stub(lambda *a, _f=fn, **k: _f(w, *a, **k)))
            for name, val in (("get_peer_cert_chain", []), ("get_peer_certificate", None), ("get_alpn_proto_negotiated", b"h2"), ("get_cipher_name", "TLS_AES_128_GCM_SHA256"),
                              ("get_protocol_version_name", "TLSv1.3"), ("get_verified_chain", []), ("get_servername", None)):
                object.__setattr__(tls, name, _stub(lambda *a, _v=val: copy.copy(_v)))
            object.__setattr__(self.layer, "tls", tls)
        # commands the child may answer with
        sd, cc, lg = (ClassRef(env.cmdmod, env.model.cls(CMDS, n)) for n in ("SendData", "CloseConnection", "Log"))
        self.cmds = {}
        for key in sorted({c for cs in policy.values() for c in cs}):
            if key[0] == "send":
                self.cmds[key] = it.instantiate(sd, [self.conn, key[1]], {}, 0, "harness")
            elif key[0] == "sendother":
                self.cmds[key] = it.instantiate(sd, [self.other, b"zz"], {}, 0, "harness")
            elif key[0] == "closecmd":
                self.cmds[key] = it.instantiate(cc, [self.conn], {}, 0, "harness")
            elif key[0] == "log":
                self.cmds[key] = it.instantiate(lg, ["a message of the child"], {}, 0, "harness")
            else:
                self.cmds[key] = Rec("ForeignCommand", _bases=("Command",), _name="foreign", blocking=False)
        self.tags = {id(v): k for k, v in self.cmds.items()}
        cmds, describe = self.cmds, self.describe_event

        def handle_event(event):
            d = describe(event)
            w["child"].append(d)
            return [cmds[k] for k in policy.get(d[0], ())]

        child = Rec("ChildLayer", _bases=("Layer",), _name="child", _w=w, _cmds=self.cmds, handle_event=_stub(handle_event))
        object.__setattr__(self.layer, "child_layer", child)
        self.set_state(state)
        if pending is not None:
            self.pending_cmd = Rec("OpenConnection", _bases=("ConnectionCommand", "Command"), _name=pending, connection=self.conn, blocking=True)
            object.__setattr__(self.layer, "command_to_reply_to", self.pending_cmd)

    def set_state(self, s):
        name = {"E": "ESTABLISHING", "O": "OPEN", "C": "CLOSED", "I": "INACTIVE"}[s]
        object.__setattr__(self.layer, "tunnel_state", self.it.class_attr(ClassRef(self.env.tunmod, self.env.state_cls), name, 0))

    @staticmethod
    def _bytes(d):
        return bytes(d) if isinstance(d, (bytes, bytearray, memoryview)) else repr(d)

    @classmethod
    def describe_event(cls, e):
        if isinstance(e, Rec):
            if e._cls == "DataReceived":
                return ("data", getattr(e.__dict__.get("connection"), "_name", "?"), cls._bytes(e.__dict__.get("data")))
            if e._cls == "ConnectionClosed":
                return ("close", getattr(e.__dict__.get("connection"), "_name", "?"))
            if e._cls == "OpenConnectionCompleted":
                return ("occ", getattr(e.__dict__.get("command"), "_name", "?"), e.__dict__.get("reply"))
            return ("ev", e._name)
        return ("ev", repr(e))

    def describe_command(self, c):
        if isinstance(c, Rec) and c.isa("CloseConnection"):  # forwarded as it is or re-issued for the tunnel connection: the same to the layer below
            return ("closeconn", getattr(c.__dict__.get("connection"), "_name", "?"))
        if id(c) in self.tags:
            return ("pass", self.tags[id(c)][0])
        if isinstance(c, Rec) and c._cls == "SendData":
            return ("send", getattr(c.__dict__.get("connection"), "_name", "?"), self._bytes(c.__dict__.get("data")))
        return None  # Log commands, hooks, the layer's own CloseConnection: not part of the byte stream

    def event(self, st):
        it, env = self.it, self.env
        if st[0] == "wire":
            return it.instantiate(ClassRef(env.evmod, env.model.cls(EVTS, "DataReceived")), [self.tunnel, st[1]], {}, 0, "harness")
        if st[0] == "close":
            return it.instantiate(ClassRef(env.evmod, env.model.cls(EVTS, "ConnectionClosed")), [self.tunnel], {}, 0, "harness")
        d = st[1]
        if d[0] == "data":
            return it.instantiate(ClassRef(env.evmod, env.model.cls(EVTS, "DataReceived")), [self.other, d[2]], {}, 0, "harness")
        return Rec("MessageInjected", _bases=("Event",), _name=d[1])

    def step(self, st):
        """-> (child-bound, parent-bound, crash)"""
        self.w["child"] = []
        if st[0] == "reestablish":
            self.set_state("E")
            return [], [], None
        if st[0] == "wire" and len(st) > 2:
            self.w["react"].append(st[2])
        if st[0] == "close":  # what the proxy core does before it reports the close of a TCP connection (half-close)
            object.__setattr__(self.tunnel, "state", self.tunnel.state & ~self.env.flag.CAN_READ)
        out, crash = [], None
        try:
            gen = self.it.method(self.layer, "_handle_event", self.event(st))
            if not isinstance(gen, Gen):
                raise AnalysisError("TunnelLayer._handle_event is not a generator function (shape not modelled)")
            out = self.it.run_direct(gen)
        except Raised as r:
            crash = f"{r.name}: {r.msg}"[:120]
        parent = [d for d in (self.describe_command(c) for c in out) if d is not None]
        return _norm(self.w["child"]), _norm(parent), crash


def run_schedule(env, golden_cls, wkw, state, pending, policy, steps, side="client", aspects=("crash", "child", "parent", "fed")):
    """Interpret one schedule against the layer class of ``env`` and compare with ``golden_cls`` after every event.
    -> ([(step index, step, golden tunnel state before the step, aspect, text)], number of events compared).  Aspects: crash | child | parent | fed.
    Comparison stops at the first event that diverges in one of ``aspects`` (later events of a diverged run carry no information)."""
    w = _ssl_world(**wkw)
    gw = copy.deepcopy(w)
    world = _World(env, w, state, pending, policy, side=side)
    gold = golden_cls(gw, state, pending, policy, tunnel=world.tunnel._name)
    problems, n = [], 0
    for k, st in enumerate(steps):
        gstate = gold.state
        if st[0] == "wire" and len(st) > 2:
            gw["react"].append(copy.deepcopy(st[2]))
        want_child, want_parent = gold.step(st)
        child, parent, crash = world.step(st)
        if st[0] == "reestablish":
            continue
        n += 1
        if crash:
            problems.append((k, st, gstate, "crash", f"raises {crash}"))
        else:
            if child != want_child:
                problems.append((k, st, gstate, "child", f"the child layer received {_short(child)}, the reference {_short(want_child)}"))
            elif parent != want_parent:  # (after a wrong delivery the child's answers differ as a consequence)
                problems.append((k, st, gstate, "parent", f"commands handed down are {_short(parent)}, the reference {_short(want_parent)}"))
            if w["fed"] != gw["fed"]:
                problems.append((k, st, gstate, "fed", f"wire bytes fed to OpenSSL are {_short(w['fed'])}, the reference {_short(gw['fed'])}"))
            elif not problems and (w["out"] or w["plain"] != gw["plain"]):
                problems.append((k, st, gstate, "parent" if w["out"] else "child", f"OpenSSL still holds unsent records {_short(w['out'])} / unread plaintext {_short(w['plain'])} after the event"))
        problems = [p for p in problems if p[3] in aspects]
        if problems:
            break
    return problems, n


def _short(x):
    s = repr(x)
    return s if len(s) <= 150 else s[:70] + " ... " + s[-70:]


# ---------------------------------------------------------------------------------------------------
# schedules

SILENT = {}
A, AB, BIGC = b"abc", b"ab", bytes(range(256)) * 300  # 76800 bytes: more than one recv(65535) can return

DATA = [  # (plaintext chunks, ending, TLS output produced at the ending)
    ((), "want", ()),
    ((A,), "want", ()),
    ((AB, b"cde"), "want", (b"K1", b"K2")),
    ((b"a", b"b", b"c"), "want", (b"K",)),
    ((BIGC,), "want", ()),
    ((b"1", b"2", b"3", b"4", b"5", b"6"), "want", (b"K1", b"K2", b"K3")),
    ((), "zero", ()),
    ((AB,), "zero", (b"N",)),
    ((b"a", b"bc", b"d"), "zero", ()),
    ((), "error", ()),
    ((AB, b"c"), "error", (b"F",)),
]


def _wire(i, d):
    return ("wire", b"W%d" % i, (list(d[0]), d[1], list(d[2])))


def _schedules(tier):
    """-> [(name, topic = (rule, label) the schedule is evidence for, world kwargs, start state, pending, policy, steps)]"""
    out = []
    ev1, ev2, ev3, ev4 = ("ev", "e1"), ("data", "other", b"x"), ("ev", "e3"), ("ev", "e4")
    # established tunnel, the read path (child silent)
    t = ("R14.1", "read path, one event: 0-6 plaintext chunks (one larger than the read size), ending WantRead / close_notify / SSL.Error, TLS output produced while reading")
    for i, d in enumerate(DATA):
        out.append((f"read[{i}]", t, {}, "O", None, SILENT, [_wire(0, d)]))
    t = ("R14.1", "read path, consecutive events: bytes stay in order across events")
    pairs = [(1, 2), (2, 7), (0, 1), (3, 8), (9, 1), (10, 6), (4, 7), (5, 2)] if tier == "quick" else [(a, b) for a in (0, 1, 2, 3, 4, 5, 9, 10) for b in range(len(DATA))]
    for a, b in pairs:
        out.append((f"read[{a}],read[{b}]", t, {}, "O", None, SILENT, [_wire(0, DATA[a]), _wire(1, DATA[b])]))
    # transport close in the four shutdown states; afterwards the child still gets events for other connections
    for sent in (0, SENT_SHUTDOWN):
        t = ("R14.2", f"transport close with SENT_SHUTDOWN={'set' if sent else 'clear'}, before / after close_notify")
        for d in (None, DATA[1], DATA[6], DATA[7], DATA[8]):
            steps = ([_wire(0, d)] if d else []) + [("close",), ("other", ev1)]
            out.append((f"close sent_shutdown={sent} after {'nothing' if d is None else d[1]}", t, {"shutdown": sent}, "O", None, SILENT, steps))
    # the write path: the child answers
    t = ("R14.1", "write path: the child answers with SendData; sendall succeeds / fails with ZeroReturnError / SysCallError")
    reply = {"data": (("send", b"hello!!"),)}
    for mode in ("ok", "zero", "syscall"):
        out.append((f"reply sendall={mode}", t, {"sendmode": mode}, "O", None, reply, [_wire(0, DATA[2]), _wire(1, DATA[1])]))
    out.append(("reply to close_notify", t, {}, "O", None, {"data": (("send", b"ok"),), "close": (("send", b"bye"), ("closecmd",))}, [_wire(0, DATA[7]), ("close",)]))
    # commands of the child in every tunnel state
    mixed = {"ev": (("log",), ("send", b"late"), ("sendother",), ("foreign",), ("send", b"x"), ("closecmd",)), "data": (("sendother",), ("send", b"pong"), ("log",)),
             "close": (("send", b"bye"), ("foreign",))}
    out.append(("child commands, tunnel open", ("R14.4", "commands of the child while the tunnel is OPEN"), {}, "O", None, mixed, [("other", ev1), _wire(0, DATA[1]), ("other", ev2)]))
    out.append(("child commands after the peer closed", ("R14.4", "commands of the child after the peer's transport close (half-closed, still writable)"), {}, "O", None, mixed,
                [_wire(0, DATA[1]), ("close",), ("other", ev1), ("other", ev2)]))
    out.append(("child commands after close_notify + close", ("R14.4", "commands of the child after close_notify and transport close"), {}, "O", None, mixed,
                [_wire(0, DATA[7]), ("close",), ("other", ev3)]))
    out.append(("child commands, tunnel closed from the start", ("R14.4", "commands of the child with tunnel_state CLOSED"), {}, "C", None, mixed, [("other", ev1)]))
    # handshake
    for early in ((), (b"early",), (b"ea", b"rly")):
        for two_flights in (True, False):
            hs = ([["want", [b"H1"]]] if two_flights else []) + [["ok", [b"H2", b"H3"], list(early)]]
            steps = [("other", ev1), ("other", ev2)] + ([("wire", b"S1"), ("other", ev3)] if two_flights else []) + [("wire", b"S2"), ("other", ev4), _wire(1, DATA[2])]
            out.append((f"handshake early={len(early)} flights={1 + two_flights}", ("R14.3", "handshake in one / two flights, events queued meanwhile, with / without early application data"),
                        {"hs": hs}, "E", None, SILENT, steps))
            out.append((f"handshake pending OpenConnection early={len(early)} flights={1 + two_flights}", ("R14.3", "handshake on behalf of a pending OpenConnection: direct delivery, completion reported"),
                        {"hs": hs}, "E", "open-cmd", SILENT, steps))
    hs = [["ok", [b"H"], [b"early"]]]
    out.append(("handshake, child answers the replayed events", ("R14.3", "the child answers the replayed events (sent through the fresh tunnel)"), {"hs": hs}, "E", None,
                {"ev": (("send", b"hi"),), "data": (("send", b"yo"),)}, [("other", ev1), ("other", ev2), ("wire", b"S"), _wire(1, DATA[7])]))
    out.append(("re-establishment does not replay old events", ("R14.3", "a second establishment replays only what was queued since"), {"hs": [["ok", [b"H"], []]]}, "E", None, SILENT,
                [("other", ev1), ("other", ev2), ("wire", b"S"), ("reestablish",), ("other", ev3), ("wire", b"S2"), ("other", ev4)]))
    out.append(("empty handshake trigger", ("R14.3", "handshake started by an empty DataReceived (start_handshake)"), {"hs": [["want", [b"H1"]], ["ok", [], [b"e"]]]}, "E", None, SILENT,
                [("wire", b""), ("other", ev1), ("wire", b"S")]))
    return out


def _rule_for(st, gstate, aspect, policy):
    """which clause an observation belongs to: decided by what the layer was doing, not by the schedule's name"""
    if gstate == "E":
        return "R14.3"  # handshake in progress: routing of tunnel bytes, queueing, replay, early data
    if st[0] == "close":
        return "R14.2" if aspect in ("child", "crash") else "R14.4"
    if st[0] == "other":
        return "R14.4"
    if aspect == "parent" and any(c[0] != "send" for cs in policy.values() for c in cs):
        return "R14.4"
    return "R14.1"


ASPECTS = {
    ("R14.1", "child"): ("decrypted bytes reach the child exactly once, in order, close_notify close after the data", "TLSLayer.receive_data"),
    ("R14.1", "parent"): ("TLS records produced by OpenSSL are all sent, in order, before the event ends", "TLSLayer.tls_interact"),
    ("R14.1", "fed"): ("received bytes fed to OpenSSL exactly once, before reading", "TLSLayer.receive_data"),
    ("R14.1", "crash"): ("data path raises", "TLSLayer.receive_data"),
    ("R14.2", "child"): ("transport close forwarded unless close_notify was already delivered", "TLSLayer.receive_close"),
    ("R14.2", "crash"): ("transport close raises", "TLSLayer.receive_close"),
    ("R14.3", "child"): ("events during the handshake are queued and replayed once, in order, early data not stranded", "TunnelLayer.event_to_child"),
    ("R14.3", "parent"): ("handshake flights / TLS output sent in order", "TLSLayer.receive_handshake_data"),
    ("R14.3", "fed"): ("handshake bytes fed to OpenSSL exactly once", "TLSLayer.receive_handshake_data"),
    ("R14.3", "crash"): ("handshake path raises", "TunnelLayer._handle_event"),
    ("R14.4", "child"): ("events for the child delivered exactly once", "TunnelLayer.event_to_child"),
    ("R14.4", "parent"): ("commands of the child: SendData encrypted and sent in every tunnel state, everything else passed on once, in order", "TunnelLayer._handle_command"),
    ("R14.4", "crash"): ("command handling raises", "TunnelLayer._handle_command"),
    ("R14.4", "fed"): ("received bytes fed to OpenSSL exactly once", "TLSLayer.receive_data"),
}
ASPECTS[("R14.2", "parent")] = ASPECTS[("R14.1", "parent")]
ASPECTS[("R14.2", "fed")] = ASPECTS[("R14.1", "fed")]


def _where(ctx, qual):
    rel = PT if qual.startswith("TLSLayer") else TU
    if not ctx.model.has(rel, qual):
        rel, qual = TU, "TunnelLayer._handle_event"
    return rel, qual, ctx.model.func(rel, qual)


def _run(ctx, env, sched):
    """-> problems [(rule, aspect, text)], number of events compared"""
    name, topic, wkw, state, pending, policy, steps = sched
    found, n = run_schedule(env, _Golden, wkw, state, pending, policy, steps, side="client" if len(name) % 2 else "server")
    return [(_rule_for(st, gstate, aspect, policy), aspect, f"schedule `{name}`, event {k + 1} ({st[0]}): {text}") for k, st, gstate, aspect, text in found], n


def check(ctx):
    ctx.rule("R14.1", "post-handshake data path: feed once before reading, all plaintext delivered once in order, close_notify close after the data, TLS output flushed; "
             "SendData of the child encrypted once, all records sent in order (also when sendall fails)")
    ctx.rule("R14.2", "a transport close is forwarded to the child unless close_notify was already delivered (RECEIVED_SHUTDOWN), in all four shutdown states")
    ctx.rule("R14.3", "handshake: tunnel bytes go to the handshake, child events are queued while ESTABLISHING (without pending OpenConnection) and replayed once, in order, "
             "followed by early application data; no replay of old events on re-establishment")
    ctx.rule("R14.4", "TunnelLayer never drops or rewrites a command of the child: SendData reaches OpenSSL and the wire in every tunnel state, the rest is passed on in order")
    ctx.trust("pyOpenSSL Connection semantics as modelled by the stub: bio_write/recv/bio_read/sendall/get_shutdown/do_handshake; WantReadError, ZeroReturnError, SysCallError "
              "are subclasses of SSL.Error; recv/bio_read return at most the requested number of bytes; RECEIVED_SHUTDOWN is set when recv reported close_notify")
    ctx.assume("TLSLayer is driven through _handle_event with tunnel_connection == conn; debug logging off (Layer.debug is None); the harness pulls all commands of an "
               "event before the next event (what Layer.handle_event does for a layer that is not blocked); as the proxy core does, CAN_READ is cleared on the "
               "tunnel connection before its ConnectionClosed is delivered")
    ctx.bounds.append("schedules of at most 7 events; at most 6 plaintext chunks / 3 pending TLS records per read; record payload size 3 in the model")
    for rel, qual in ((TU, "TunnelLayer._handle_event"), (TU, "TunnelLayer.event_to_child"), (PT, "TLSLayer.receive_data"), (PT, "TLSLayer.send_data"),
                      (PT, "TLSLayer.receive_close"), (PT, "TLSLayer.receive_handshake_data")):
        ctx.func(rel, qual)
    for rel, qual in ((TU, "TunnelLayer._handle_command"), (TU, "TunnelLayer._handshake_finished"), (PT, "TLSLayer.tls_interact"), (TU, "TunnelLayer.receive_close")):
        if ctx.model.has(rel, qual):
            ctx.functions.add(f"{rel}::{qual}")
    env = _Env(ctx)
    found = {}
    topics = {}  # topic -> [schedules run, schedules that diverged]
    errors = []
    for sched in _schedules(ctx.tier):
        t = topics.setdefault(sched[1], [0, 0])
        try:
            problems, n = _run(ctx, env, sched)
        except AnalysisError as e:
            errors.append(f"schedule `{sched[0]}`: {e}")
            t[1] += 1
            continue
        ctx.cells += n
        ctx.paths += 1
        t[0] += 1
        t[1] += bool(problems)
        for rule, aspect, text in problems:
            found.setdefault((rule, aspect), text)
    for (rule, aspect), text in sorted(found.items()):
        construct, qual = ASPECTS[(rule, aspect)]
        ctx.fail(rule, _where(ctx, qual), construct, text)
    for e in dict.fromkeys(errors):
        if len(ctx.deferred) < 3:
            ctx.deferred.append(e)
    for (rule, label), (n, bad) in topics.items():
        if not bad:
            ctx.ok(rule, f"{label}: {n} schedule(s) agree with the reference model after every event")
    ctx.note(f"{sum(n for n, _ in topics.values())} schedules interpreted")
    for rule, n in (("R14.1", 3), ("R14.2", 2), ("R14.3", 5), ("R14.4", 4)):
        ctx.expect_instances(rule, n)


MUTANTS = [
    Mutant("senddata-dropped-unless-tunnel-open", TU, "                yield from self.send_data(command.data)\n", "                if self.tunnel_state is TunnelState.OPEN:\n                    yield from self.send_data(command.data)\n", "R14.4"),
    Mutant("unknown-commands-swallowed", TU, "        else:\n            yield command\n\n    def event_to_child", "        elif not isinstance(command, commands.Log):\n            yield command\n\n    def event_to_child", "R14.4"),
    Mutant("close-before-data", PT,
           "        if plaintext:\n            yield from self.event_to_child(\n                events.DataReceived(self.conn, bytes(plaintext))\n            )\n        if close:\n            self.conn.state &= ~connection.ConnectionState.CAN_READ\n            if self.debug:\n                yield commands.Log(f\"{self.debug}[tls] close_notify {self.conn}\", DEBUG)\n            yield from self.event_to_child(events.ConnectionClosed(self.conn))\n",
           "        if close:\n            self.conn.state &= ~connection.ConnectionState.CAN_READ\n            yield from self.event_to_child(events.ConnectionClosed(self.conn))\n        if plaintext:\n            yield from self.event_to_child(\n                events.DataReceived(self.conn, bytes(plaintext))\n            )\n", "R14.1"),
    Mutant("close-only-without-data", PT, "        if close:\n            self.conn.state &= ~connection.ConnectionState.CAN_READ\n", "        elif close:\n            self.conn.state &= ~connection.ConnectionState.CAN_READ\n", "R14.1"),
    Mutant("buffer-reset-each-read", PT, "        while True:\n            try:\n                plaintext.extend(self.tls.recv(65535))\n", "        while True:\n            try:\n                plaintext = bytearray()\n                plaintext.extend(self.tls.recv(65535))\n", "R14.1"),
    Mutant("single-read", PT, "                plaintext.extend(self.tls.recv(65535))\n            except SSL.WantReadError:\n                break\n", "                plaintext.extend(self.tls.recv(65535))\n                break\n            except SSL.WantReadError:\n                break\n", "R14.1"),
    Mutant("close-notify-swallowed", PT, "            except SSL.ZeroReturnError:\n                close = True\n                break\n", "            except SSL.ZeroReturnError:\n                break\n", "R14.1"),
    Mutant("no-flush-after-recv", PT, "        # https://github.com/mitmproxy/mitmproxy/discussions/7550\n        yield from self.tls_interact()\n\n        if plaintext:", "        if plaintext:", "R14.1"),
    Mutant("data-fed-after-read", PT, "    def receive_data(self, data: bytes) -> layer.CommandGenerator[None]:\n        if data:\n            self.tls.bio_write(data)\n\n        plaintext = bytearray()",
           "    def receive_data(self, data: bytes) -> layer.CommandGenerator[None]:\n        plaintext = bytearray()", "R14.1"),
    Mutant("data-fed-twice", PT, "    def receive_data(self, data: bytes) -> layer.CommandGenerator[None]:\n        if data:\n            self.tls.bio_write(data)\n",
           "    def receive_data(self, data: bytes) -> layer.CommandGenerator[None]:\n        if data:\n            self.tls.bio_write(data)\n            self.tls.bio_write(data)\n", "R14.1"),
    Mutant("send-data-no-flush-on-error", PT, "            # The other peer may still be trying to send data over, which we discard here.\n            pass\n        yield from self.tls_interact()\n",
           "            # The other peer may still be trying to send data over, which we discard here.\n            return\n        yield from self.tls_interact()\n", "R14.1"),
    Mutant("send-data-error-escapes", PT, "        except (SSL.ZeroReturnError, SSL.SysCallError):\n", "        except SSL.ZeroReturnError:\n", "R14.1"),
    Mutant("interact-sends-first-chunk-only", PT, "            else:\n                yield commands.SendData(self.conn, data)\n\n    def receive_handshake_data", "            else:\n                yield commands.SendData(self.conn, data)\n                return\n\n    def receive_handshake_data", "R14.1"),
    Mutant("receive-close-inverted", PT, "        if self.tls.get_shutdown() & SSL.RECEIVED_SHUTDOWN:\n", "        if not self.tls.get_shutdown() & SSL.RECEIVED_SHUTDOWN:\n", "R14.2"),
    Mutant("receive-close-sent-shutdown", PT, "        if self.tls.get_shutdown() & SSL.RECEIVED_SHUTDOWN:\n", "        if self.tls.get_shutdown() & SSL.SENT_SHUTDOWN:\n", "R14.2"),
    Mutant("receive-close-any-shutdown", PT, "        if self.tls.get_shutdown() & SSL.RECEIVED_SHUTDOWN:\n", "        if self.tls.get_shutdown():\n", "R14.2"),
    Mutant("queue-while-pending-open", TU, "            self.tunnel_state is TunnelState.ESTABLISHING\n            and not self.command_to_reply_to\n        ):\n            self._event_queue.append(event)",
           "            self.tunnel_state is TunnelState.ESTABLISHING\n        ):\n            self._event_queue.append(event)", "R14.3"),
    Mutant("queue-drops-events", TU, "            self._event_queue.append(event)\n            return\n", "            return\n", "R14.3"),
    Mutant("queue-lifo", TU, "            self._event_queue.append(event)\n            return\n", "            self._event_queue.insert(0, event)\n            return\n", "R14.3"),
    Mutant("replay-before-open", TU, "        if err:\n            self.tunnel_state = TunnelState.CLOSED\n        else:\n            self.tunnel_state = TunnelState.OPEN\n        if self.command_to_reply_to:",
           "        if err:\n            self.tunnel_state = TunnelState.CLOSED\n        if self.command_to_reply_to:", "R14.3"),
    Mutant("queue-not-cleared", TU, "                yield from self.event_to_child(evt)\n            self._event_queue.clear()\n", "                yield from self.event_to_child(evt)\n", "R14.3"),
    Mutant("no-drain-after-handshake", PT, "            yield from self.receive_data(b\"\")\n            return True, None\n", "            return True, None\n", "R14.3"),
    Mutant("handshake-bytes-to-receive-data", TU, "                if self.tunnel_state is TunnelState.ESTABLISHING:\n                    done, err = yield from self.receive_handshake_data(event.data)",
           "                if self.tunnel_state is TunnelState.OPEN:\n                    done, err = yield from self.receive_handshake_data(event.data)", "R14.3"),
]
