"""C03 - ordered hook lifecycle, exactly one outcome (HttpStream).

Decides, by exhaustive exploration of the model extracted from HttpStream's source (every state function,
helpers inlined, every HTTP event the environment automaton can deliver in every abstract state):
  R03.1 requestheaders fires first (before any other non-CONNECT hook, GetHttpConnection, send to server)
  R03.2 never both response and error, never two error hooks
  R03.3 request / responseheaders / response at most once; responseheaders before response;
        request before responseheaders when the request body is not streamed
  R03.4 a flow that fired requestheaders and reached a terminal state (errored / dropped) fired exactly
        one of response|error and is not live
  R03.5 connection-close handling in the HTTP/1 and HTTP/2 connection layers produces a *ProtocolError
It decides these structural clauses, not the run-time behaviour under real I/O.
"""

from __future__ import annotations

import ast

from ..httpstream import CLIENT_EVENTS
from ..httpstream import HttpStreamSpec
from ..httpstream import init_env
from ..httpstream import REFINEMENTS
from ..httpstream import REL
from ..layerx import EV
from ..layerx import explore
from ..layerx import Monitor
from ..model import attr_chain
from ..model import calls_in
from ..model import last_attr
from ..model import walk_in_order
from ..model import yielded_class
from ..model import yields_in
from ..paths import R
from ..selftest import Mutant

PROP = "C03"
REG = {
    "strength": "partial",
    "technique": "typestate exploration of the model extracted from HttpStream's AST (path-effect enumeration, helper inlining) + predicate table",
    "claim": "every reachable transition of the extracted HttpStream model (all state functions x all HTTP events the environment "
    "automaton can deliver, addon effects havocked at hooks) respects: requestheaders first; never response and error; at most once / "
    "ordered hooks; terminal flows have exactly one outcome and are not live; close handling yields protocol errors.",
    "note": "Model = over-approximation extracted from source on every run; named refinements are printed in the evidence. "
    "Loops unrolled once; lower layers' event order is an environment automaton stated in the evidence.",
}

H1 = "mitmproxy/proxy/layers/http/_http1.py"
H2 = "mitmproxy/proxy/layers/http/_http2.py"


class Lifecycle(Monitor):
    """mon = (cphase, sphase, flags)"""

    init = ("new", "none", frozenset())

    def offers(self, env, mon):
        cphase, sphase, flags = mon
        if "dropped" in flags or "passthrough" in flags:
            return []
        out = []
        if cphase == "new":
            return [EV("Start")]
        if cphase == "started":
            out += [EV("RequestHeaders", end_stream=True, replay_flow=None), EV("RequestHeaders", end_stream=False, replay_flow=None)]
        elif cphase == "headers":
            out += [EV("RequestData"), EV("RequestTrailers"), EV("RequestEndOfMessage")]
        if cphase in ("headers", "eom") and "cerr" not in flags:
            out.append(EV("RequestProtocolError"))
        if "reqsent" in flags and "serr" not in flags:
            if sphase == "none":
                out += [EV("ResponseHeaders", end_stream=True), EV("ResponseHeaders", end_stream=False)]
            elif sphase == "headers":
                out += [EV("ResponseData"), EV("ResponseTrailers"), EV("ResponseEndOfMessage")]
            if sphase != "eom":
                out.append(EV("ResponseProtocolError"))
        return out

    def step(self, mon, ev, trace, env, report, exc=None):
        cphase, sphase, flags = mon
        flags = set(flags)
        kind = ev[1]
        if kind == "Start":
            cphase = "started"
        elif kind == "RequestHeaders":
            cphase = "headers"
        elif kind == "RequestEndOfMessage":
            cphase = "eom"
        elif kind == "RequestProtocolError":
            flags.add("cerr")
        elif kind == "ResponseHeaders":
            sphase = "headers"
        elif kind == "ResponseEndOfMessage":
            sphase = "eom"
        elif kind == "ResponseProtocolError":
            flags.add("serr")
        if exc is not None:
            # an exception escaping the layer ends the exploration of this path (not a hook-order question)
            return None
        for e in trace:
            if e[0] == "hook":
                h = e[1]
                if h in ("HttpConnectHook", "HttpConnectedHook", "HttpConnectErrorHook", "HttpConnectUpstreamHook"):
                    flags.add("connect")
                    continue
                if h == "HttpRequestHeadersHook":
                    if "rh" in flags:
                        report("R03.3 requestheaders fired twice")
                    flags.add("rh")
                    continue
                if "rh" not in flags and "connect" not in flags:
                    report(f"R03.1 {h} fired before requestheaders")
                if h == "HttpRequestHook":
                    if "rq" in flags:
                        report("R03.3 request fired twice")
                    flags.add("rq")
                elif h == "HttpResponseHeadersHook":
                    if "sh" in flags:
                        report("R03.3 responseheaders fired twice")
                    if "rq" not in flags and "streamreq" not in flags and "connect" not in flags:
                        report("R03.3 responseheaders fired before request although the request body is not streamed")
                    flags.add("sh")
                elif h == "HttpResponseHook":
                    if "sr" in flags:
                        report("R03.3 response fired twice")
                    if "sh" not in flags:
                        report("R03.3 response fired without a preceding responseheaders")
                    if "er" in flags:
                        report("R03.2 response fired after error")
                    flags.add("sr")
                elif h == "HttpErrorHook":
                    if "sr" in flags:
                        report("R03.2 error fired after response")
                    if "er" in flags:
                        report("R03.2 error fired twice")
                    flags.add("er")
            elif e[0] == "getconn" or (e[0] == "send" and e[2] == "server"):
                if "rh" not in flags and "connect" not in flags:
                    report(f"R03.1 {e} before requestheaders")
                if e[0] == "send" and e[1] == "RequestHeaders":
                    flags.add("reqsent")
            elif e[0] == "set":
                if e[1] == "self.client_state" and e[2] == "self.state_stream_request_body":
                    flags.add("streamreq")
                if e[1] == "self._handle_event" and e[2] == "self.passthrough":
                    flags.add("passthrough")
            elif e[0] == "live":
                (flags.add if e[1] else flags.discard)("live")
            elif e[0] == "drop":
                flags.add("dropped")
        errored = env.get("self.client_state") == R("self.state_errored")
        if ("dropped" in flags or errored) and "rh" in flags and "connect" not in flags and "passthrough" not in flags:
            n = ("sr" in flags) + ("er" in flags)
            if n != 1:
                report(f"R03.4 terminal flow fired {n} of response|error (expected exactly one)")
            if "live" in flags:
                report("R03.4 terminal flow is still live")
        return (cphase, sphase, frozenset(flags))


def check(ctx):
    ctx.exhaustive = True
    ctx.bounds.append("loops unrolled once in path enumeration; the extracted HttpStream model is explored to a fix-point (all abstract states x all offered events)")
    ctx.rule("R03.1", "requestheaders precedes every other non-CONNECT hook, GetHttpConnection and send-to-server (model exploration)")
    ctx.rule("R03.2", "never both response and error, never two errors; need_error_hook predicate table")
    ctx.rule("R03.3", "request/responseheaders/response at most once, ordered")
    ctx.rule("R03.4", "terminal flows fired exactly one outcome and are not live")
    ctx.rule("R03.5", "connection close with a stream in flight yields a *ProtocolError")
    m = ctx.model
    spec = HttpStreamSpec(m)
    entry = ctx.func(REL, "HttpStream._handle_event")
    for n in (
        "state_wait_for_request_headers state_stream_request_body state_consume_request_body state_wait_for_response_headers "
        "state_stream_response_body state_consume_response_body send_response flow_done check_body_size check_invalid check_killed "
        "handle_protocol_error make_server_connection start_request_stream start_response_stream handle_connect"
    ).split():
        ctx.func(REL, f"HttpStream.{n}")
    for r in REFINEMENTS:
        ctx.assume(r)
    ctx.assume(
        "environment automaton: Start; RequestHeaders; (RequestData|RequestTrailers)*; RequestEndOfMessage; RequestProtocolError any time "
        "after headers; server events only after RequestHeaders were sent upstream; nothing after DropStream"
    )
    res = explore(spec, entry, init_env(), Lifecycle())
    ctx.paths += res["transitions"]
    ctx.note(f"explored {res['states']} abstract states, {res['transitions']} transitions, {res['pruned']} @expect-pruned, loops unrolled once; inlined {res['inlined']}")
    for s in res["samples"]:
        ctx.sample(s)
    ctx.require(res["states"] >= 40, f"HttpStream exploration collapsed to {res['states']} states (model extraction broke)")
    seen = set()
    by_rule = {"R03.1": 0, "R03.2": 0, "R03.3": 0, "R03.4": 0}
    for v in res["violations"]:
        rule = v["message"].split()[0]
        msg = v["message"][len(rule) + 1 :]
        if (rule, msg) in seen:
            continue
        seen.add((rule, msg))
        by_rule[rule] = by_rule.get(rule, 0) + 1
        hist = " ; ".join(f"{k}->{[e for e in t if e[0] in ('hook', 'drop')]}" for k, t in v["history"])
        ctx.fail(rule, (REL, "HttpStream", entry), msg, f"reachable in the extracted model via: {hist}", history=v["history"])
    for rule, n in by_rule.items():
        if n == 0:
            ctx.ok(rule, f"{res['transitions']} transitions of the extracted HttpStream model")

    def predicate_table():
        # R03.2a: in which (client_state, server_state) pairs does handle_protocol_error fire the error hook?  Decided by executing the
        # function (helpers inlined, temporaries by value) from every pair of states for both kinds of protocol error - not by reading
        # one particular local - so renaming / splitting / extracting the predicate does not matter.
        from ..httpstream import STATE_NAMES
        from ..paths import Engine, State, UNKNOWN

        hpe = ctx.func(REL, "HttpStream.handle_protocol_error")
        params = [a.arg for a in hpe.args.posonlyargs + hpe.args.args if a.arg not in ("self", "cls")]
        ctx.require(len(params) >= 1, "handle_protocol_error takes no event")
        bad = 0
        fired_somewhere = False
        for cs in STATE_NAMES:
            for ss in STATE_NAMES:
                env = dict(init_env())
                env.update({"self.client_state": R("self." + cs), "self.server_state": R("self." + ss), "self.flow.response": UNKNOWN, "self.flow.websocket": UNKNOWN,
                            "self.request_body_buf": UNKNOWN, "self.response_body_buf": UNKNOWN})
                outcomes = set()
                for kind in ("RequestProtocolError", "ResponseProtocolError"):
                    eng = Engine(HttpStreamSpec(m))
                    finals = eng.finals(hpe, State((), env), {params[0]: EV(kind)})
                    ctx.require(finals, f"handle_protocol_error has no outcome for ({cs},{ss},{kind})")
                    outcomes |= {any(e == ("hook", "HttpErrorHook") for e in f.trace) for f in finals}
                ctx.cells += 1
                ctx.require(len(outcomes) == 1, f"whether handle_protocol_error fires the error hook is not a function of the two states for ({cs},{ss}) (shape not modelled)")
                fires = outcomes.pop()
                fired_somewhere = fired_somewhere or fires
                must_be_false = cs == "state_errored" or ss in ("state_done", "state_errored")
                if must_be_false and fires:
                    bad += 1
                    ctx.fail("R03.2", (REL, "HttpStream.handle_protocol_error", hpe), f"need_error_hook({cs},{ss})=True",
                             "an error hook would fire although the flow already has an outcome")
        ctx.require(fired_somewhere, "handle_protocol_error fires the error hook in no pair of states (anchor moved)")
        if not bad:
            ctx.ok("R03.2", f"need_error_hook table {len(STATE_NAMES) ** 2} cells")


    ctx.guard(predicate_table)

    # R03.5: close handling yields protocol errors (path facts: every path of the close branch with a stream in flight reports one)
    from ..paths import GenericSpec
    from ..paths import traces_of

    class CloseSpec(GenericSpec):
        def events(self, node, st):
            out = []
            for y in yields_in(node) if not isinstance(node, (ast.If, ast.While, ast.For, ast.Try, ast.With, ast.Match, ast.FunctionDef)) else []:
                if yielded_class(y) == "ReceiveHttp" and y.value.args:
                    a = y.value.args[0]
                    kind = last_attr(a.func) if isinstance(a, ast.Call) else None
                    if kind is None and isinstance(a, ast.Name):
                        # a local bound to the error object in every definition of that local
                        defs = [d.value for d in ast.walk(self.fn) if isinstance(d, ast.Assign) and any(isinstance(t, ast.Name) and t.id == a.id for t in d.targets)]
                        kinds = {last_attr(d.func) if isinstance(d, ast.Call) else None for d in defs}
                        kind = kinds.pop() if len(kinds) == 1 else None
                    out.append(("recv", kind or "?"))
            return out

    def close_paths(rel, qual, kinds, what, extra_true=()):
        fn = ctx.func(rel, qual)
        spec = CloseSpec(keep=lambda e: e[0] in ("recv", "cond"), record_conds=True)
        spec.fn = fn
        res, _ = traces_of(fn, spec)
        ctx.paths += len(res)
        closed = [t for t, how, st in res if how == "return" and any(e[0] == "cond" and "ConnectionClosed" in e[1] and e[1].startswith("isinstance(") and e[2] for e in t)
                  and all(any(e[0] == "cond" and e[1] == c and e[2] for e in t) for c in extra_true)]
        ctx.require(closed, f"{qual}: no path for ConnectionClosed" + (f" with {extra_true}" if extra_true else "") + " found (anchor changed)")
        bad = [t for t in closed if not any(e[0] == "recv" and e[1] in kinds for e in t)]
        ctx.check(not bad, "R03.5", (rel, qual, fn), "ConnectionClosed branch", f"{what} ({len(bad)} of {len(closed)} close paths report nothing to the stream)", desc=f"{qual}: {len(closed)} close paths yield a protocol error")

    close_paths(H1, "Http1Connection.wait", ("ReceiveProtocolError", "RequestProtocolError", "ResponseProtocolError"), "client close while waiting produces no RequestProtocolError")
    close_paths(H1, "Http1Client.read_headers", ("ResponseProtocolError", "ReceiveProtocolError"), "server close with a request in flight produces no ResponseProtocolError", extra_true=("self.stream_id",))
    cc = ctx.func(H2, "Http2Connection.close_connection")
    loops = [n for n in walk_in_order(cc) if isinstance(n, ast.For) and "self.streams" in ast.unparse(n.iter)]
    ok = any("ReceiveHttp" in ast.unparse(l) and "ProtocolError" in ast.unparse(l) for l in loops)
    ctx.check(ok, "R03.5", (H2, "Http2Connection.close_connection", cc), "for ... in self.streams", "h2 connection close does not error every open stream", desc="Http2Connection.close_connection")
    ctx.expect_instances("R03.5", 3)


I = "mitmproxy/proxy/layers/http/__init__.py"
MUTANTS = [
    Mutant("response-hook-state-not-done", I, "        yield HttpResponseHook(self.flow)\n        self.server_state = self.state_done\n",
           "        yield HttpResponseHook(self.flow)\n", "R03.2"),
    Mutant("need-error-hook-ignores-server-done", I, "or self.server_state in (self.state_done, self.state_errored)\n        )\n\n        if is_client",
           "or self.server_state in (self.state_errored,)\n        )\n\n        if is_client", "R03.2"),
    Mutant("check-killed-after-response-emits-error", I, "        if (yield from self.check_killed(False)):\n            return\n\n        if not already_streamed:",
           "        if (yield from self.check_killed(True)):\n            return\n\n        if not already_streamed:", "R03.2"),
    Mutant("body-size-abort-keeps-live", I, "                self.server_state = self.state_errored\n            self.flow.live = False\n            return True",
           "                self.server_state = self.state_errored\n            return True", "R03.4"),
    Mutant("body-size-abort-no-client-errored", I, "                self.context.client,\n            )\n            self.client_state = self.state_errored\n            if response:",
           "                self.context.client,\n            )\n            if response:", "R03"),
    Mutant("invalid-request-no-requestheaders", I, "                # flow has not been seen yet, register it.\n                yield HttpRequestHeadersHook(self.flow)\n",
           "                pass\n", "R03.1"),
    Mutant("killed-no-error-hook", I, "            if emit_error_hook:\n                yield HttpErrorHook(self.flow)\n", "            pass\n", "R03.4"),
    Mutant("consume-request-hook-after-connect", I, "            self.client_state = self.state_done\n            yield HttpRequestHook(self.flow)\n            if (yield from self.check_killed(True)):\n                return\n            elif self.flow.response:",
           "            self.client_state = self.state_done\n            if (yield from self.check_killed(True)):\n                return\n            elif self.flow.response:", "R03.3"),
    Mutant("h1-wait-close-silent", H1, "            yield ReceiveHttp(\n                self.ReceiveProtocolError(\n                    self.stream_id,\n                    f\"Client disconnected.\",\n                    code=ErrorCode.CLIENT_DISCONNECTED,\n                )\n            )\n", "            pass\n", "R03.5"),
]
