"""C49 - mitmdump output cannot inject terminal control sequences.

Decided:
  R49.1 (taint over mitmproxy/addons/dumper.py)  base sinks: every operand of ``print(...)`` and of ``<out>.write(...)`` (out =
        ``self.outfp`` / ``sys.stdout`` / ``sys.stderr``); a function whose parameter reaches a base sink is a derived sink
        (``Dumper.echo``: text, ident and the style keywords), transitively.  Sources: every parameter of an *entry* (a hook
        method, or a method never called from inside the module) and everything derived from it - attribute chains,
        elements, ``str()``, formatting, same-module helpers, self attributes.  A source reaching a sink must have passed a
        sanitiser of the table below (each with its reason) or be non-string by "name typing" (every declaration of that
        attribute name in mitmproxy/** is int/float/bool/None/Enum/Literal/ClassVar[str] literal).
  R49.2 ``strutils.escape_control_characters`` is interpreted from its AST (pyint; module-level translation tables folded from the module's
        statements and bound as globals, ``re`` trusted) on representatives of every combination of character classes - each Cc code point
        alone and embedded in clean text, every non-empty combination of {C0, TAB/LF/CR, DEL, C1} - with keep_spacing on and off: no
        output may contain a Cc character other than TAB / LF / CR.  Fast paths, regex pre-checks, helpers or loops around
        ``str.translate`` are therefore analysed, not refused.  In addition, when the function is still a plain
        ``return text.translate(<table>)``: the translation tables behind ``strutils.escape_control_characters`` (folded from the module's AST: dict
        comprehension over range(), item assignments, ``copy``, the ``del`` loop, ``str.maketrans``) map every code point of
        Unicode category Cc (U+0000-001F, U+007F, U+0080-009F) - except TAB / LF / CR when ``keep_spacing`` - to a
        non-control character, and the function returns ``text.translate(<one of the two tables>)``.
  R49.3 ``contentviews.prettify_message`` (a sanitiser of R49.1 for ``.text``): every ``return`` is either a
        ``ContentviewResult(text=<constant>)`` or ``ret`` right after ``ret.text = escape_control_characters(ret.text)``.
NOT decided: what ``mitmproxy_rs.syntax_highlight.highlight`` does with a clean text (assumed: re-chunks it); the styling
sequences of ``miniclick.style`` (added by mitmdump itself); ``repr()``-escaping inside ``bytes_to_escaped_str`` (trusted:
CPython repr of bytes escapes every non-printable-ASCII byte); terminals' interpretation of non-Cc characters.
"""

from __future__ import annotations

import ast
import re

from ..core import AnalysisError
from ..core import norm
from ..model import attr_chain
from ..model import last_attr
from ..model import qual_of
from ..model import walk_in_order
from ..selftest import Mutant
from ._helpers_G import annotation_classes
from ._helpers_G import AttrTypes
from ._helpers_G import class_closure
from ._helpers_G import control_character_domain
from ._helpers_G import interpret_sanitiser
from ._helpers_G import expected_markers
from ._helpers_G import fold_tables
from ._helpers_G import load_positive
from ._helpers_G import Program
from ._helpers_G import SnippetModel
from ._helpers_G import TaintSpec

PROP = "C49"
REG = {
    "strength": "strong",
    "technique": "taint (flow-sensitive def-use, same-module summaries, derived sinks, name typing) over the Dumper addon + constant "
    "folding of the sanitiser's translation table",
    "claim": "every string derived from a hook argument of Dumper that reaches print()/outfp.write() (directly or through echo and other "
    "helpers) passed escape_control_characters / bytes_to_escaped_str / prettify_message(.text) / a numeric formatter, or is non-string by "
    "declaration; escape_control_characters (interpreted from its AST on every Cc code point and every combination of character classes, and "
    "its tables folded) maps every Cc code point except TAB/LF/CR; prettify_message escapes its text on every path.",
    "note": "External callees are assumed to return data derived from their operands only. flow.metadata values are trusted iff every "
    "writer in mitmproxy/** stores an int under that key. Positive example file mitmlint/positive/R49_1.py keeps R49.1 non-vacuous.",
}

F = "mitmproxy/addons/dumper.py"
SU = "mitmproxy/utils/strutils.py"
CV = "mitmproxy/contentviews/__init__.py"
ESC = "mitmproxy.utils.strutils.escape_control_characters"

RESULT = "<ContentviewResult>"
RESULT_CLEAN_FIELDS = {
    "text": "prettify_message escapes .text on every path (R49.3)",
    "syntax_highlight": "a view's syntax_highlight class constant / the literal 'error'",
}
OUT_CHAINS = ("self.outfp", "sys.stdout", "sys.stderr", "sys.__stdout__", "sys.__stderr__")


def hook_names(model) -> dict:
    """name -> (Module, ClassDef) of every Hook subclass, named by the rule of hooks.Hook.__init_subclass__."""
    out = {}
    for mod in model.all_modules():
        if "Hook" not in mod.source:
            continue
        for q, d in mod.defs().items():
            if isinstance(d, ast.ClassDef) and d.name.endswith("Hook") and any(last_attr(b).endswith("Hook") for b in d.bases):
                name = None
                for st in d.body:
                    tgt = st.targets[0] if isinstance(st, ast.Assign) and len(st.targets) == 1 else st.target if isinstance(st, ast.AnnAssign) else None
                    if isinstance(tgt, ast.Name) and tgt.id == "name" and isinstance(getattr(st, "value", None), ast.Constant):
                        name = st.value.value
                if name is None:
                    name = re.sub("(?!^)([A-Z]+)", r"_\1", d.name.replace("Hook", "")).lower()
                if name:
                    out[name] = (mod, d)
    return out


class DumperSpec(TaintSpec):
    name = "R49.1"
    sanitisers = {
        ESC: "translates every control character except TAB/LF/CR to '.' (table checked by R49.2)",
        "mitmproxy.utils.strutils.bytes_to_escaped_str": "repr() of the bytes: every byte outside printable ASCII becomes a \\x escape",
        "mitmproxy.utils.human.pretty_size": "formats a number: digits, '.', and a unit letter",
        "mitmproxy.utils.human.pretty_duration": "formats a number",
        "mitmproxy.utils.human.format_timestamp": "strftime of a number with a digits-only format",
        "mitmproxy.utils.human.format_timestamp_with_milli": "strftime of a number with a digits-only format",
    }

    def __init__(self, model, attr_types: AttrTypes, entries: set[str], metadata_ok):
        self.model = model
        self.at = attr_types
        self.entries = entries
        self.metadata_ok = metadata_ok  # key -> reason | None
        self.sites: dict[int, tuple] = {}  # id(call) -> (rel, qual, call, what) for every base sink visited

    def is_entry(self, fn, an) -> bool:
        return qual_of(fn) in self.entries

    def sanitiser(self, call, dotted, frame):
        why = self.sanitisers.get(dotted)
        if why:
            return why
        if dotted == "mitmproxy.utils.human.format_address" and len(call.args) == 1 and not call.keywords:
            if attr_chain(call.args[0]).split(".")[-1] in ("peername", "sockname"):
                return "format_address of a socket-level peername/sockname: numeric host and port reported by the OS"
            return None
        # f.metadata.get("<key>", <const>)
        if isinstance(call.func, ast.Attribute) and call.func.attr == "get" and attr_chain(call.func.value).endswith(".metadata") and call.args:
            k = call.args[0]
            if isinstance(k, ast.Constant) and isinstance(k.value, str) and all(isinstance(a, ast.Constant) for a in call.args[1:]):
                return self.metadata_ok(k.value)
        return None

    def call_result(self, call, dotted, frame, operands):
        if dotted == "mitmproxy.contentviews.prettify_message":
            # an object of which only some fields are sanitised: mark the origins, clean_attr discharges the sanitised fields
            return frozenset(o._replace(text=f"{RESULT} {norm(call.func)}(...)", via=()) for o in operands)
        return None

    def clean_attr(self, node, frame):
        base = frame.taint(node.value)
        if base and all(o.text.startswith(RESULT) for o in base):
            return RESULT_CLEAN_FIELDS.get(node.attr)
        return self.at.nonstr(node.attr)

    def on_call(self, call, dotted, frame):
        what = None
        operands = []
        if dotted == "builtins.print":
            what = "print"
            operands = list(call.args) + [k.value for k in call.keywords if k.arg in ("sep", "end")]
        elif isinstance(call.func, ast.Attribute) and call.func.attr in ("write", "writelines"):
            recv = attr_chain(call.func.value)
            aliases = getattr(frame, "_out_aliases", None)
            if aliases is None:
                aliases = frame._out_aliases = {t.id for s in ast.walk(frame.fn) if isinstance(s, ast.Assign) and attr_chain(s.value) in OUT_CHAINS
                                                for t in s.targets if isinstance(t, ast.Name)}
            if recv in OUT_CHAINS or recv in aliases:
                what = recv + "." + call.func.attr
                operands = list(call.args)
        if what is None:
            return
        self.sites[id(call)] = (frame.mod.rel, frame.qual, call, what)
        for a in operands:
            t = frame.taint(a)
            if t:
                frame.hit("terminal", call, norm(a), t, what)


# ---------------------------------------------------------------------------------------------------
# R49.1 driver (shared by the repository run and the positive examples)


def run_dumper(model, mod, cls_name, attr_types, hooks, metadata_ok):
    cls = mod.get(cls_name)
    if not isinstance(cls, ast.ClassDef):
        raise AnalysisError(f"anchor class vanished: {mod.rel}::{cls_name}")
    fns = [(q, d) for q, d in mod.defs().items() if isinstance(d, (ast.FunctionDef, ast.AsyncFunctionDef))]
    # who is called from inside the module (self.m(...), m(...), or referenced as a value: self.m without a call counts too)
    called = set()
    for n in walk_in_order(mod.tree):
        if isinstance(n, ast.Attribute) and isinstance(n.value, ast.Name) and n.value.id in ("self", "cls"):
            called.add(f"{qual_of(n).rsplit('.', 1)[0]}.{n.attr}" if "." in qual_of(n) else n.attr)
        elif isinstance(n, ast.Name) and isinstance(n.ctx, ast.Load) and isinstance(mod.get(n.id), (ast.FunctionDef, ast.AsyncFunctionDef)):
            called.add(n.id)
    entries = set()
    for q, d in fns:
        is_method = isinstance(getattr(d, "_parent", None), ast.ClassDef)
        if (is_method and d.name in hooks) or q not in called:
            entries.add(q)
    spec = DumperSpec(model, attr_types, entries, metadata_ok)
    prog = Program(model, spec)
    hits = prog.run([(mod, d) for q, d in fns])
    # derived sinks: functions whose summary carries a parameter-rooted hit
    derived = {}
    for q, d in fns:
        s = prog.summaries.get(id(d))
        if s is None:
            raise AnalysisError(f"{mod.rel}::{q} was not analysed")
        ps = sorted({o.root for h in s.hits.values() for o in h.origins if o.kind == "param"})
        if ps:
            derived[q] = ps
    # sink sites = base sinks + every call of a derived sink
    sites = {k: v for k, v in spec.sites.items()}
    for q, d in fns:
        for c in walk_in_order(d):
            if isinstance(c, ast.Call):
                tgt = None
                if isinstance(c.func, ast.Attribute) and isinstance(c.func.value, ast.Name) and c.func.value.id in ("self", "cls") and "." in q:
                    tgt = f"{q.rsplit('.', 1)[0]}.{c.func.attr}"
                elif isinstance(c.func, ast.Name):
                    tgt = c.func.id
                if tgt in derived:
                    sites[id(c)] = (mod.rel, q, c, norm(c.func))
    return spec, prog, hits, entries, derived, sites


def metadata_writers(model):
    """key -> reason if every ``<x>.metadata["key"] = v`` in mitmproxy/** stores a value that is non-string by declaration."""
    writes: dict[str, list] = {}
    for mod in model.all_modules():
        if "metadata[" not in mod.source:
            continue
        for n in walk_in_order(mod.tree):
            if isinstance(n, ast.Assign):
                for t in n.targets:
                    if isinstance(t, ast.Subscript) and attr_chain(t.value).endswith("metadata") and isinstance(t.slice, ast.Constant) and isinstance(t.slice.value, str):
                        writes.setdefault(t.slice.value, []).append((mod, n))

    def ok(key):
        ws = writes.get(key)
        if not ws:
            return None
        for mod, n in ws:
            v = n.value
            good = isinstance(v, ast.Constant) and not isinstance(v.value, (str, bytes))
            if not good and isinstance(v, ast.Attribute) and attr_chain(v).startswith("self.") and attr_chain(v).count(".") == 1:
                c = n
                while c is not None and not isinstance(c, ast.ClassDef):
                    c = getattr(c, "_parent", None)
                good = c is not None and AttrTypes(model, [(mod, c)]).nonstr(v.attr) is not None
            if not good:
                return None
        return f"flow.metadata[{key!r}] is written in mitmproxy/** only with non-string values ({', '.join(sorted({f'{m.rel}::{qual_of(n)}' for m, n in ws}))})"

    return ok


# ---------------------------------------------------------------------------------------------------
# R49.2: fold the translation tables of strutils


CC = set(range(0, 32)) | {127} | set(range(128, 160))
SPACING = {9, 10, 13}


def check_escape_semantics(ctx):
    """escape_control_characters is *interpreted* (pyint) on representatives of every combination of character classes; whatever the function
    does before / instead of / after ``str.translate`` (fast paths, regex pre-checks, helper functions, loops) is part of what is analysed."""
    fn = ctx.func(SU, "escape_control_characters")
    params = [a.arg for a in fn.args.args]
    ctx.require(params[:2] == ["text", "keep_spacing"], "escape_control_characters signature changed")
    res, tables = interpret_sanitiser(ctx.model, SU, "escape_control_characters")
    n_in = len(control_character_domain())
    for keep, (leaked, example) in res.items():
        ctx.cells += n_in
        ranges = _ranges(sorted(leaked))
        ex = f"escape_control_characters({example[0][:24]!r}, keep_spacing={keep}) == {example[1][:24]!r}" if example else ""
        ctx.check(not leaked, "R49.2", (SU, "escape_control_characters", fn), f"escape_control_characters(keep_spacing={keep}) lets {ranges} through" if leaked else f"escape_control_characters(keep_spacing={keep})",
                  f"control characters {ranges} pass through escape_control_characters unchanged for some inputs: {ex} (U+009B is CSI, U+009D OSC, U+001B ESC)",
                  desc=f"escape_control_characters(keep_spacing={keep}), interpreted on {n_in} inputs (every Cc code point alone / embedded, every combination of C0, TAB-LF-CR, DEL, C1): no control character"
                       f"{' except TAB/LF/CR' if keep else ''} in any output")
    return tables


def check_escape_table(ctx):
    m = ctx.model
    mod = m.module(SU)
    fn = ctx.func(SU, "escape_control_characters")
    # shape: trans = A if keep_spacing else B ; return text.translate(trans)
    rets = [n for n in walk_in_order(fn) if isinstance(n, ast.Return)]
    ctx.require(len(rets) == 1 and isinstance(rets[0].value, ast.Call) and isinstance(rets[0].value.func, ast.Attribute) and rets[0].value.func.attr == "translate"
                and len(rets[0].value.args) == 1, "escape_control_characters no longer ends in a single `return <text>.translate(<table>)`")
    call = rets[0].value
    params = [a.arg for a in fn.args.args]
    ctx.require(params[:2] == ["text", "keep_spacing"] and attr_chain(call.func.value) == "text", "escape_control_characters signature / receiver changed")
    ctx.require(not any(isinstance(n, (ast.Assign, ast.AugAssign)) and any(attr_chain(t) == "text" for t in (n.targets if isinstance(n, ast.Assign) else [n.target]))
                        for n in walk_in_order(fn)), "escape_control_characters rebinds `text` before translating")
    targ = call.args[0]
    if isinstance(targ, ast.Name) and targ.id not in params:
        defs = [s for s in walk_in_order(fn) if isinstance(s, ast.Assign) and any(isinstance(t, ast.Name) and t.id == targ.id for t in s.targets)]
        ctx.require(len(defs) == 1, f"escape_control_characters: {targ.id} is not assigned exactly once")
        targ = defs[0].value
    if isinstance(targ, ast.IfExp):
        ctx.require(attr_chain(targ.test) == "keep_spacing" and isinstance(targ.body, ast.Name) and isinstance(targ.orelse, ast.Name),
                    f"escape_control_characters: table selection not modelled: {norm(targ)}")
        sel = {True: targ.body.id, False: targ.orelse.id}
    elif isinstance(targ, ast.Name):
        sel = {True: targ.id, False: targ.id}
    else:
        raise AnalysisError(f"escape_control_characters: table expression not modelled: {norm(targ)}")
    tables = fold_tables(mod.tree.body, set(sel.values()), SU)
    for keep, name in sel.items():
        ctx.require(name in tables, f"strutils: table {name} is not built at module level")
        t = tables[name]
        need = CC - SPACING if keep else CC
        ctx.cells += len(need)
        missing = sorted(need - set(t))
        ranges = _ranges(missing)
        ctx.check(not missing, "R49.2", (SU, "escape_control_characters", fn), f"{name} (keep_spacing={keep}) lacks {ranges}" if missing else f"{name} covers Cc",
                  f"control characters {ranges} pass through escape_control_characters unchanged (U+009B is CSI, U+009D OSC, U+001B ESC)",
                  desc=f"{name} (keep_spacing={keep}): {len(t)} entries cover all {len(need)} required Cc code points")
        badv = sorted(k for k, v in t.items() if not isinstance(v, int) or v in CC)
        ctx.check(not badv, "R49.2", (SU, "escape_control_characters", fn), f"{name} maps to a control character", f"entries {badv[:5]} translate to a control character",
                  desc=f"{name}: every entry maps to a non-control character")
        if keep:
            kept = sorted(SPACING - set(t))
            ctx.note(f"R49.2: keep_spacing=True leaves {kept} (TAB/LF/CR) untouched, as the property allows")


def _ranges(xs):
    out, i = [], 0
    while i < len(xs):
        j = i
        while j + 1 < len(xs) and xs[j + 1] == xs[j] + 1:
            j += 1
        out.append(f"U+{xs[i]:04X}" + (f"-U+{xs[j]:04X}" if j > i else ""))
        i = j + 1
    return ",".join(out)


# ---------------------------------------------------------------------------------------------------


def check_prettify(ctx):
    fn = ctx.func(CV, "prettify_message")
    mod = ctx.model.module(CV)
    n_ret = 0
    for r in [n for n in walk_in_order(fn) if isinstance(n, ast.Return)]:
        n_ret += 1
        v = r.value
        if isinstance(v, ast.Call) and last_attr(v.func) == "ContentviewResult":
            text = next((k.value for k in v.keywords if k.arg == "text"), None)
            ctx.check(isinstance(text, ast.Constant), "R49.3", (CV, "prettify_message", r), f"return ContentviewResult(text={norm(text) if text is not None else '?'})",
                      "a result whose text is not a constant is returned without escape_control_characters", desc="early return with constant text")
        elif isinstance(v, ast.Name):
            body = r._parent.body if hasattr(r._parent, "body") and r in r._parent.body else None
            ctx.require(body is not None, "prettify_message: return statement in an unmodelled position")
            prev = body[body.index(r) - 1] if body.index(r) > 0 else None
            ok = (isinstance(prev, ast.Assign) and len(prev.targets) == 1 and attr_chain(prev.targets[0]) == f"{v.id}.text" and isinstance(prev.value, ast.Call)
                  and Program(ctx.model, TaintSpec()).dotted(mod, prev.value.func) == ESC and len(prev.value.args) == 1 and attr_chain(prev.value.args[0]) == f"{v.id}.text"
                  and not prev.value.keywords)
            ctx.check(ok, "R49.3", (CV, "prettify_message", r), f"return {v.id} after {v.id}.text = escape_control_characters({v.id}.text)",
                      "the prettified text is returned without passing escape_control_characters", desc=f"return {v.id}: text escaped immediately before")
        else:
            raise AnalysisError(f"prettify_message: return shape not modelled: {norm(r)}")
    ctx.require(n_ret >= 2, "prettify_message: fewer than 2 return statements")
    ctx.expect_instances("R49.3", 2)


def check(ctx):
    m = ctx.model
    ctx.rule("R49.1", "every hook-argument-derived string reaching print()/outfp.write() (directly, through echo, or through any helper) passed a sanitiser "
             "of the table or is non-string by declaration (else a peer can inject terminal control sequences)")
    ctx.rule("R49.2", "escape_control_characters' translation tables cover every Cc code point (except TAB/LF/CR with keep_spacing) and map to non-control characters")
    ctx.rule("R49.3", "prettify_message returns its text through escape_control_characters on every path")
    ctx.assume("a callee outside dumper.py returns data derived from its operands only (strutils.cut_after_n_lines, mitmproxy_rs.syntax_highlight.highlight, "
               "miniclick.style, flow.Error, dns.*.to_str)")
    ctx.assume("ctx.options, module-level constants and socket-level peername/sockname are not peer-controlled text")
    ctx.trust("CPython repr(bytes) escapes every byte outside printable ASCII (bytes_to_escaped_str)")
    ctx.trust("wsproto.frame_protocol.Opcode / CloseReason are Enums")

    mod = m.module(F)
    ctx.cls = m.cls(F, "Dumper")
    # nobody outside dumper.py calls into a Dumper (its public helpers are summarised from their in-module call sites only)
    for other in m.all_modules():
        if other.rel == F or "Dumper" not in other.source:
            continue
        for n in walk_in_order(other.tree):
            if (isinstance(n, ast.Name) and n.id == "Dumper") or (isinstance(n, ast.Attribute) and n.attr == "Dumper"):
                p = n._parent
                if isinstance(p, (ast.alias, ast.ImportFrom)):
                    continue
                ctx.require(isinstance(p, ast.Call) and p.func is n and isinstance(p._parent, ast.Call) and p in p._parent.args,
                            f"{other.rel}::{qual_of(n)}: Dumper is used other than as `<register>(Dumper())` - external callers of its helpers are not modelled")
    hooks = hook_names(m)
    ctx.require(len(hooks) >= 40 and {"response", "websocket_message", "tcp_message", "dns_response"} <= set(hooks), f"hook name derivation broke ({len(hooks)} names)")
    # static shape of what hangs off a hook argument: classes reachable from the field types of the hooks Dumper implements
    seeds = []
    for st in ctx.cls.body:
        if isinstance(st, (ast.FunctionDef, ast.AsyncFunctionDef)) and st.name in hooks:
            hm, hc = hooks[st.name]
            for fld in hc.body:
                if isinstance(fld, ast.AnnAssign):
                    seeds += annotation_classes(m, hm, fld.annotation)
    closure = class_closure(m, seeds)
    names = {c.name for _, c in closure}
    ctx.require({"HTTPFlow", "TCPFlow", "UDPFlow", "DNSFlow", "Request", "Response", "WebSocketData", "WebSocketMessage", "Error", "Server", "Client", "Question",
                 "ResourceRecord", "DNSMessage", "TCPMessage"} <= names, f"flow object-graph closure broke: {sorted(names)[:40]}")
    ctx.note(f"R49.1 name typing over the {len(closure)} classes reachable from the hook argument types")
    at = AttrTypes(m, closure)
    md_ok = metadata_writers(m)
    spec, prog, hits, entries, derived, sites = run_dumper(m, mod, "Dumper", at, hooks, md_ok)
    for rel, q in prog.analysed:
        ctx.functions.add(f"{rel}::{q}")
    ctx.require("Dumper.echo" in derived and "text" in derived["Dumper.echo"], "Dumper.echo no longer passes its text to print(..., file=self.outfp) (sink anchor changed)")
    ctx.require(any(v[3] == "print" and v[1] == "Dumper.echo" for v in spec.sites.values()), "print() in Dumper.echo vanished")
    want_entries = {"Dumper.response", "Dumper.error", "Dumper.http_connect_error", "Dumper.websocket_message", "Dumper.websocket_end", "Dumper.tcp_error",
                    "Dumper.udp_error", "Dumper.tcp_message", "Dumper.udp_message", "Dumper.dns_response", "Dumper.dns_error"}
    ctx.require(want_entries <= entries, f"hook methods of Dumper not recognised as entries: {sorted(want_entries - entries)}")
    ctx.note(f"R49.1 entries (parameters are sources): {sorted(entries)}")
    ctx.note("R49.1 derived sinks (parameter -> terminal): " + "; ".join(f"{q}({', '.join(ps)})" for q, ps in sorted(derived.items())))
    by_site: dict[int, list] = {}
    for h in hits:
        by_site.setdefault(id(h.node), []).append(h)
        if id(h.node) not in sites:
            sites[id(h.node)] = (h.rel, h.qual, h.node, h.desc)
    for sid, (rel, q, call, what) in sorted(sites.items(), key=lambda kv: kv[1][2].lineno):
        hs = by_site.get(sid, [])
        if hs:
            for h in hs:
                for o in sorted(h.origins, key=lambda o: (o.text, o.via)):
                    hops = [v for v in o.via if not v.endswith(": text")]  # drop the pass-through hops (echo/style/indent: text)
                    via = f" [{' > '.join(hops)}]" if hops else ""
                    ctx.fail("R49.1", (rel, q, call), f"{norm(call.func)} <- {o.text}{via}",
                             f"flow-derived text reaches the terminal unescaped (operand `{h.arg}`{', base sink ' + h.desc if h.desc else ''}; path: {' > '.join(o.via) or 'direct'})",
                             origin=o.text, via=list(o.via))
        else:
            ctx.ok("R49.1", f"{q}: {norm(call)[:90]}")
    for d, why in prog.discharged():
        ctx.note(f"R49.1 discharged {d}: {why}")
    ctx.expect_instances("R49.1", 18)

    # positive examples
    pos = load_positive("R49_1.py")
    pspec, pprog, phits, pentries, pderived, psites = run_dumper(SnippetModel(pos, m), pos, "Dumper", at, hooks, md_ok)
    marks = expected_markers(pos)
    want, clean = set(marks.get("EXPECT:R49.1", [])), set(marks.get("CLEAN:R49.1", []))
    got = {h.node.lineno for h in phits}
    checked = {v[2].lineno for v in psites.values()}
    if got != want or not clean <= checked or len(want) < 10:
        raise AnalysisError(f"R49.1 positive examples: reported lines {sorted(got)}, expected {sorted(want)}; clean sites checked {sorted(clean & checked)} of {sorted(clean)}")
    ctx.note(f"R49.1 positive examples: {len(want)} unescaped sink operands reported, {len(clean)} escaped / symbolic sites silent")

    check_escape_semantics(ctx)
    try:
        check_escape_table(ctx)
    except AnalysisError as e:
        ctx.note(f"R49.2 structural reading of the translation tables not available ({e}); the interpreted sanitiser above is the decision")
    ctx.expect_instances("R49.2", 2)
    check_prettify(ctx)


def _unwrap(name, old, new, rule="R49.1", file=F, count=1):
    return Mutant(name, file, old, new, rule, count)


MUTANTS = [
    # reverse of the fix 75efb372f, one per kind of sink operand
    _unwrap("unescaped-request-http-version", 'http_version = " " + strutils.escape_control_characters(\n                flow.request.http_version\n            )',
            'http_version = " " + flow.request.http_version'),
    _unwrap("unescaped-response-http-version", "strutils.escape_control_characters(flow.response.http_version) + \" \"", "flow.response.http_version + \" \""),
    _unwrap("unescaped-websocket-path", 'f"{strutils.escape_control_characters(f.request.path)}"', 'f"{f.request.path}"'),
    _unwrap("unescaped-websocket-server-address", 'f"{direction} {strutils.escape_control_characters(human.format_address(f.server_conn.address))}"',
            'f"{direction} {human.format_address(f.server_conn.address)}"'),
    _unwrap("unescaped-close-reason", 'f"{strutils.escape_control_characters(str(f.websocket.close_reason))}"', 'f"{f.websocket.close_reason}"'),
    _unwrap("unescaped-close-reason-in-helper", "            reason = strutils.escape_control_characters(websocket.close_reason)\n", "            reason = websocket.close_reason\n"),
    _unwrap("unescaped-websocket-error-address", 'f"Error in WebSocket connection to "\n                    f"{strutils.escape_control_characters(human.format_address(f.server_conn.address))}: {error}"',
            'f"Error in WebSocket connection to "\n                    f"{human.format_address(f.server_conn.address)}: {error}"'),
    _unwrap("unescaped-proto-error-message", 'f"{strutils.escape_control_characters(str(f.error))}"', 'f"{f.error}"'),
    _unwrap("unescaped-proto-error-address", 'f"{strutils.escape_control_characters(human.format_address(f.server_conn.address))}: "\n', 'f"{human.format_address(f.server_conn.address)}: "\n'),
    _unwrap("unescaped-proto-message-address", "server=strutils.escape_control_characters(\n                        human.format_address(f.server_conn.address)\n                    ),",
            "server=human.format_address(f.server_conn.address),"),
    _unwrap("unescaped-dns-question-name", "strutils.escape_control_characters(f.request.questions[0].name), bold=True", "f.request.questions[0].name, bold=True"),
    _unwrap("unescaped-dns-answers", "strutils.escape_control_characters(str(x)), fg=\"bright_blue\"", "str(x), fg=\"bright_blue\""),
    # wrappers that were already there
    _unwrap("unescaped-method", "strutils.escape_control_characters(method), fg=method_color, bold=True", "method, fg=method_color, bold=True"),
    _unwrap("unescaped-url", "url = self.style(strutils.escape_control_characters(url), bold=True)", "url = self.style(url, bold=True)"),
    _unwrap("unescaped-reason", "strutils.escape_control_characters(reason), fg=code_color, bold=True", "reason, fg=code_color, bold=True"),
    _unwrap("unescaped-error-msg", "            msg = strutils.escape_control_characters(f.error.msg)\n            self.echo(f\" << {msg}\", bold=True, fg=\"red\")\n\n        self.outfp.flush()",
            "            msg = f.error.msg\n            self.echo(f\" << {msg}\", bold=True, fg=\"red\")\n\n        self.outfp.flush()"),
    _unwrap("unescaped-header-value", "            vs = strutils.bytes_to_escaped_str(v)\n", "            vs = v.decode(\"utf8\", \"replace\")\n"),
    _unwrap("raw-body-instead-of-prettified", "            content_to_echo = pretty.text\n\n        if content_to_echo:\n            highlighted = mitmproxy_rs.syntax_highlight.highlight(\n                pretty.text, pretty.syntax_highlight\n            )",
            "            content_to_echo = pretty.text\n\n        if content_to_echo:\n            highlighted = mitmproxy_rs.syntax_highlight.highlight(\n                message.text, pretty.syntax_highlight\n            )"),
    _unwrap("peername-swapped-for-address", "client=human.format_address(f.client_conn.peername),", "client=human.format_address(f.client_conn.address),"),
    # new unescaped outputs
    _unwrap("new-echo-of-sni", "    def tcp_error(self, f):\n        self._proto_error(f)\n", "    def tcp_error(self, f):\n        self.echo(f\"SNI {f.client_conn.sni}\")\n        self._proto_error(f)\n"),
    _unwrap("new-direct-print", "        self.outfp.flush()\n", "        print(f.request.host, file=self.outfp)\n        self.outfp.flush()\n"),
    _unwrap("style-keyword-from-flow", "            self.echo(f\" << {msg}\", bold=True, fg=\"red\")\n\n        self.outfp.flush()", "            self.echo(f\" << {msg}\", bold=True, fg=f.error.msg)\n\n        self.outfp.flush()"),
    _unwrap("escape-then-append-raw", "        url = self.style(strutils.escape_control_characters(url), bold=True)\n", "        url = self.style(strutils.escape_control_characters(url), bold=True)\n        url += flow.request.path\n"),
    _unwrap("remembered-host-echoed-later", "    def tcp_error(self, f):\n        self._proto_error(f)\n",
            "    def tcp_start(self, f):\n        self.last = f.server_conn.sni\n\n    def tcp_error(self, f):\n        self.echo(f\"last: {self.last}\")\n        self._proto_error(f)\n"),
    # R49.2 (first: reverse of the fix ff8413d45)
    _unwrap("table-without-c1-controls", "_control_char_trans.update({x: ord(\".\") for x in range(128, 160)})  # C1 controls\n", "", "R49.2", SU),
    _unwrap("table-c1-stops-before-csi", "for x in range(128, 160)})", "for x in range(128, 155)})", "R49.2", SU),
    _unwrap("table-stops-before-esc", "    for x in range(32)  # x + 0x2400 for unicode control group pictures\n", "    for x in range(27)  # x + 0x2400 for unicode control group pictures\n", "R49.2", SU),
    _unwrap("table-without-del", "_control_char_trans[127] = ord(\".\")  # 0x2421\n", "", "R49.2", SU),
    _unwrap("table-keeps-escape-as-spacing", "for x in (\"\\r\", \"\\n\", \"\\t\"):\n", "for x in (\"\\r\", \"\\n\", \"\\t\", \"\\x1b\"):\n", "R49.2", SU),
    _unwrap("table-maps-to-bell", "    x: ord(\".\")\n", "    x: 7\n", "R49.2", SU),
    _unwrap("fast-path-regex-without-c1", "    trans = _control_char_trans_newline if keep_spacing else _control_char_trans\n    return text.translate(trans)",
            "    if not re.search(r\"[\\x00-\\x1f\\x7f]\", text):\n        return text\n    trans = _control_char_trans_newline if keep_spacing else _control_char_trans\n    return text.translate(trans)", "R49.2", SU),
    _unwrap("fast-path-ascii-returned-unchanged", "    trans = _control_char_trans_newline if keep_spacing else _control_char_trans\n    return text.translate(trans)",
            "    if text.isascii():\n        return text\n    trans = _control_char_trans_newline if keep_spacing else _control_char_trans\n    return text.translate(trans)", "R49.2", SU),
    _unwrap("translate-only-first-line", "    trans = _control_char_trans_newline if keep_spacing else _control_char_trans\n    return text.translate(trans)",
            "    trans = _control_char_trans_newline if keep_spacing else _control_char_trans\n    head, sep, tail = text.partition(\"\\n\")\n    return head.translate(trans) + sep + tail", "R49.2", SU),
    # R49.3
    _unwrap("prettify-no-escape", "    ret.text = strutils.escape_control_characters(ret.text)\n    return ret\n", "    return ret\n", "R49.3", CV),
    _unwrap("prettify-missing-content-echoes-header", "            text=\"Content is missing.\",\n", "            text=f\"Content is missing ({enc}).\",\n", "R49.3", CV),
]
