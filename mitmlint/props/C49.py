"""C49 - mitmdump output cannot inject terminal control sequences.

Decided:
  R49.1 (taint over mitmproxy/addons/dumper.py)  base sinks: every operand of ``print(...)`` and of ``<out>.write(...)`` (out =
        ``self.outfp`` / ``sys.stdout`` / ``sys.stderr`` or a local alias of one); a function whose parameter reaches a base sink is a
        derived sink (today ``Dumper.echo``: text, ident and the style keywords), transitively - found by role, not by name.  Sources:
        every parameter of an *entry* (a hook method, or a method never called from inside the module) and everything derived from it -
        attribute chains, elements, ``str()``, formatting, same-module helpers, nested functions (closures are analysed inline), self
        attributes.  A source reaching a sink must have passed a sanitiser of the table below (each with its reason) or be non-string by
        "name typing" (every declaration of that attribute name among the classes reachable from the hook argument types is
        int/float/bool/None/Enum/Literal/ClassVar[str] literal), or be a socket-level ``peername`` / ``sockname`` (declared only in
        mitmproxy/connection.py as ``Address``), or a ``metadata`` entry (through any alias of the dict) that is only ever written with
        non-string values.  Non-vacuity is by role: every hook that prints reaches a checked sink site through the module's call graph
        and both escaping sanitisers discharge hook-derived data (no count of call sites: that changes with every extracted helper).
  R49.2 ``strutils.escape_control_characters`` is interpreted from its AST (pyint; the module state it reads is built by interpreting the
        backward slice of the module's own top-level statements in order - displays, comprehensions, item assignment / deletion, loops, helper
        calls, ``str.maketrans``, ``dict.fromkeys``, ``re.compile`` ... whatever builds it; ``re`` / ``unicodedata`` / ``string`` / ``functools``
        / ``itertools`` / ``operator`` trusted, ``logging`` a no-op) on representatives of every combination of character classes - each Cc
        code point alone and embedded in clean text, every non-empty combination of {C0, TAB/LF/CR, DEL, C1} - with keep_spacing on and off:
        no output may contain a Cc character other than TAB / LF / CR.  Tables, fast paths, regex substitution, helpers or loops are
        therefore analysed as what they compute, never matched by shape.
  R49.3 ``contentviews.prettify_message`` (a sanitiser of R49.1 for ``.text``), by dataflow with one level of field sensitivity: on every
        path the ``text`` of the returned result object is a constant or passed ``escape_control_characters`` after its last write
        (``r.text = ...`` is a strong update, ``dataclasses.replace(r, text=...)``, constructor keyword or position, same-module helpers that
        return or sanitise a result in place are followed; asserts, logging and writes to other fields are transparent).
NOT decided: what ``mitmproxy_rs.syntax_highlight.highlight`` does with a clean text (assumed: re-chunks it); the styling
sequences of ``miniclick.style`` (added by mitmdump itself); ``repr()``-escaping inside ``bytes_to_escaped_str`` (trusted:
CPython repr of bytes escapes every non-printable-ASCII byte); terminals' interpretation of non-Cc characters.
Whole-package questions (hook classes, users of Dumper, metadata writers, the class closure of the hook argument types) parse only the
modules whose source text can contribute (quick tier); the thorough tier recomputes each over every module and requires agreement.
"""

from __future__ import annotations

import ast
import re

from ..core import AnalysisError
from ..core import norm
from ..model import attr_chain
from ..model import last_attr
from ..model import qual_of
from ..model import walk_in_order
from ..selftest import Mutant
from ._helpers_G import annotation_classes
from ._helpers_G import AttrTypes
from ._helpers_G import class_closure
from ._helpers_G import control_character_domain
from ._helpers_G import interpret_sanitiser
from ._helpers_G import expected_markers
from ._helpers_G import Frame
from ._helpers_G import load_positive
from ._helpers_G import Origin
from ._helpers_G import Summary
from ._helpers_G import class_closure_lazy
from ._helpers_G import modules_where
from ._helpers_G import Program
from ._helpers_G import SnippetModel
from ._helpers_G import TaintSpec

PROP = "C49"
REG = {
    "strength": "strong",
    "technique": "taint (flow-sensitive def-use, same-module summaries, closures inline, derived sinks, name typing) over the Dumper addon + "
    "interpretation of the sanitiser (module state built by interpreting the module's own statements) + field-sensitive dataflow over prettify_message",
    "claim": "every string derived from a hook argument of Dumper that reaches print()/outfp.write() (directly or through echo and other "
    "helpers) passed escape_control_characters / bytes_to_escaped_str / prettify_message(.text) / a numeric formatter, or is non-string by "
    "declaration; escape_control_characters (interpreted from its AST on every Cc code point and every combination of character classes, with "
    "keep_spacing on and off) lets no Cc code point except TAB/LF/CR through; the text of prettify_message's result is constant or escaped "
    "after its last write on every path.",
    "note": "External callees are assumed to return data derived from their operands only. flow.metadata values are trusted iff every "
    "writer in mitmproxy/** stores an int under that key; Connection.peername/sockname are trusted as numeric socket addresses. Positive "
    "example file mitmlint/positive/R49_1.py keeps R49.1 non-vacuous.",
}

F = "mitmproxy/addons/dumper.py"
SU = "mitmproxy/utils/strutils.py"
CV = "mitmproxy/contentviews/__init__.py"
ESC = "mitmproxy.utils.strutils.escape_control_characters"

RESULT = "<ContentviewResult>"
RESULT_CLEAN_FIELDS = {
    "text": "prettify_message escapes .text on every path (R49.3)",
    "syntax_highlight": "a view's syntax_highlight class constant / the literal 'error'",
}
OUT_CHAINS = ("self.outfp", "sys.stdout", "sys.stderr", "sys.__stdout__", "sys.__stderr__")


_HOOK_HEADER = re.compile(r"^[ \t]*class[ \t]+\w*Hook[ \t]*\(", re.M)


def hook_names(model, full=False) -> dict:
    """name -> (Module, ClassDef) of every Hook subclass, named by the rule of hooks.Hook.__init_subclass__.  Only modules with a
    ``class ...Hook(`` statement are parsed; full=True parses the whole package (thorough tier: both must agree)."""
    out = {}
    for mod in model.all_modules() if full else modules_where(model, lambda src: bool(_HOOK_HEADER.search(src))):
        if "Hook" not in mod.source:
            continue
        for q, d in mod.defs().items():
            if isinstance(d, ast.ClassDef) and d.name.endswith("Hook") and any(last_attr(b).endswith("Hook") for b in d.bases):
                name = None
                for st in d.body:
                    tgt = st.targets[0] if isinstance(st, ast.Assign) and len(st.targets) == 1 else st.target if isinstance(st, ast.AnnAssign) else None
                    if isinstance(tgt, ast.Name) and tgt.id == "name" and isinstance(getattr(st, "value", None), ast.Constant):
                        name = st.value.value
                if name is None:
                    name = re.sub("(?!^)([A-Z]+)", r"_\1", d.name.replace("Hook", "")).lower()
                if name:
                    out[name] = (mod, d)
    return out


class NestFrame(Frame):
    """Frame that also models nested function definitions (closures) instead of refusing them: a call of a nested function is analysed inline
    - body executed on a copy of the enclosing environment at the call, parameters bound to the argument taints, sinks inside it reported,
    containers of the enclosing scope it mutates updated weakly; a nested function used as a *value* (callback) is analysed with every
    parameter bound to everything the enclosing function holds."""

    MAX_NEST = 6

    def __init__(self, prog, mod, fn, env=None):
        super().__init__(prog, mod, fn, env)
        self.nested: dict = {}
        self.nest_depth = 0

    def run(self):
        fn, s = self.fn, self.sum
        a = fn.args
        allp = a.posonlyargs + a.args + a.kwonlyargs
        s.params = [x.arg for x in allp]
        s.vararg = a.vararg.arg if a.vararg else None
        s.kwarg = a.kwarg.arg if a.kwarg else None
        for x in allp + ([a.vararg] if a.vararg else []) + ([a.kwarg] if a.kwarg else []):
            k = self.spec.param_kind(fn, x, self)
            self.locals.add(x.arg)
            self.env[x.arg] = frozenset([Origin(k, x.arg, x.arg, self.qual, ())]) if k else frozenset()
        self.collect_locals(fn)
        for d in a.defaults + [d for d in a.kw_defaults if d is not None]:
            self.expr(d)
        self.block(fn.body)
        return s

    def collect_locals(self, fn):
        for n in ast.walk(fn):
            if isinstance(n, ast.Name) and isinstance(n.ctx, (ast.Store, ast.Del)):
                self.locals.add(n.id)
            elif isinstance(n, (ast.FunctionDef, ast.AsyncFunctionDef)) and n is not fn:
                self.locals.add(n.name)
                if any(isinstance(x, ast.Nonlocal) for x in ast.walk(n)):
                    raise AnalysisError(f"{self.mod.rel}::{self.qual}: nested function {n.name!r} rebinds enclosing variables (nonlocal): not modelled")

    def stmt(self, st) -> bool:
        if isinstance(st, (ast.FunctionDef, ast.AsyncFunctionDef)):
            for d in st.decorator_list:
                self.expr(d)
            self.nested[st.name] = st
            self.env[st.name] = frozenset()
            return True
        return super().stmt(st)

    def bind(self, target, v, value_node):
        if isinstance(target, ast.Name):
            self.nested.pop(target.id, None)  # the name is rebound to something else
        super().bind(target, v, value_node)

    def run_nested(self, node, call, args, kws, probe, everything=None):
        if self.nest_depth >= self.MAX_NEST:
            raise AnalysisError(f"{self.mod.rel}::{self.qual}: nested function {node.name!r} recurses (not modelled)")
        child = type(self)(self.prog, self.mod, node, env=dict(self.env))
        child.cls, child.qual, child.nested, child.nest_depth = self.cls, self.qual, dict(self.nested), self.nest_depth + 1
        child.locals |= self.locals
        a = node.args
        allp = [x.arg for x in a.posonlyargs + a.args + a.kwonlyargs]
        own = set(allp) | {x.arg for x in (a.vararg, a.kwarg) if x}
        s = Summary()
        s.params, s.vararg, s.kwarg = allp, a.vararg.arg if a.vararg else None, a.kwarg.arg if a.kwarg else None
        if everything is None:
            bound = self.bind_args(s, node, call, args, kws, is_method=False)
        else:
            bound = {p: everything for p in own}
        for d in a.defaults + [d for d in a.kw_defaults if d is not None]:
            self.expr(d, probe)
        for p in own:
            child.env[p] = bound.get(p, frozenset())
            child.locals.add(p)
        for n in ast.walk(node):
            if isinstance(n, ast.Name) and isinstance(n.ctx, (ast.Store, ast.Del)):
                own.add(n.id)
        child.collect_locals(node)
        child.block(node.body)
        if not probe:
            for k, h in child.sum.hits.items():
                if k in self.sum.hits:
                    self.sum.hits[k].origins = self.sum.hits[k].origins | h.origins
                else:
                    self.sum.hits[k] = h
            for d in child.sum.discharged:
                if d not in self.sum.discharged:
                    self.sum.discharged.append(d)
        for k, v in child.env.items():  # containers of the enclosing scope the closure mutated
            if k not in own and k in self.env and not v <= self.env[k]:
                self.env[k] = self.env[k] | v
        self.body_taint = self.body_taint | child.body_taint
        return child.sum.ret

    def call(self, c, probe):
        if isinstance(c.func, ast.Name) and c.func.id in self.nested:
            args = [self.expr(x, probe) for x in c.args]
            kws = {(k.arg or "**"): self.expr(k.value, probe) for k in c.keywords}
            if not probe:
                self.spec.on_call(c, "?local", self)
            return self.run_nested(self.nested[c.func.id], c, args, kws, probe)
        return super().call(c, probe)

    def _expr(self, e, probe):
        if isinstance(e, ast.Name) and isinstance(e.ctx, ast.Load) and e.id in self.nested:
            everything = frozenset().union(*self.env.values()) if self.env else frozenset()
            return self.run_nested(self.nested[e.id], None, [], {}, probe, everything=everything)
        return super()._expr(e, probe)


class NestProgram(Program):
    """Program whose frames are ``frame_cls`` (default NestFrame)."""

    frame_cls = NestFrame

    def summary(self, mod, fn):
        k = id(fn)
        if k in self.summaries or k in self.in_progress:
            return super().summary(mod, fn)
        self.in_progress.add(k)
        try:
            s = self.frame_cls(self, mod, fn).run()
        finally:
            self.in_progress.discard(k)
        self.summaries[k] = s
        self.analysed.append((mod.rel, qual_of(fn)))
        return s


class DumperSpec(TaintSpec):
    name = "R49.1"
    sanitisers = {
        ESC: "translates every control character except TAB/LF/CR to '.' (table checked by R49.2)",
        "mitmproxy.utils.strutils.bytes_to_escaped_str": "repr() of the bytes: every byte outside printable ASCII becomes a \\x escape",
        "mitmproxy.utils.human.pretty_size": "formats a number: digits, '.', and a unit letter",
        "mitmproxy.utils.human.pretty_duration": "formats a number",
        "mitmproxy.utils.human.format_timestamp": "strftime of a number with a digits-only format",
        "mitmproxy.utils.human.format_timestamp_with_milli": "strftime of a number with a digits-only format",
    }

    def __init__(self, model, attr_types: AttrTypes, entries: set[str], metadata_ok):
        self.model = model
        self.at = attr_types
        self.entries = entries
        self.metadata_ok = metadata_ok  # key -> reason | None
        self.sites: dict[int, tuple] = {}  # id(call) -> (rel, qual, call, what) for every base sink visited
        self._out_chains: dict = {}

    def is_entry(self, fn, an) -> bool:
        return qual_of(fn) in self.entries

    def clean_expr(self, node, frame):
        """``<m>.get("<key>", <const>...)`` / ``<m>["<key>"]`` where <m> is (an alias of) the ``metadata`` dict of a flow: decided by who writes that key."""
        key = None
        if isinstance(node, ast.Call) and isinstance(node.func, ast.Attribute) and node.func.attr == "get" and node.args and not node.keywords \
                and all(isinstance(a, ast.Constant) for a in node.args):
            key, recv = node.args[0].value, node.func.value
        elif isinstance(node, ast.Subscript) and isinstance(node.ctx, ast.Load) and isinstance(node.slice, ast.Constant):
            key, recv = node.slice.value, node.value
        if not isinstance(key, str) or ".metadata" not in norm(recv) and not isinstance(recv, ast.Name):
            return None
        t = frame.taint(recv)
        if t and all(o.text.endswith(".metadata") and not o.via for o in t):
            return self.metadata_ok(key)
        return None

    SOCKET_ATTRS = ("peername", "sockname")

    def socket_attr(self, attr):
        """``.peername`` / ``.sockname``: the numeric (host, port) the OS reports for a socket - as long as the only declarations of that name
        among the classes reachable from a hook argument are the connection classes' ``Address`` fields."""
        if attr not in self.SOCKET_ATTRS:
            return None
        ds = self.at.decl.get(attr) or []
        if ds and all(rel == "mitmproxy/connection.py" and ann is not None and "Address" in norm(ann) for rel, q, ann, value in ds):
            return f".{attr}: socket-level address (numeric host and port reported by the OS), declared only in mitmproxy/connection.py"
        return None

    def call_result(self, call, dotted, frame, operands):
        if dotted == "mitmproxy.contentviews.prettify_message":
            # an object of which only some fields are sanitised: mark the origins, clean_attr discharges the sanitised fields
            return frozenset(o._replace(text=f"{RESULT} {norm(call.func)}(...)", via=()) for o in operands)
        return None

    def clean_attr(self, node, frame):
        base = frame.taint(node.value)
        if base and all(o.text.startswith(RESULT) for o in base):
            return RESULT_CLEAN_FIELDS.get(node.attr)
        return self.at.nonstr(node.attr) or self.socket_attr(node.attr)

    def out_chains(self, mod) -> set:
        """The output streams by role: sys.stdout / sys.stderr, and every ``self.<x>`` that the module binds to an expression naming one of them
        (``self.outfp = outfile or sys.stdout``), is declared as a text stream (``IO[str]`` / ``TextIO``) or is handed to ``print(file=...)``."""
        got = self._out_chains.get(mod.rel)
        if got is None:
            got = set(OUT_CHAINS)
            for n in ast.walk(mod.tree):
                tgt = val = ann = None
                if isinstance(n, ast.Assign) and len(n.targets) == 1:
                    tgt, val = n.targets[0], n.value
                elif isinstance(n, ast.AnnAssign):
                    tgt, val, ann = n.target, n.value, n.annotation
                elif isinstance(n, ast.Call) and attr_chain(n.func) == "print":
                    for k in n.keywords:
                        if k.arg == "file" and attr_chain(k.value).startswith("self."):
                            got.add(attr_chain(k.value))
                ch = attr_chain(tgt) if tgt is not None else ""
                if ch.startswith("self.") and ch.count(".") == 1:
                    if (val is not None and any(attr_chain(x) in OUT_CHAINS for x in ast.walk(val))) or (ann is not None and any(w in norm(ann) for w in ("IO[", "TextIO"))):
                        got.add(ch)
            self._out_chains[mod.rel] = got
        return got

    def on_call(self, call, dotted, frame):
        what = None
        operands = []
        if dotted == "builtins.print":
            what = "print"
            operands = list(call.args) + [k.value for k in call.keywords if k.arg in ("sep", "end")]
        elif isinstance(call.func, ast.Attribute) and call.func.attr in ("write", "writelines"):
            recv = attr_chain(call.func.value)
            chains = self.out_chains(frame.mod)
            aliases = getattr(frame, "_out_aliases", None)
            if aliases is None:
                aliases = frame._out_aliases = {t.id for s in ast.walk(frame.fn) if isinstance(s, ast.Assign) and attr_chain(s.value) in chains
                                                for t in s.targets if isinstance(t, ast.Name)}
            if recv in chains or recv in aliases:
                what = recv + "." + call.func.attr
                operands = list(call.args)
        if what is None:
            return
        self.sites[id(call)] = (frame.mod.rel, frame.qual, call, what)
        for a in operands:
            t = frame.taint(a)
            if t:
                frame.hit("terminal", call, norm(a), t, what)


# ---------------------------------------------------------------------------------------------------
# R49.1 driver (shared by the repository run and the positive examples)


def _is_nested(d) -> bool:
    p = getattr(d, "_parent", None)
    while p is not None:
        if isinstance(p, (ast.FunctionDef, ast.AsyncFunctionDef, ast.Lambda)):
            return True
        p = getattr(p, "_parent", None)
    return False


def _enclosing_class(n):
    p = getattr(n, "_parent", None)
    while p is not None and not isinstance(p, ast.ClassDef):
        p = getattr(p, "_parent", None)
    return p


def callee_qual(q, c: ast.Call):
    """qualname of the same-module function a call inside function ``q`` names (self.m(...) / cls.m(...) / m(...)), else None."""
    if isinstance(c.func, ast.Attribute) and isinstance(c.func.value, ast.Name) and c.func.value.id in ("self", "cls") and "." in q:
        return f"{q.rsplit('.', 1)[0]}.{c.func.attr}"
    if isinstance(c.func, ast.Name):
        return c.func.id
    return None


def call_graph(mod) -> dict:
    out: dict = {}
    for q, d in mod.defs().items():
        if isinstance(d, (ast.FunctionDef, ast.AsyncFunctionDef)) and not _is_nested(d):
            out[q] = {t for c in walk_in_order(d) if isinstance(c, ast.Call) for t in [callee_qual(q, c)] if t is not None and mod.get(t) is not None}
    return out


def run_dumper(model, mod, cls_name, attr_types, hooks, metadata_ok):
    cls = mod.get(cls_name)
    if not isinstance(cls, ast.ClassDef):
        raise AnalysisError(f"anchor class vanished: {mod.rel}::{cls_name}")
    fns = [(q, d) for q, d in mod.defs().items() if isinstance(d, (ast.FunctionDef, ast.AsyncFunctionDef)) and not _is_nested(d)]
    # who is called from inside the module (self.m(...), m(...), or referenced as a value: self.m without a call counts too)
    called = set()
    for n in walk_in_order(mod.tree):
        if isinstance(n, ast.Attribute) and isinstance(n.value, ast.Name) and n.value.id in ("self", "cls"):
            c = _enclosing_class(n)
            called.add(f"{c._qual}.{n.attr}" if c is not None else n.attr)
        elif isinstance(n, ast.Name) and isinstance(n.ctx, ast.Load) and isinstance(mod.get(n.id), (ast.FunctionDef, ast.AsyncFunctionDef)):
            called.add(n.id)
    entries = set()
    for q, d in fns:
        is_method = isinstance(getattr(d, "_parent", None), ast.ClassDef)
        if (is_method and d.name in hooks) or q not in called:
            entries.add(q)
    spec = DumperSpec(model, attr_types, entries, metadata_ok)
    prog = NestProgram(model, spec)
    hits = prog.run([(mod, d) for q, d in fns])
    # derived sinks: functions whose summary carries a parameter-rooted hit
    derived = {}
    for q, d in fns:
        s = prog.summaries.get(id(d))
        if s is None:
            raise AnalysisError(f"{mod.rel}::{q} was not analysed")
        ps = sorted({o.root for h in s.hits.values() for o in h.origins if o.kind == "param"})
        if ps:
            derived[q] = ps
    # sink sites = base sinks + every call of a derived sink
    sites = {k: v for k, v in spec.sites.items()}
    for q, d in fns:
        for c in walk_in_order(d):
            if isinstance(c, ast.Call):
                tgt = None
                if isinstance(c.func, ast.Attribute) and isinstance(c.func.value, ast.Name) and c.func.value.id in ("self", "cls") and "." in q:
                    tgt = f"{q.rsplit('.', 1)[0]}.{c.func.attr}"
                elif isinstance(c.func, ast.Name):
                    tgt = c.func.id
                if tgt in derived:
                    sites[id(c)] = (mod.rel, q, c, norm(c.func))
    return spec, prog, hits, entries, derived, sites


def metadata_writers(model):
    """key -> reason if every ``<x>.metadata["key"] = v`` in mitmproxy/** stores a value that is non-string by declaration."""
    writes: dict[str, list] = {}
    for mod in modules_where(model, lambda src: "metadata[" in src):
        for n in walk_in_order(mod.tree):
            if isinstance(n, ast.Assign):
                for t in n.targets:
                    if isinstance(t, ast.Subscript) and attr_chain(t.value).endswith("metadata") and isinstance(t.slice, ast.Constant) and isinstance(t.slice.value, str):
                        writes.setdefault(t.slice.value, []).append((mod, n))

    def ok(key):
        ws = writes.get(key)
        if not ws:
            return None
        for mod, n in ws:
            v = n.value
            good = isinstance(v, ast.Constant) and not isinstance(v.value, (str, bytes))
            if not good and isinstance(v, ast.Attribute) and attr_chain(v).startswith("self.") and attr_chain(v).count(".") == 1:
                c = n
                while c is not None and not isinstance(c, ast.ClassDef):
                    c = getattr(c, "_parent", None)
                good = c is not None and AttrTypes(model, [(mod, c)]).nonstr(v.attr) is not None
            if not good:
                return None
        return f"flow.metadata[{key!r}] is written in mitmproxy/** only with non-string values ({', '.join(sorted({f'{m.rel}::{qual_of(n)}' for m, n in ws}))})"

    return ok


# ---------------------------------------------------------------------------------------------------
# R49.2: the sanitiser, interpreted


def check_escape_semantics(ctx):
    """escape_control_characters is *interpreted* (pyint) on representatives of every combination of character classes; whatever the function
    does before / instead of / after ``str.translate`` (fast paths, regex pre-checks, helper functions, loops) is part of what is analysed."""
    fn = ctx.func(SU, "escape_control_characters")
    params = [a.arg for a in fn.args.posonlyargs + fn.args.args + fn.args.kwonlyargs]
    ctx.require(len(params) >= 2, "escape_control_characters no longer takes (text, keep_spacing)")
    res, tables = interpret_sanitiser(ctx.model, SU, "escape_control_characters", keep_kw=params[1])
    n_in = len(control_character_domain())
    for keep, (leaked, example) in res.items():
        ctx.cells += n_in
        ranges = _ranges(sorted(leaked))
        ex = f"escape_control_characters({example[0][:24]!r}, keep_spacing={keep}) == {example[1][:24]!r}" if example else ""
        ctx.check(not leaked, "R49.2", (SU, "escape_control_characters", fn), f"escape_control_characters(keep_spacing={keep}) lets {ranges} through" if leaked else f"escape_control_characters(keep_spacing={keep})",
                  f"control characters {ranges} pass through escape_control_characters unchanged for some inputs: {ex} (U+009B is CSI, U+009D OSC, U+001B ESC)",
                  desc=f"escape_control_characters(keep_spacing={keep}), interpreted on {n_in} inputs (every Cc code point alone / embedded, every combination of C0, TAB-LF-CR, DEL, C1): no control character "
                       "other than TAB/LF/CR (which the property allows) in any output")
    return tables


def _ranges(xs):
    out, i = [], 0
    while i < len(xs):
        j = i
        while j + 1 < len(xs) and xs[j + 1] == xs[j] + 1:
            j += 1
        out.append(f"U+{xs[i]:04X}" + (f"-U+{xs[j]:04X}" if j > i else ""))
        i = j + 1
    return ",".join(out)


# ---------------------------------------------------------------------------------------------------


class _ResultSpec(TaintSpec):
    """R49.3: every parameter of the analysed function is a source; the only sanitiser is escape_control_characters; the abstract value of a
    ``ContentviewResult`` object is the taint of its ``text`` field (``_ResultFrame``)."""

    name = "R49.3"
    sanitisers = {ESC: "escape_control_characters (R49.2)"}

    def __init__(self, model, root, result_cls):
        self.model, self.root, self.result_cls = model, root, result_cls
        self.fields = [st.target.id for st in result_cls.body if isinstance(st, ast.AnnAssign) and isinstance(st.target, ast.Name)]
        self.returns: list = []  # (Return stmt, taint of the returned object's text)

    def is_entry(self, fn, an) -> bool:
        return fn is self.root

    def param_kind(self, fn, arg, an):
        if arg.arg in ("self", "cls"):
            return None
        return "src" if fn is self.root else "param"  # (also int-annotated ones: nothing is assumed about the callers of prettify_message)

    def constructs_result(self, call, frame) -> bool:
        r = self.model.resolve_name(frame.mod, call.func) if isinstance(call.func, (ast.Name, ast.Attribute)) else None
        return r is not None and r[1] is self.result_cls

    def text_operand(self, call):
        for k in call.keywords:
            if k.arg == "text":
                return k.value
        i = self.fields.index("text")
        if len(call.args) > i and not any(isinstance(a, ast.Starred) for a in call.args[: i + 1]):
            return call.args[i]
        return None

    def call_result(self, call, dotted, frame, operands):
        if self.constructs_result(call, frame):
            t = self.text_operand(call)
            if t is None:
                raise AnalysisError(f"{frame.mod.rel}::{frame.qual}: {norm(call)[:60]} does not name its text operand (shape not modelled)")
            return frame.taint(t)
        if dotted in ("dataclasses.replace", "copy.replace") and call.args and frame.is_result(call.args[0]):
            for k in call.keywords:
                if k.arg == "text":
                    return frame.taint(k.value)
            return frame.taint(call.args[0])
        return None

    def on_return(self, stmt, taint, frame):
        if frame.fn is self.root:
            self.returns.append((stmt, taint))


class _ResultFrame(NestFrame):
    """Frame with one level of field sensitivity for result objects: the taint of a local that holds a ContentviewResult is the taint of its
    ``text`` field; ``x.text = v`` is a strong update; the other fields are kept aside (flow-insensitively) and never leak into ``text``."""

    def __init__(self, prog, mod, fn, env=None):
        super().__init__(prog, mod, fn, env)
        spec = self.spec
        cname = spec.result_cls.name
        names = set()
        a = fn.args
        for x in a.posonlyargs + a.args + a.kwonlyargs:
            if x.annotation is not None and cname in {n.id if isinstance(n, ast.Name) else getattr(n, "attr", None) for n in ast.walk(x.annotation)} | (
                    {x.annotation.value} if isinstance(x.annotation, ast.Constant) else set()):
                names.add(x.arg)
        grew = True
        while grew:
            grew = False
            for n in ast.walk(fn):
                tgt, val, ann = None, None, None
                if isinstance(n, ast.Assign) and len(n.targets) == 1:
                    tgt, val = n.targets[0], n.value
                elif isinstance(n, ast.AnnAssign):
                    tgt, val, ann = n.target, n.value, n.annotation
                elif isinstance(n, ast.NamedExpr):
                    tgt, val = n.target, n.value
                if not isinstance(tgt, ast.Name) or tgt.id in names:
                    continue
                if (ann is not None and last_attr(ann) == cname) or self._yields_result(val, names):
                    names.add(tgt.id)
                    grew = True
        self.result_vars = names
        self.rest: dict = {}

    def _yields_result(self, val, names) -> bool:
        if isinstance(val, ast.Name):
            return val.id in names
        if isinstance(val, ast.IfExp):
            return self._yields_result(val.body, names) or self._yields_result(val.orelse, names)
        if isinstance(val, ast.Call):
            if self.spec.constructs_result(val, self):
                return True
            if last_attr(val.func) == "replace" and val.args and isinstance(val.args[0], ast.Name) and val.args[0].id in names:
                return True
            tgt = self.prog.resolve(self.mod, val, self)
            if tgt is not None and tgt[1].returns is not None and last_attr(tgt[1].returns) == self.spec.result_cls.name:
                return True
        return False

    def is_result(self, e) -> bool:
        return isinstance(e, ast.Name) and e.id in self.result_vars

    def bind(self, target, v, value_node):
        if isinstance(target, ast.Attribute) and self.is_result(target.value):
            name = target.value.id
            if target.attr == "text":
                self.env[name] = v  # strong update of the one field the rule is about
            else:
                self.rest[name] = self.rest.get(name, frozenset()) | v
            return
        if isinstance(target, ast.Name) and target.id in self.result_vars and isinstance(value_node, ast.Call) and self.spec.constructs_result(value_node, self):
            others = [x for x in list(value_node.args) + [k.value for k in value_node.keywords] if x is not self.spec.text_operand(value_node)]
            self.rest[target.id] = self.rest.get(target.id, frozenset()).union(*[self.taint(x) for x in others])
        elif isinstance(target, ast.Name) and self.is_result(value_node):
            self.rest[target.id] = self.rest.get(target.id, frozenset()) | self.rest.get(value_node.id, frozenset())
        super().bind(target, v, value_node)

    # -- in-place helpers: ``def _sanitize(result): result.text = escape(result.text)`` -> the text of the caller's object after the call
    def run(self):
        a = self.fn.args
        rebound = {n.id for n in ast.walk(self.fn) if isinstance(n, ast.Name) and isinstance(n.ctx, (ast.Store, ast.Del))}
        self.out_params = [x.arg for x in a.posonlyargs + a.args + a.kwonlyargs if x.arg in self.result_vars and x.arg not in rebound]
        self.text_out: dict = {}
        s = super().run()
        s.text_out = self.text_out
        return s

    def _exit(self):
        for p_ in self.out_params:
            self.text_out[p_] = self.text_out.get(p_, frozenset()) | self.env.get(p_, frozenset())

    def block(self, stmts) -> bool:
        ok = super().block(stmts)
        if ok and stmts is self.fn.body:
            self._exit()  # falls off the end
        return ok

    def stmt(self, st) -> bool:
        r = super().stmt(st)
        if isinstance(st, ast.Return):
            self._exit()
        return r

    def call(self, c, probe):
        t = super().call(c, probe)
        target = self.prog.resolve(self.mod, c, self) if not (isinstance(c.func, ast.Name) and c.func.id in self.nested) else None
        if target is not None:
            sm = self.prog.summary(*target)
            outs = getattr(sm, "text_out", None)
            if outs:
                args = [self.expr(x, True) for x in c.args]
                kws = {(k.arg or "**"): self.expr(k.value, True) for k in c.keywords}
                bound = self.bind_args(sm, target[1], c, args, kws, is_method=isinstance(c.func, ast.Attribute))
                params = [x for x in sm.params if x not in ("self", "cls")] if isinstance(c.func, ast.Attribute) or (sm.params and sm.params[0] in ("self", "cls")) else list(sm.params)
                actual = {params[i]: x for i, x in enumerate(c.args) if i < len(params) and not isinstance(x, ast.Starred)}
                actual.update({k.arg: k.value for k in c.keywords if k.arg})
                for p_, out in outs.items():
                    x = actual.get(p_)
                    if self.is_result(x):
                        new = set()
                        for o in out:
                            if o.kind == "src":
                                new.add(o)
                            else:
                                new |= bound.get(o.root, frozenset())
                        self.env[x.id] = frozenset(new)
        return t

    def _expr(self, e, probe):
        if isinstance(e, ast.Attribute) and self.is_result(e.value):
            text = self.env.get(e.value.id, frozenset())
            return text if e.attr == "text" else text | self.rest.get(e.value.id, frozenset())
        return super()._expr(e, probe)


class _ResultProgram(NestProgram):
    frame_cls = _ResultFrame


def check_prettify(ctx):
    """R49.3 by dataflow: on every path, the ``text`` of the object ``prettify_message`` returns is a constant or passed
    escape_control_characters after its last write.  Statements that do not write the text (asserts, logging, other fields) are transparent;
    helpers of the same module are followed through their summaries."""
    fn = ctx.func(CV, "prettify_message")
    mod = ctx.model.module(CV)
    res = ctx.model.resolve_name(mod, fn.returns) if fn.returns is not None and not isinstance(fn.returns, ast.Constant) else None
    if res is None or not isinstance(res[1], ast.ClassDef):
        res = (mod, mod.get("ContentviewResult"))
    ctx.require(isinstance(res[1], ast.ClassDef), "prettify_message: the class of its result (return annotation / ContentviewResult) is not a repository class")
    spec = _ResultSpec(ctx.model, fn, res[1])
    ctx.require("text" in spec.fields, f"{res[1].name} has no annotated `text` field any more")
    prog = _ResultProgram(ctx.model, spec)
    prog.run([(mod, fn)])
    for rel, q in prog.analysed:
        ctx.functions.add(f"{rel}::{q}")
    ctx.require(spec.returns, "prettify_message: no return statement with a value")
    seen, dirty = set(), False
    for r, t in spec.returns:
        if id(r) in seen:
            continue
        seen.add(id(r))
        t = frozenset().union(*[tt for rr, tt in spec.returns if rr is r])
        real = sorted({o.text for o in t if o.kind == "src"})
        what = f"return {norm(r.value)[:50]}" if not isinstance(r.value, ast.Call) else f"return {norm(r.value.func)}(...)"
        dirty = dirty or bool(real)
        ctx.check(not real, "R49.3", (CV, "prettify_message", r), f"{what}: text not escaped" if real else what,
                  f"the text of the returned result still carries {', '.join(real[:4])} without having passed escape_control_characters on some path",
                  desc=f"{what}: text is constant or escaped on every path")
    esc = [d for d, why in prog.discharged() if why == _ResultSpec.sanitisers[ESC]]
    ctx.require(esc or dirty, "prettify_message: no data derived from its parameters passes escape_control_characters any more (rule would hold vacuously)")
    ctx.note(f"R49.3 escaped on the way to the result: {esc}")
    ctx.expect_instances("R49.3", 1)


def check(ctx):
    m = ctx.model
    ctx.rule("R49.1", "every hook-argument-derived string reaching print()/outfp.write() (directly, through echo, or through any helper) passed a sanitiser "
             "of the table or is non-string by declaration (else a peer can inject terminal control sequences)")
    ctx.rule("R49.2", "escape_control_characters (interpreted) lets no Cc code point through, except TAB/LF/CR, for any combination of character classes, keep_spacing on and off")
    ctx.rule("R49.3", "the text of the result prettify_message returns is a constant or passed escape_control_characters after its last write, on every path")
    ctx.assume("a callee outside dumper.py returns data derived from its operands only (strutils.cut_after_n_lines, mitmproxy_rs.syntax_highlight.highlight, "
               "miniclick.style, flow.Error, dns.*.to_str)")
    ctx.assume("ctx.options, module-level constants and socket-level peername/sockname (Connection fields of type Address) are not peer-controlled text")
    ctx.trust("CPython repr(bytes) escapes every byte outside printable ASCII (bytes_to_escaped_str)")
    ctx.trust("wsproto.frame_protocol.Opcode / CloseReason are Enums")

    mod = m.module(F)
    ctx.cls = m.cls(F, "Dumper")
    thorough = ctx.tier == "thorough"
    # nobody outside dumper.py calls into a Dumper (its public helpers are summarised from their in-module call sites only)
    users = modules_where(m, lambda src: "Dumper" in src)
    if thorough:
        full = [o.rel for o in m.all_modules() if "Dumper" in o.source]
        ctx.require(full == [o.rel for o in users], "lazy module selection disagrees with the whole-package scan (users of Dumper)")
    for other in users:
        if other.rel == F:
            continue
        for n in walk_in_order(other.tree):
            if (isinstance(n, ast.Name) and n.id == "Dumper") or (isinstance(n, ast.Attribute) and n.attr == "Dumper"):
                p = n._parent
                if isinstance(p, (ast.alias, ast.ImportFrom)):
                    continue
                ctx.require(isinstance(p, ast.Call) and p.func is n and isinstance(p._parent, ast.Call) and p in p._parent.args,
                            f"{other.rel}::{qual_of(n)}: Dumper is used other than as `<register>(Dumper())` - external callers of its helpers are not modelled")
    hooks = hook_names(m)
    if thorough:
        ctx.require({k: v[1].name for k, v in hook_names(m, full=True).items()} == {k: v[1].name for k, v in hooks.items()},
                    "lazy module selection disagrees with the whole-package scan (hook classes)")
    ctx.require(len(hooks) >= 40 and {"response", "websocket_message", "tcp_message", "dns_response"} <= set(hooks), f"hook name derivation broke ({len(hooks)} names)")
    # static shape of what hangs off a hook argument: classes reachable from the field types of the hooks Dumper implements
    seeds = []
    for st in ctx.cls.body:
        if isinstance(st, (ast.FunctionDef, ast.AsyncFunctionDef)) and st.name in hooks:
            hm, hc = hooks[st.name]
            for fld in hc.body:
                if isinstance(fld, ast.AnnAssign):
                    seeds += annotation_classes(m, hm, fld.annotation)
    closure = class_closure_lazy(m, seeds)
    if thorough:
        ctx.require({(cm.rel, c._qual) for cm, c in class_closure(m, seeds)} == {(cm.rel, c._qual) for cm, c in closure},
                    "lazy class closure disagrees with the whole-package class closure")
    closure.sort(key=lambda mc: (mc[0].rel, mc[1].lineno))
    names = {c.name for _, c in closure}
    ctx.require({"HTTPFlow", "TCPFlow", "UDPFlow", "DNSFlow", "Request", "Response", "WebSocketData", "WebSocketMessage", "Error", "Server", "Client", "Question",
                 "ResourceRecord", "DNSMessage", "TCPMessage"} <= names, f"flow object-graph closure broke: {sorted(names)[:40]}")
    ctx.note(f"R49.1 name typing over the {len(closure)} classes reachable from the hook argument types")
    at = AttrTypes(m, closure)
    md_ok = metadata_writers(m)
    spec, prog, hits, entries, derived, sites = run_dumper(m, mod, "Dumper", at, hooks, md_ok)
    for rel, q in prog.analysed:
        ctx.functions.add(f"{rel}::{q}")
    # anchors by role: a method of Dumper writes to the output stream (base sink), and some method is a derived sink through one of its parameters
    base_in_dumper = sorted({v[1] for v in spec.sites.values() if v[1].startswith("Dumper.")})
    ctx.require(base_in_dumper, "no method of Dumper prints / writes to the output stream any more (sink anchor changed)")
    ctx.require(any(q.startswith("Dumper.") for q in derived), "no method of Dumper passes a parameter on to the output stream any more (sink anchor changed)")
    want_entries = {"Dumper.response", "Dumper.error", "Dumper.http_connect_error", "Dumper.websocket_message", "Dumper.websocket_end", "Dumper.tcp_error",
                    "Dumper.udp_error", "Dumper.tcp_message", "Dumper.udp_message", "Dumper.dns_response", "Dumper.dns_error"}
    ctx.require(want_entries <= entries, f"hook methods of Dumper not recognised as entries: {sorted(want_entries - entries)}")
    # non-vacuity by role instead of a count of call sites (which changes with every extracted helper): every hook that prints reaches a
    # checked sink site through the module's call graph, and data derived from hook arguments is discharged by both escaping sanitisers.
    graph = call_graph(mod)
    site_quals = {v[1] for v in sites.values()}
    for e in sorted(want_entries):
        reach, todo = set(), [e]
        while todo:
            q = todo.pop()
            if q not in reach:
                reach.add(q)
                todo.extend(graph.get(q, ()))
        ctx.require(reach & site_quals, f"{e}: no checked sink site is reachable from this hook any more (anchor moved)")
    reasons = {why for _, why in prog.discharged()}
    for san in (ESC, "mitmproxy.utils.strutils.bytes_to_escaped_str"):
        ctx.require(DumperSpec.sanitisers[san] in reasons, f"nothing derived from a hook argument passes {san.rsplit('.', 1)[1]} in dumper.py any more (rule would hold vacuously)")
    ctx.note(f"R49.1 entries (parameters are sources): {sorted(entries)}")
    ctx.note("R49.1 derived sinks (parameter -> terminal): " + "; ".join(f"{q}({', '.join(ps)})" for q, ps in sorted(derived.items())))
    by_site: dict[int, list] = {}
    for h in hits:
        by_site.setdefault(id(h.node), []).append(h)
        if id(h.node) not in sites:
            sites[id(h.node)] = (h.rel, h.qual, h.node, h.desc)
    for sid, (rel, q, call, what) in sorted(sites.items(), key=lambda kv: kv[1][2].lineno):
        hs = by_site.get(sid, [])
        if hs:
            for h in hs:
                for o in sorted(h.origins, key=lambda o: (o.text, o.via)):
                    hops = [v for v in o.via if not v.endswith(": text")]  # drop the pass-through hops (echo/style/indent: text)
                    via = f" [{' > '.join(hops)}]" if hops else ""
                    ctx.fail("R49.1", (rel, q, call), f"{norm(call.func)} <- {o.text}{via}",
                             f"flow-derived text reaches the terminal unescaped (operand `{h.arg}`{', base sink ' + h.desc if h.desc else ''}; path: {' > '.join(o.via) or 'direct'})",
                             origin=o.text, via=list(o.via))
        else:
            ctx.ok("R49.1", f"{q}: {norm(call)[:90]}")
    for d, why in prog.discharged():
        ctx.note(f"R49.1 discharged {d}: {why}")
    ctx.expect_instances("R49.1", 3)

    # positive examples
    pos = load_positive("R49_1.py")
    pspec, pprog, phits, pentries, pderived, psites = run_dumper(SnippetModel(pos, m), pos, "Dumper", at, hooks, md_ok)
    marks = expected_markers(pos)
    want, clean = set(marks.get("EXPECT:R49.1", [])), set(marks.get("CLEAN:R49.1", []))
    got = {h.node.lineno for h in phits}
    checked = {v[2].lineno for v in psites.values()}
    if got != want or not clean <= checked or len(want) < 10:
        raise AnalysisError(f"R49.1 positive examples: reported lines {sorted(got)}, expected {sorted(want)}; clean sites checked {sorted(clean & checked)} of {sorted(clean)}")
    ctx.note(f"R49.1 positive examples: {len(want)} unescaped sink operands reported, {len(clean)} escaped / symbolic sites silent")

    check_escape_semantics(ctx)
    ctx.expect_instances("R49.2", 2)
    check_prettify(ctx)


def _unwrap(name, old, new, rule="R49.1", file=F, count=1):
    return Mutant(name, file, old, new, rule, count)


MUTANTS = [
    # reverse of the fix 75efb372f, one per kind of sink operand
    _unwrap("unescaped-request-http-version", 'http_version = " " + strutils.escape_control_characters(\n                flow.request.http_version\n            )',
            'http_version = " " + flow.request.http_version'),
    _unwrap("unescaped-response-http-version", "strutils.escape_control_characters(flow.response.http_version) + \" \"", "flow.response.http_version + \" \""),
    _unwrap("unescaped-websocket-path", 'f"{strutils.escape_control_characters(f.request.path)}"', 'f"{f.request.path}"'),
    _unwrap("unescaped-websocket-server-address", 'f"{direction} {strutils.escape_control_characters(human.format_address(f.server_conn.address))}"',
            'f"{direction} {human.format_address(f.server_conn.address)}"'),
    _unwrap("unescaped-close-reason", 'f"{strutils.escape_control_characters(str(f.websocket.close_reason))}"', 'f"{f.websocket.close_reason}"'),
    _unwrap("unescaped-close-reason-in-helper", "            reason = strutils.escape_control_characters(websocket.close_reason)\n", "            reason = websocket.close_reason\n"),
    _unwrap("unescaped-websocket-error-address", 'f"Error in WebSocket connection to "\n                    f"{strutils.escape_control_characters(human.format_address(f.server_conn.address))}: {error}"',
            'f"Error in WebSocket connection to "\n                    f"{human.format_address(f.server_conn.address)}: {error}"'),
    _unwrap("unescaped-proto-error-message", 'f"{strutils.escape_control_characters(str(f.error))}"', 'f"{f.error}"'),
    _unwrap("unescaped-proto-error-address", 'f"{strutils.escape_control_characters(human.format_address(f.server_conn.address))}: "\n', 'f"{human.format_address(f.server_conn.address)}: "\n'),
    _unwrap("unescaped-proto-message-address", "server=strutils.escape_control_characters(\n                        human.format_address(f.server_conn.address)\n                    ),",
            "server=human.format_address(f.server_conn.address),"),
    _unwrap("unescaped-dns-question-name", "strutils.escape_control_characters(f.request.questions[0].name), bold=True", "f.request.questions[0].name, bold=True"),
    _unwrap("unescaped-dns-answers", "strutils.escape_control_characters(str(x)), fg=\"bright_blue\"", "str(x), fg=\"bright_blue\""),
    # wrappers that were already there
    _unwrap("unescaped-method", "strutils.escape_control_characters(method), fg=method_color, bold=True", "method, fg=method_color, bold=True"),
    _unwrap("unescaped-url", "url = self.style(strutils.escape_control_characters(url), bold=True)", "url = self.style(url, bold=True)"),
    _unwrap("unescaped-reason", "strutils.escape_control_characters(reason), fg=code_color, bold=True", "reason, fg=code_color, bold=True"),
    _unwrap("unescaped-error-msg", "            msg = strutils.escape_control_characters(f.error.msg)\n            self.echo(f\" << {msg}\", bold=True, fg=\"red\")\n\n        self.outfp.flush()",
            "            msg = f.error.msg\n            self.echo(f\" << {msg}\", bold=True, fg=\"red\")\n\n        self.outfp.flush()"),
    _unwrap("unescaped-header-value", "            vs = strutils.bytes_to_escaped_str(v)\n", "            vs = v.decode(\"utf8\", \"replace\")\n"),
    _unwrap("raw-body-instead-of-prettified", "            content_to_echo = pretty.text\n\n        if content_to_echo:\n            highlighted = mitmproxy_rs.syntax_highlight.highlight(\n                pretty.text, pretty.syntax_highlight\n            )",
            "            content_to_echo = pretty.text\n\n        if content_to_echo:\n            highlighted = mitmproxy_rs.syntax_highlight.highlight(\n                message.text, pretty.syntax_highlight\n            )"),
    _unwrap("peername-swapped-for-address", "client=human.format_address(f.client_conn.peername),", "client=human.format_address(f.client_conn.address),"),
    # new unescaped outputs
    _unwrap("new-echo-of-sni", "    def tcp_error(self, f):\n        self._proto_error(f)\n", "    def tcp_error(self, f):\n        self.echo(f\"SNI {f.client_conn.sni}\")\n        self._proto_error(f)\n"),
    _unwrap("new-direct-print", "        self.outfp.flush()\n", "        print(f.request.host, file=self.outfp)\n        self.outfp.flush()\n"),
    _unwrap("style-keyword-from-flow", "            self.echo(f\" << {msg}\", bold=True, fg=\"red\")\n\n        self.outfp.flush()", "            self.echo(f\" << {msg}\", bold=True, fg=f.error.msg)\n\n        self.outfp.flush()"),
    _unwrap("escape-then-append-raw", "        url = self.style(strutils.escape_control_characters(url), bold=True)\n", "        url = self.style(strutils.escape_control_characters(url), bold=True)\n        url += flow.request.path\n"),
    _unwrap("remembered-host-echoed-later", "    def tcp_error(self, f):\n        self._proto_error(f)\n",
            "    def tcp_start(self, f):\n        self.last = f.server_conn.sni\n\n    def tcp_error(self, f):\n        self.echo(f\"last: {self.last}\")\n        self._proto_error(f)\n"),
    # R49.2 (first: reverse of the fix ff8413d45)
    _unwrap("table-without-c1-controls", "_control_char_trans.update({x: ord(\".\") for x in range(128, 160)})  # C1 controls\n", "", "R49.2", SU),
    _unwrap("table-c1-stops-before-csi", "for x in range(128, 160)})", "for x in range(128, 155)})", "R49.2", SU),
    _unwrap("table-stops-before-esc", "    for x in range(32)  # x + 0x2400 for unicode control group pictures\n", "    for x in range(27)  # x + 0x2400 for unicode control group pictures\n", "R49.2", SU),
    _unwrap("table-without-del", "_control_char_trans[127] = ord(\".\")  # 0x2421\n", "", "R49.2", SU),
    _unwrap("table-keeps-escape-as-spacing", "for x in (\"\\r\", \"\\n\", \"\\t\"):\n", "for x in (\"\\r\", \"\\n\", \"\\t\", \"\\x1b\"):\n", "R49.2", SU),
    _unwrap("table-maps-to-bell", "    x: ord(\".\")\n", "    x: 7\n", "R49.2", SU),
    _unwrap("fast-path-regex-without-c1", "    trans = _control_char_trans_newline if keep_spacing else _control_char_trans\n    return text.translate(trans)",
            "    if not re.search(r\"[\\x00-\\x1f\\x7f]\", text):\n        return text\n    trans = _control_char_trans_newline if keep_spacing else _control_char_trans\n    return text.translate(trans)", "R49.2", SU),
    _unwrap("fast-path-ascii-returned-unchanged", "    trans = _control_char_trans_newline if keep_spacing else _control_char_trans\n    return text.translate(trans)",
            "    if text.isascii():\n        return text\n    trans = _control_char_trans_newline if keep_spacing else _control_char_trans\n    return text.translate(trans)", "R49.2", SU),
    _unwrap("translate-only-first-line", "    trans = _control_char_trans_newline if keep_spacing else _control_char_trans\n    return text.translate(trans)",
            "    trans = _control_char_trans_newline if keep_spacing else _control_char_trans\n    head, sep, tail = text.partition(\"\\n\")\n    return head.translate(trans) + sep + tail", "R49.2", SU),
    # R49.3
    _unwrap("prettify-no-escape", "    ret.text = strutils.escape_control_characters(ret.text)\n    return ret\n", "    return ret\n", "R49.3", CV),
    _unwrap("prettify-missing-content-echoes-header", "            text=\"Content is missing.\",\n", "            text=f\"Content is missing ({enc}).\",\n", "R49.3", CV),
]
