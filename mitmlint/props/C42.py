"""C42 - filter expressions mean what the documented grammar says.

Nothing is matched syntactically any more.  ``flowfilter.parse`` - and through it the module constant ``bnf``, ``_make()``, the operator
registries, helper functions and constants they use, every parse action (``cls.make``, the lambdas of the precedence table) and the
constructors of the operator classes - is INTERPRETED from its AST (pyint; nothing is imported or run) with ``pyparsing`` bound to a
model of the pyparsing subset the grammar uses (props/_helpers_pp.py: element constructors, whitespace rules, MatchFirst order, WordEnd,
CharsNotIn, QuotedString, Word, Group / Suppress / Opt / Forward, infix_notation expanded like helpers.infix_notation does, parse
actions with arity trimming).  The rules then *parse expression strings* with the grammar the repository code builds and compare the
resulting filter objects with the documented meaning:

  R42.1 connectives: expression trees over four atoms (two operators without argument, one with an unquoted and one with a quoted regex)
        with ``!``, ``&``, ``|``, juxtaposition and parentheses - rendered with the minimal parentheses the documented precedence
        ``! > & > |`` (juxtaposition = conjunction, loosest) needs, with varied spacing and fully parenthesised - are parsed; the
        resulting object is evaluated (``__call__`` of FAnd / FOr / FNot interpreted, the atoms replaced by truth-value stubs) under
        every truth assignment and must give the verdict of the documented semantics.  A swapped precedence row, a postfix ``!``, ``&``
        building FOr, FAnd computing any(), FNot not negating or keeping the token group, an unsuppressed operator literal, juxtaposition
        building FOr all change the verdict of some expression.  (quick: ~50 trees x up to 3 renderings; thorough: all trees up to depth 2
        over 3 atoms, sampled.)
  R42.2 operators: for EVERY concrete operator class (an _Action subclass with a ``code``; codes must be unique) the documented forms
        ``~code`` / ``~code rex`` / ``~code "r e x"`` / ``~code 'r e x'`` / ``~code 200`` are parsed and must yield exactly one object
        of that class whose compiled pattern is the argument, found case-insensitively and unanchored in a probe string; a bare regex is
        ``~u``; invalid expressions / invalid regexes surface as ValueError from parse() (never a pyparsing exception, TypeError or
        re.error).  So a class missing from its registry, registered in the list of another arity, a duplicate code, a missing
        WordEnd() (``~bq x`` read as ``~b q`` + ``x``; ``~all`` as ``~a`` + ``ll``), a lost quoted-string alternative, an unquoted regex
        that swallows the closing parenthesis, make() keeping the operator token, a case-sensitive compile, the naked regex wired to
        another class are all violations - however the grammar code is organised.  Every regex operator applies its pattern with
        ``search`` (recorded by R42.3's pattern stub).
  R42.3 documented part of the flow: ``__call__`` of every regex operator class - with its decorators, i.e. through
        ``only(...)`` - is interpreted on abstract flows of every type
        (HTTP with / without response and WebSocket messages, TCP, UDP, DNS with / without response) whose parts are
        distinct tokens, with a recording pattern in place of the compiled one.  (a) With a pattern that matches nothing, the set
        of parts the pattern is applied to must EQUAL the documented one (table SUBJECTS below: ~d = the host the request
        goes to and the host named by Host/:authority, ~u = the pretty URL / the DNS question name, ~hq = the request
        header block, ~bq = request body + client WebSocket/TCP/UDP messages + DNS request ...) and the verdict is False;
        the subject has the type of the pattern (str for _StrRex, bytes for _BinRex).  (b) With a pattern that matches
        exactly one documented part, the verdict is True.  Narrowing (~d looking at pretty_host only), redirecting (~hq
        at the response) and and-ing instead of or-ing the parts all change the verdict of some flow.
  R42.4 operators without a regex argument: ``__call__`` of every unary / integer operator class (through ``only(...)``, built through
        its constructor: ``~c 200``) is interpreted on the same abstract flows plus variants (error set, marked, replayed request /
        response, status 404, asset content-type on the response / on the request only); the verdict must equal the documented one
        (table _verdict_spec: ~q = HTTP or DNS flow without response, ~a = HTTP response with an asset content-type ...).
NOT decided: pyparsing itself (the model is trusted; it was compared with pyparsing 3.3.2 on the repository's grammar by differential
fuzzing when it was written), verdict equality over *all* generated expressions (a bounded family is decided).
Findings on today's tree: F-C42juxt (known, ONE finding keyed `R42.1|mitmproxy/flowfilter.py|_make|implicit conjunction inside a
parenthesised group is rejected`): `(~e ~marked)` is rejected - juxtaposition is only available at the top level.  F-C42paren (an operator
directly followed by ")" was rejected because WordEnd() counted ")" as a word character) was found by these rules and is fixed in /repo
6d8fbca37; the tight forms `(~q)`, `(~q | ~s)`, `!(~q)`, `(~u x | ~q)` are required samples and mutant F-C42paren-reverted re-introduces it.
"""

from __future__ import annotations

import ast
import itertools
import random
import re as _re
import types as _types

from ..core import AnalysisError
from ..selftest import Mutant
from ._helpers_F import class_members

PROP = "C42"
REG = {
    "strength": "partial",
    "technique": "interpretation (pyint) of flowfilter.parse / _make / parse actions / operator constructors against a model of pyparsing; "
    "the interpreted grammar parses generated expressions (connective trees, every operator in every argument form) and the resulting "
    "objects are compared with the documented meaning; interpretation of every operator's __call__ (through its decorators) on abstract "
    "flows with a recording pattern",
    "claim": "for a bounded family of expression trees (!, &, |, juxtaposition, parentheses, varied spacing) the parsed filter computes "
    "the documented connective semantics with precedence ! > & > |; every one of the 32 operator classes is reachable through its "
    "documented form (unquoted, single- and double-quoted regex, integer) and only through it (prefix-safe codes), its regex is "
    "compiled case-insensitively and searched; a bare regex is ~u; bad expressions surface as ValueError; every regex operator applies "
    "its pattern to exactly the documented parts of each flow type and matches when any one of them matches; operators without regex "
    "give the documented verdict.",
    "note": "Trusted: the pyparsing model of props/_helpers_pp.py (pyparsing 3.3.2 semantics of the modelled subset; anything else is an "
    "ANALYSIS-ERROR), `re`. Verdict equality over all generated expressions is not decided.",
}

F = "mitmproxy/flowfilter.py"
_OS = _types.SimpleNamespace(environ={}, getenv=lambda k, d=None: d)  # no opt-out environment variable set


# ---------------------------------------------------------------------------------------------------
# the interpreted grammar


def action_classes(ctx):
    m = ctx.model.module(F)
    out = {}
    for q, d in m.defs().items():
        if isinstance(d, ast.ClassDef) and "." not in q:
            anc = [c.name for _, c in ctx.model.mro(F, q)]
            if "_Action" in anc[1:]:
                out[q] = (d, anc)
    return out


class Harness:
    def __init__(self, ctx):
        from ..pyint import ClassRef
        from ._helpers_pp import PPInterp

        self.ctx = ctx
        self.parse_fn = ctx.func(F, "parse")
        self.it = PPInterp(ctx.model, trusted_modules={"re": _re, "os": _OS})
        self.classes = action_classes(ctx)
        ctx.require(len(self.classes) >= 20, f"only {len(self.classes)} _Action subclasses found in {F}")
        mod = ctx.model.module(F)
        self.concrete: dict[str, str] = {}
        for q, (d, anc) in self.classes.items():
            if "code" in class_members(d, strict=False):
                v = self.it.class_attr(ClassRef(mod, d), "code", 0)
                ctx.require(isinstance(v, str) and v != "", f"{q}.code does not evaluate to a non-empty string")
                self.concrete[q] = v
        self.by_code: dict[str, list[str]] = {}
        for q, c in self.concrete.items():
            self.by_code.setdefault(c, []).append(q)

    def kind(self, q):
        """'regex' | 'int' | 'none': the documented argument of the operator class"""
        anc = self.classes[q][1]
        if "_Rex" in anc[1:]:
            return "regex"
        if "_Int" in anc[1:]:
            return "int"
        r = self.ctx.model.method(F, q, "__init__")
        if r is not None:
            a = r[1].args
            if len(a.posonlyargs + a.args) - 1 - len(a.defaults) > 0 or a.kwonlyargs:
                raise AnalysisError(f"{q}: constructor takes arguments but the class is neither a _Rex nor an _Int operator (argument kind unknown)")
        return "none"

    def cls_of(self, code):
        qs = self.by_code.get(code, [])
        self.ctx.require(len(qs) >= 1, f"no operator class with code {code!r} (the documented operator ~{code} vanished)")
        return qs[0]

    def parse(self, s):
        """flowfilter.parse(s) interpreted -> the filter object (Rec) | ('raises', exception name)"""
        from ..pyint import Raised

        try:
            return self.it.call(F, "parse", s)
        except Raised as r:
            return ("raises", r.name)


def show(v, depth=0):
    """short structural rendering of a parsed filter object (class names + string / int attributes)"""
    from ..pyint import Rec

    if isinstance(v, tuple) and len(v) == 2 and v[0] == "raises":
        return f"<{v[1]}>"
    if isinstance(v, Rec):
        if depth > 6:
            return v._cls + "(...)"
        parts = []
        for k, x in sorted(v.__dict__.items()):
            if k.startswith("_") or k == "pattern" or isinstance(x, _re.Pattern):
                continue
            parts.append(show(x, depth + 1))
        return v._cls + ("(" + ", ".join(parts) + ")" if parts else "")
    if isinstance(v, (list, tuple)):
        return "[" + ", ".join(show(x, depth + 1) for x in v) + "]"
    return repr(v)


# ---------------------------------------------------------------------------------------------------
# R42.1: connective semantics, decided by parsing expression trees and evaluating the result


# atoms: (text, operator code)
ATOMS = [("~e", "e"), ("~marked", "marked"), ("~u cc", "u"), ("~b 'd d'", "b")]
PREC = {"v": 4, "not": 3, "and": 2, "or": 1, "juxt": 0}
SEP = {"and": "&", "or": "|", "juxt": ""}


def V(i):
    return ("v", i)


def Not(t):
    return ("not", t)


def And(*ts):
    return ("and", list(ts))


def Or(*ts):
    return ("or", list(ts))


def Juxt(*ts):
    return ("juxt", list(ts))


def Grp(t):
    return ("grp", t)


def tree_eval(t, env):
    k = t[0]
    if k == "v":
        return env[t[1]]
    if k == "grp":
        return tree_eval(t[1], env)
    if k == "not":
        return not tree_eval(t[1], env)
    vals = [tree_eval(c, env) for c in t[1]]
    return any(vals) if k == "or" else all(vals)


def tree_vars(t):
    if t[0] == "v":
        return {t[1]}
    if t[0] in ("not", "grp"):
        return tree_vars(t[1])
    return set().union(*(tree_vars(c) for c in t[1]))


def render(t, style):
    """expression text of tree t.  style: 'plain' (minimal parentheses, written tight: `(~e | ~marked)`, `!(~e)`; single blanks),
    'wide' (same parentheses, generous whitespace: `(  ~e  |  ~marked\t)`, `! ~e`), 'full' (every compound operand parenthesised, tight)."""
    wide = style == "wide"

    def paren(text):
        return f"(  {text}\t)" if wide else f"({text})"

    def go(t, parent):
        k = t[0]
        if k == "v":
            return ATOMS[t[1]][0]
        if k == "grp":
            return paren(go(t[1], None))
        if k == "not":
            out = ("! " if wide else "!") + go(t[1], "not")
        else:
            sep = " " if k == "juxt" else (f"  {SEP[k]} " if wide else f" {SEP[k]} ")
            out = sep.join(go(c, k) for c in t[1])
        if parent is not None and (style == "full" or PREC[k] < PREC[parent] or (k == parent and k != "not")):
            return paren(out)
        return out

    text = go(t, None)
    return f"  {text} \t" if wide else text


def _quick_trees():
    a, b, c, d = V(0), V(1), V(2), V(3)
    fam = {
        "negation: ! is a prefix operator that binds tightest": [
            Not(a), Not(Not(a)), Not(c), And(Not(a), b), And(a, Not(b)), Or(Not(a), b), Or(a, Not(b)), And(Not(a), Not(b)), Not(And(a, b)), Not(Or(a, c)),
            Juxt(Not(a), b), Or(Not(And(a, b)), c), Not(Not(Or(a, d))),
        ],
        "& is conjunction, | is disjunction (chains of any length)": [
            a, c, d, And(a, b), Or(a, b), And(a, b, c), Or(a, b, c), And(a, b, c, d), Or(a, b, c, d), And(c, d), Or(d, c),
        ],
        "precedence: & binds tighter than |": [
            Or(a, And(b, c)), Or(And(a, b), c), Or(a, And(b, c), d), Or(And(a, b), And(c, d)), Or(a, And(Not(b), c)), Or(And(a, Not(b)), c), Or(And(a, b, c), d), Or(a, b, And(c, d)),
        ],
        "parentheses group": [
            Grp(a), Grp(b), Not(Grp(a)), Grp(Or(a, b)), Grp(Or(c, a)), Grp(And(c, b)), Grp(Grp(c)), And(Or(a, b), c), And(a, Or(b, c)), And(Or(a, b), Or(c, d)), Or(And(a, Or(b, c)), d), Not(Grp(c)), And(a, And(b, c)), Or(a, Or(b, c)), And(Grp(a), Grp(c)),
        ],
        "juxtaposition is conjunction (binding loosest)": [
            Juxt(a, b), Juxt(a, b, c), Juxt(c, d), Juxt(a, Not(b)), Juxt(a, Or(b, c)), Juxt(Or(a, b), c), Juxt(And(a, b), c), Juxt(a, And(b, c)), Juxt(Or(a, b), Or(c, d)),
            Juxt(Grp(Or(a, b)), c), Juxt(a, Grp(Or(b, c)), d), Juxt(Not(Grp(Or(a, c))), b),
        ],
    }
    return fam


# F-C42juxt (known limitation of the grammar, ONE finding): the top level is OneOrMore(infix expression) but the parenthesised operand of
# infix_notation is a single infix expression, so implicit conjunction is not available inside a group.
JUXT_IN_GROUP = "implicit conjunction inside a parenthesised group is rejected"


def _juxt_in_group_trees():
    a, b, c, d = V(0), V(1), V(2), V(3)
    return [Grp(Juxt(a, b)), Grp(Juxt(c, d)), Not(Grp(Juxt(a, c))), Juxt(a, Grp(Juxt(b, c))), And(Grp(Juxt(a, b)), c), Or(a, Grp(Juxt(b, c))), Grp(Juxt(a, Or(b, c))), Grp(Juxt(a, b, c))]


def _thorough_trees():
    """trees of depth <= 3 over three atoms; juxtaposition only at the top level (inside a group it is the known finding F-C42juxt,
    decided by its own sample family)"""
    leaves = [V(0), V(1), V(2)]
    level1 = leaves + [Not(x) for x in leaves]
    flat = []
    for k in (And, Or):
        for n in (2, 3):
            for combo in itertools.product(level1, repeat=n):
                flat.append(k(*combo))
    rnd = random.Random(42)
    deep = []
    for _ in range(260):
        k = rnd.choice((And, Or))
        kids = [rnd.choice(flat) if rnd.random() < 0.6 else rnd.choice(level1) for _ in range(rnd.choice((2, 3)))]
        t = k(*kids)
        deep.append(Not(t) if rnd.random() < 0.3 else t)
    inner = rnd.sample(flat, 100) + deep
    juxt = [Juxt(*[rnd.choice(inner) if rnd.random() < 0.5 else rnd.choice(level1) for _ in range(rnd.choice((2, 3)))]) for _ in range(120)]
    return inner + juxt


def check_connectives(ctx, h: Harness):
    from ..pyint import Raised
    from ..pyint import Rec

    leaf_cls = [h.cls_of(code) for _, code in ATOMS]
    ctx.require(len(set(leaf_cls)) == len(leaf_cls), "R42.1: the atoms of the sample expressions are not four different operator classes")
    W = (F, "parse", h.parse_fn)

    def leaves_of(v, seen):
        if id(v) in seen:
            return
        seen.add(id(v))
        if isinstance(v, Rec):
            if v._cls in leaf_cls:
                yield v
                return
            for k, x in v.__dict__.items():
                if not k.startswith("_"):
                    yield from leaves_of(x, seen)
        elif isinstance(v, (list, tuple)):
            for x in v:
                yield from leaves_of(x, seen)

    def decide(tree, text):
        """None if `text` parses to an object computing `tree`, else why not"""
        got = h.parse(text)
        if not isinstance(got, Rec):
            return f"is rejected: {show(got)}"
        env: dict = {}

        def stub(i):
            def f(flow):
                return env[i]

            f._pyint_accepts_abstract = True
            return f

        for leaf in leaves_of(got, set()):
            object.__setattr__(leaf, "__call__", stub(leaf_cls.index(leaf._cls)))
        vs = sorted(tree_vars(tree))
        for vals in itertools.product((False, True), repeat=len(vs)):
            env.clear()
            env.update(dict(zip(vs, vals)))
            for i in range(len(ATOMS)):
                env.setdefault(i, False)
            ctx.cells += 1
            want = tree_eval(tree, env)
            try:
                verdict = h.it.truthy(h.it.apply(got, ["<flow>"], {}, 0))
            except Raised as r:
                return f"parses to {show(got)}, whose verdict raises {r.name}"
            if verdict != want:
                how = ", ".join(f"{ATOMS[i][0]}={env[i]}" for i in vs)
                return f"parses to {show(got)}: with {how} the verdict is {verdict}, documented {want}"
        return None

    families = _quick_trees()
    if ctx.tier == "thorough":
        families = dict(families)
        families["generated trees (depth <= 3 over three atoms, sampled)"] = _thorough_trees()
    n_expr = 0
    for title, trees in families.items():
        bad = []
        for t in trees:
            texts = []
            for style in ("plain", "wide", "full"):
                x = render(t, style)
                if x not in texts:
                    texts.append(x)
            for text in texts:
                n_expr += 1
                why = decide(t, text)
                if why:
                    bad.append((text, why))
        ctx.check(not bad, "R42.1", W, f"{title}: `{bad[0][0]}`" if bad else title, f"`{bad[0][0]}` {bad[0][1]}" + (f" (+{len(bad) - 1} more expressions)" if len(bad) > 1 else "") if bad else "",
                  desc=f"{title}: {len(trees)} trees", examples=[f"{t} {w}"[:240] for t, w in bad[:6]])
    # implicit conjunction inside parentheses: every rejected rendering is the ONE (known) finding F-C42juxt, keyed by a constant
    # construct; a rendering that is accepted with a wrong verdict, or fails in another way, is a separate violation.
    rejected, wrong = [], []
    trees = _juxt_in_group_trees()
    for t in trees:
        for style in ("plain", "wide"):
            text = render(t, style)
            n_expr += 1
            why = decide(t, text)
            if why and why.startswith("is rejected: <ValueError>"):
                rejected.append(text)
            elif why:
                wrong.append((text, why))
    make = ctx.model.module(F).get("_make") or h.parse_fn
    ctx.check(not rejected, "R42.1", (F, "_make", make), JUXT_IN_GROUP,
              f"juxtaposition means conjunction only at the top level of an expression: `{rejected[0]}` is rejected with ValueError although `{render(trees[0][1], 'plain')}` is accepted "
              f"({len(rejected)} of {2 * len(trees)} renderings rejected)" if rejected else "", desc=f"implicit conjunction inside a parenthesised group: {len(trees)} trees", examples=rejected[:6])
    if wrong:
        ctx.fail("R42.1", W, f"implicit conjunction inside a parenthesised group: `{wrong[0][0]}`", f"`{wrong[0][0]}` {wrong[0][1]}", examples=[f"{t} {w}"[:240] for t, w in wrong[:6]])
    ctx.bounds.append(f"R42.1: {n_expr} expressions parsed with the interpreted grammar and evaluated under every truth assignment of their atoms")


# ---------------------------------------------------------------------------------------------------
# R42.2: every operator in its documented forms


INVALID = ["", "~", "~nosuchoperator", "~b", "~c", "~c x", "( ~e", "~e )", "~b (", '~b "', "~b 'x", "()", "~e ~", "~q~s"]
BAD_REGEX = ["~b [", '~b "("', "~u '(?P<x'", "*"]


def check_operator_forms(ctx, h: Harness):
    from ..pyint import Rec

    W = (F, "parse", h.parse_fn)
    for code, qs in sorted(h.by_code.items()):
        if len(qs) > 1:
            ctx.fail("R42.2", (F, qs[-1], ctx.model.cls(F, qs[-1])), f"code ~{code} used by {', '.join(sorted(qs))}", "one expression cannot mean two operators: one of the classes is unreachable")
    ctx.ok("R42.2", f"{len(h.concrete)} operator codes are unique")

    def pattern_of(rec):
        pats = [v for k, v in rec.__dict__.items() if isinstance(v, _re.Pattern)]
        return pats[0] if len(pats) == 1 else None

    def regex_problem(rec, arg, probe):
        pat = pattern_of(rec)
        if pat is None:
            return "the object holds no single compiled pattern"
        text = pat.pattern.decode("utf-8", "replace") if isinstance(pat.pattern, bytes) else pat.pattern
        if text != arg:
            return f"the pattern compiled is {text!r}, not the argument {arg!r}"
        subject = probe.encode() if isinstance(pat.pattern, bytes) else probe
        if not pat.search(subject):
            return f"the pattern does not find {probe!r} (documented: case-insensitive search)"
        return None

    FORMS = [("~{c} foo", "foo", "xx-FOO-xx"), ('~{c} "Fo o"', "Fo o", "a fO O b"), ("~{c} 'fo o.*z'", "fo o.*z", "FO O--Z"), ("\t~{c}   foo.bar  ", "foo.bar", "FOOxBAR"),
             ("(~{c} foo)", "foo", "FOO")]  # an unquoted argument ends at the closing parenthesis
    n = 0
    for q, code in sorted(h.concrete.items(), key=lambda kv: kv[1]):
        if len(h.by_code[code]) > 1:
            continue
        kind = h.kind(q)
        forms = [(f"~{code}", None, None), (f"  ~{code} ", None, None), (f"(~{code})", None, None)] if kind == "none" else \
            [(f"~{code} 200", None, None), (f"~{code}  404 ", None, None), (f"(~{code} 200)", None, None)] if kind == "int" else \
            [(t.format(c=code), a, p) for t, a, p in FORMS]
        problems = []
        for text, arg, probe in forms:
            n += 1
            got = h.parse(text)
            if not isinstance(got, Rec):
                problems.append(f"`{text}` is rejected ({show(got)})")
            elif got._cls != q:
                problems.append(f"`{text}` is parsed as {show(got)}")
            elif arg is not None:
                why = regex_problem(got, arg, probe)
                if why:
                    problems.append(f"`{text}`: {why}")
        ctx.check(not problems, "R42.2", (F, q, ctx.model.cls(F, q)), f"~{code} ({q}): {problems[0] if problems else ''}"[:300],
                  f"documented: `~{code}{' regex' if kind == 'regex' else ' int' if kind == 'int' else ''}` is '{_help_of(h.classes[q][0])}' - the expression must be accepted and build exactly this operator",
                  desc=f"~{code} {q}: {len(forms)} {kind if kind != 'none' else 'argument-less'} forms", examples=problems[:4])
    # a bare regex is ~u
    ucls = h.cls_of("u")
    problems = []
    for text, arg, probe in (("foo", "foo", "x-FOO"), ('"Fo o"', "Fo o", "fo o"), (" 'a.c' ", "a.c", "ABC")):
        n += 1
        got = h.parse(text)
        if not isinstance(got, Rec) or got._cls != ucls:
            problems.append(f"`{text}` is parsed as {show(got)}")
        else:
            why = regex_problem(got, arg, probe)
            if why:
                problems.append(f"`{text}`: {why}")
    ctx.check(not problems, "R42.2", W, f"naked regex -> {problems[0] if problems else ucls}"[:300], "documented: a bare regex is equivalent to ~u regex", desc=f"bare regex is ~u ({ucls})", examples=problems[:4])
    # errors surface as ValueError
    problems = []
    for text in INVALID + BAD_REGEX:
        n += 1
        got = h.parse(text)
        if isinstance(got, tuple) and got[0] == "raises" and got[1] != "ValueError":
            problems.append(f"parse({text!r}) raises {got[1]}")
        elif text in BAD_REGEX and isinstance(got, Rec) and pattern_of(got) is not None:
            problems.append(f"parse({text!r}) accepts the invalid regex: {show(got)}")
    ctx.check(not problems, "R42.2", W, f"invalid expressions: {problems[0] if problems else 'ValueError'}"[:300],
              "a syntactically invalid expression or regex must surface as ValueError from parse(), not as a pyparsing / re exception", desc=f"{len(INVALID) + len(BAD_REGEX)} invalid expressions: ValueError (or accepted)", examples=problems[:4])
    ctx.cells += n
    ctx.bounds.append(f"R42.2: {n} operator forms parsed with the interpreted grammar")


# ---------------------------------------------------------------------------------------------------
# R42.3: which parts of the flow a regex operator inspects


class _Part:
    """native attribute bag standing for a message / connection; an attribute the rule did not foresee reads as a token naming it"""

    def __init__(self, path, **kw):
        self.__dict__.update(kw)
        self.__dict__["_path"] = path

    def __getattr__(self, name):
        if name.startswith("__"):
            raise AttributeError(name)
        return f"<{self._path}.{name}?>"


class _Hdrs:
    def __init__(self, side):
        self.side = side
        self.fields = ((b"Content-Type", f"<{side} content-type>".encode()), (b"X-Other", f"<{side} x-other>".encode()))

    def __bytes__(self):
        return f"<{self.side} header block>".encode()


class _Dns(_Part):
    def __str__(self):
        return f"<dns {self._path}>"


class _Pat:
    """stands for a compiled pattern: records what it is applied to and how; matches ``hit`` only"""

    flags = 0

    def __init__(self, hit=None, how=None):
        self.hit = hit
        self.seen = []
        self.how = how if how is not None else set()

    def _apply(self, how, subject):
        self.how.add(how)
        self.seen.append(subject)
        return self if (self.hit is not None and subject == self.hit) else None

    def search(self, subject, *a):
        return self._apply("search", subject)

    def match(self, subject, *a):
        return self._apply("match", subject)

    def fullmatch(self, subject, *a):
        return self._apply("fullmatch", subject)


def _msg(text, from_client):
    return _Part("message", content=text.encode(), from_client=from_client)


def _http_message(side, **kw):
    body = f"<{side} body>".encode()
    return _Part(side, headers=_Hdrs(side), content=body, get_content=lambda strict=True: body, raw_content=f"<{side} raw body>".encode(),
                 text=f"<{side} text>", get_text=lambda strict=True: f"<{side} text>", **kw)


def _flows(error=None, marked="<marker>", is_replay=None, status=200, request_type=None, response_type=None):
    from ..pyint import Rec

    def common():
        return dict(error=error, marked=marked, comment="<comment>", metadata={"k1": "v1", "k2": "v2"}, is_replay=is_replay, live=False, intercepted=False,
                    client_conn=_Part("client_conn", peername=("<client ip>", 1111)), server_conn=_Part("server_conn", address=("<server host>", 2222)))

    def http(full):
        req = _http_message("request", host="<request.host>", pretty_host="<request.pretty_host>", url="<request.url>", pretty_url="<request.pretty_url>", port=80, method="<request.method str>",
                            data=_Part("request.data", method=b"<request method>", host="<request.host>"))
        resp = _http_message("response", status_code=status, reason="<reason>", data=_Part("response.data", status_code=status)) if full else None
        for msg, ct in ((req, request_type), (resp, response_type)):
            if msg is not None and ct is not None:
                msg.headers.fields = ((b"content-type", ct),) + msg.headers.fields[1:]
        ws = _Part("websocket", messages=[_msg("<websocket client message>", True), _msg("<websocket server message>", False)]) if full else None
        return Rec("HTTPFlow", _bases=("Flow",), _name="http flow", request=req, response=resp, websocket=ws, **common())

    def stream(cls, what):
        return Rec(cls, _bases=("Flow",), _name=f"{what} flow", messages=[_msg(f"<{what} client message>", True), _msg(f"<{what} server message>", False)], **common())

    def dns(full):
        return Rec("DNSFlow", _bases=("Flow",), _name="dns flow", request=_Dns("request", questions=[_Part("question", name="<dns question name>")]),
                   response=_Dns("response", questions=[]) if full else None, **common())

    return {"http": http(True), "http-no-response": http(False), "tcp": stream("TCPFlow", "tcp"), "udp": stream("UDPFlow", "udp"), "dns": dns(True), "dns-no-response": dns(False)}


def _subjects():
    """SUBJECTS: operator code -> flow kind -> the documented parts (as the tokens of _flows()).  Sources: the help strings ("Request header",
    "Response body", "Domain", "URL" ...), docs/src/content/concepts/filters.md ("Header matching is against a string of the form name: value",
    "Strings with no operators are matched against the request URL"), CHANGELOG ("Match ~d and ~u filters against pretty_host"; WebSocket / TCP /
    UDP / DNS support of ~b ~bq ~bs and ~u)."""
    rq_ct, rs_ct = b"<request content-type>", b"<response content-type>"
    rq_h, rs_h = b"<request header block>", b"<response header block>"
    rq_b, rs_b = b"<request body>", b"<response body>"
    ws_c, ws_s = b"<websocket client message>", b"<websocket server message>"
    everywhere = {"src": {"<client ip>:1111"}, "dst": {"<server host>:2222"}, "meta": {"k1: v1\nk2: v2"}, "marker": {"<marker>"}, "comment": {"<comment>"}}
    http_always = {"m": {b"<request method>"}, "d": {"<request.host>", "<request.pretty_host>"}, "u": {"<request.pretty_url>"}}
    table = {
        "http": {"t": {rq_ct, rs_ct}, "tq": {rq_ct}, "ts": {rs_ct}, "h": {rq_h, rs_h}, "hq": {rq_h}, "hs": {rs_h},
                 "b": {rq_b, rs_b, ws_c, ws_s}, "bq": {rq_b, ws_c}, "bs": {rs_b, ws_s}, **http_always},
        "http-no-response": {"t": {rq_ct}, "tq": {rq_ct}, "ts": set(), "h": {rq_h}, "hq": {rq_h}, "hs": set(), "b": {rq_b}, "bq": {rq_b}, "bs": set(), **http_always},
        "dns": {"b": {b"<dns request>", b"<dns response>"}, "bq": {b"<dns request>"}, "bs": {b"<dns response>"}, "u": {"<dns question name>"}},
        "dns-no-response": {"b": {b"<dns request>"}, "bq": {b"<dns request>"}, "bs": set(), "u": {"<dns question name>"}},
    }
    for what in ("tcp", "udp"):
        c, s_ = f"<{what} client message>".encode(), f"<{what} server message>".encode()
        table[what] = {"b": {c, s_}, "bq": {c}, "bs": {s_}}
    codes = set(everywhere) | {k for row in table.values() for k in row}
    return {code: {kind: (everywhere[code] if code in everywhere else table[kind].get(code, set())) for kind in table} for code in codes}


def check_subjects(ctx, h):
    from ..pyint import ClassRef
    from ..pyint import Func
    from ..pyint import Raised
    from ..pyint import Rec
    from ._helpers_pp import PPInterp

    classes, concrete = h.classes, h.concrete
    spec = _subjects()
    flows = _flows()
    rex = {q: concrete[q] for q in classes if q in concrete and h.kind(q) == "regex"}
    ctx.require(len(rex) >= 10, f"only {len(rex)} regex operator classes found")
    undocumented = sorted(code for code in rex.values() if code not in spec)
    ctx.require(not undocumented, f"R42.3 has no documented-subject row for the regex operator(s) {', '.join('~' + c for c in undocumented)}: extend SUBJECTS")
    mod = ctx.model.module(F)
    n = 0
    for q, code in sorted(rex.items(), key=lambda kv: kv[1]):
        anc = classes[q][1]
        # the operator as its constructor builds it from the argument "x"; its compiled pattern (whatever the attribute is called) is then
        # replaced by the recording stub.  The pattern's type (str / bytes) is the type the subjects must have.
        try:
            proto = h.it.apply(ClassRef(mod, classes[q][0]), ["x"], {}, 0)
        except Raised as e:
            raise AnalysisError(f"{q}('x') raises {e.name}")
        slots = [k for k, v in proto.__dict__.items() if isinstance(v, _re.Pattern)]
        ctx.require(len(slots) == 1, f"{q}('x') holds {len(slots)} compiled patterns (expected exactly one)")
        want_type = bytes if isinstance(proto.__dict__[slots[0]].pattern, bytes) else str
        r = ctx.model.method(F, q, "__call__")
        ctx.require(r is not None, f"{q}.__call__ vanished")
        fn = r[1]
        problems = []
        how: set = set()

        def run(kind, pat):
            it = PPInterp(ctx.model, trusted_modules={"re": _re, "os": _OS})
            func = Func(r[0], fn)
            for dec in reversed(fn.decorator_list):
                func = it.apply(it.ev(dec, {}, r[0], 0), [func], {}, 0)
            attrs = {k: v for k, v in proto.__dict__.items() if not k.startswith("_")}
            attrs[slots[0]] = pat
            me = Rec(q, _bases=tuple(anc[1:]), _impl=(F, q), **attrs)
            try:
                return it.truthy(it.apply(func, [me, flows[kind]], {}, 0))
            except Raised as e:
                return f"raises {e.name}"

        for kind in flows:
            want = spec[code][kind]
            pat = _Pat(how=how)
            verdict = run(kind, pat)
            n += 1
            got = set(pat.seen)
            if isinstance(verdict, str):
                problems.append(f"on a {kind} flow it {verdict}")
                continue
            if got != want:
                missing, extra = sorted(want - got, key=repr), sorted(got - want, key=repr)
                problems.append(f"on a {kind} flow the pattern is applied to {sorted(got, key=repr)}" + (f", not to {missing}" if missing else "") + (f"; {extra} is not a documented part" if extra else ""))
                continue
            wrong = [x for x in got if want_type is not None and not isinstance(x, want_type)]
            if wrong:
                problems.append(f"on a {kind} flow a {want_type.__name__} pattern is applied to {wrong}")
                continue
            if verdict:
                problems.append(f"on a {kind} flow the verdict is True although the pattern matches nothing")
                continue
            for hit in sorted(want, key=repr):
                n += 1
                v = run(kind, _Pat(hit, how=how))
                if v is not True:
                    problems.append(f"on a {kind} flow whose {hit!r} matches the verdict is {v if isinstance(v, str) else 'False'}")
        ctx.check(not problems, "R42.3", (F, f"{q}.__call__", fn), f"~{code} ({q}): {problems[0] if problems else ''}"[:300],
                  f"documented: ~{code} is '{_help_of(classes[q][0])}' - the regex must be searched in exactly that part of the flow, and a match in any of its parts matches",
                  desc=f"~{code} {q}: " + "; ".join(f"{kind}: {len(spec[code][kind])}" for kind in flows if spec[code][kind]))
        anchored = sorted(how - {"search"})
        ctx.check(not anchored, "R42.2", (F, f"{q}.__call__", fn), f"~{code}: pattern applied with {'/'.join(anchored) or 'search'}()",
                  "documented: the regex is searched in the field (Python re.search), not anchored", desc=f"~{code} {q}: pattern applied with search()")
    ctx.cells += n
    ctx.bounds.append("R42.3: one abstract flow per kind (HTTP with response+WebSocket / without, TCP, UDP, DNS with / without response); bodies, headers and peers present")


# ---------------------------------------------------------------------------------------------------
# R42.4: verdicts of the operators without a regex argument


def _verdict_spec():
    """code -> f(kind, variant) -> documented verdict.  variant: dict(error, marked, replay, status, asset) describing the abstract flow."""
    has_response = ("http", "dns")
    return {
        "e": lambda k, v: v["error"],
        "marked": lambda k, v: v["marked"],
        "http": lambda k, v: k.startswith("http"),
        "tcp": lambda k, v: k == "tcp",
        "udp": lambda k, v: k == "udp",
        "dns": lambda k, v: k.startswith("dns"),
        "websocket": lambda k, v: k == "http",
        "q": lambda k, v: k in ("http-no-response", "dns-no-response"),
        "s": lambda k, v: k in has_response,
        "all": lambda k, v: True,
        "a": lambda k, v: k == "http" and v["asset"] == "response",
        "replay": lambda k, v: v["replay"] is not None,
        "replayq": lambda k, v: v["replay"] == "request",
        "replays": lambda k, v: v["replay"] == "response",
        "c": lambda k, v: k == "http" and v["status"] == 200,  # the operator is built as ~c 200
    }


def check_verdicts(ctx, h):
    from ..pyint import ClassRef
    from ..pyint import Func
    from ..pyint import Raised
    from ._helpers_pp import PPInterp

    classes, concrete = h.classes, h.concrete
    spec = _verdict_spec()
    plain = {q: concrete[q] for q in classes if q in concrete and h.kind(q) != "regex"}
    undocumented = sorted(code for code in plain.values() if code not in spec)
    ctx.require(not undocumented, f"R42.4 has no verdict row for the operator(s) {', '.join('~' + c for c in undocumented)}: extend _verdict_spec")
    base = dict(error=False, marked=False, replay=None, status=200, asset=None)
    variants = [base, {**base, "error": True}, {**base, "marked": True}, {**base, "replay": "request"}, {**base, "replay": "response"}, {**base, "status": 404},
                {**base, "asset": "response"}, {**base, "asset": "request"}]
    worlds = []
    for v in variants:
        fl = _flows(error=_Part("error", msg="boom") if v["error"] else None, marked="<marker>" if v["marked"] else "", is_replay=v["replay"], status=v["status"],
                    request_type=b"image/png" if v["asset"] == "request" else None, response_type=b"text/css; charset=utf-8" if v["asset"] == "response" else None)
        worlds.append((v, fl))
    n = 0
    for q, code in sorted(plain.items(), key=lambda kv: kv[1]):
        r = ctx.model.method(F, q, "__call__")
        ctx.require(r is not None, f"{q}.__call__ vanished")
        fn = r[1]
        problems = []
        for v, fl in worlds:
            for kind, flow in fl.items():
                it = PPInterp(ctx.model, trusted_modules={"re": _re, "os": _OS})
                try:
                    me = it.apply(ClassRef(ctx.model.module(F), classes[q][0]), ["200"] if h.kind(q) == "int" else [], {}, 0)
                    func = Func(r[0], fn)
                    for dec in reversed(fn.decorator_list):
                        func = it.apply(it.ev(dec, {}, r[0], 0), [func], {}, 0)
                    got = it.truthy(it.apply(func, [me, flow], {}, 0))
                except Raised as e:
                    got = f"raises {e.name}"
                n += 1
                want = bool(spec[code](kind, v))
                if got != want and len(problems) < 3:
                    diff = ", ".join(f"{k}={val}" for k, val in v.items() if val != base[k]) or "plain"
                    problems.append(f"on a {kind} flow ({diff}) the verdict is {got}, documented {want}")
        ctx.check(not problems, "R42.4", (F, f"{q}.__call__", fn), f"~{code} ({q}): {problems[0] if problems else ''}"[:300],
                  f"documented: ~{code} is '{_help_of(classes[q][0])}'", desc=f"~{code} {q}: {len(worlds) * 6} abstract flows")
    ctx.cells += n


def _help_of(cls: ast.ClassDef) -> str:
    mem = class_members(cls, strict=False)
    node = mem.get("help")
    return node.value.value if isinstance(node, ast.Assign) and isinstance(node.value, ast.Constant) else "?"


def check(ctx):
    ctx.rule("R42.1", "expression trees over !, &, |, juxtaposition and parentheses, parsed with the interpreted grammar, compute the documented connective semantics (precedence ! > & > |, juxtaposition = conjunction)")
    ctx.rule("R42.2", "every operator class is reachable through its documented form(s) and only through them (unique, prefix-safe codes; quoted and unquoted arguments); "
             "regexes are compiled case-insensitively and searched; a bare regex is ~u; errors surface as ValueError")
    ctx.rule("R42.3", "every regex operator applies its pattern to exactly the documented parts of each flow type (interpreted on abstract flows with a recording pattern) and "
             "matches when any one of them matches")
    ctx.rule("R42.4", "every operator without a regex argument (~q ~s ~e ~a ~c ~http ...) gives the documented verdict on abstract flows of every type (interpreted through its decorators)")
    h = Harness(ctx)
    concrete = h.concrete
    ctx.guard(check_connectives, ctx, h)
    ctx.guard(check_operator_forms, ctx, h)
    ctx.guard(check_subjects, ctx, h)
    ctx.guard(check_verdicts, ctx, h)
    kinds = {}
    for q in concrete:
        kinds.setdefault(h.kind(q), []).append(q)
    ctx.note(f"{len(concrete)} operator classes: " + ", ".join(f"{k}={len(v)}" for k, v in sorted(kinds.items())))
    ctx.trust("the pyparsing model (props/_helpers_pp.py): element constructors and their whitespace flags, MatchFirst order, WordEnd, CharsNotIn, QuotedString, Word, "
              "Group / Suppress / Opt / Forward, infix_notation as expanded by pyparsing 3.3.2, parse-action arity trimming and result wrapping; "
              "exceptions other than ParseBaseException raised by parse actions propagate")
    if all(f.construct == JUXT_IN_GROUP for f in ctx.findings) and not ctx.deferred:  # a violated obligation can skip dependent instances; the run fails anyway
        ctx.expect_instances("R42.1", 6 + (1 if ctx.tier == "thorough" else 0))
        ctx.expect_instances("R42.2", 1 + 32 + 1 + 1 + 17)
        ctx.expect_instances("R42.3", 17)
        ctx.expect_instances("R42.4", 15)


MUTANTS = [
    Mutant("and-or-rows-swapped", F,
           "                (pp.Literal(\"&\").suppress(), 2, pp.opAssoc.LEFT, lambda x: FAnd(*x)),\n                (pp.Literal(\"|\").suppress(), 2, pp.opAssoc.LEFT, lambda x: FOr(*x)),\n",
           "                (pp.Literal(\"|\").suppress(), 2, pp.opAssoc.LEFT, lambda x: FOr(*x)),\n                (pp.Literal(\"&\").suppress(), 2, pp.opAssoc.LEFT, lambda x: FAnd(*x)),\n", "R42.1"),
    Mutant("not-is-postfix", F, "(pp.Literal(\"!\").suppress(), 1, pp.opAssoc.RIGHT, lambda x: FNot(*x))", "(pp.Literal(\"!\").suppress(), 1, pp.opAssoc.LEFT, lambda x: FNot(*x))", "R42.1"),
    Mutant("ampersand-builds-or", F, "pp.opAssoc.LEFT, lambda x: FAnd(*x))", "pp.opAssoc.LEFT, lambda x: FOr(*x))", "R42.1"),
    Mutant("and-computes-any", F, "        return all(i(f) for i in self.lst)", "        return any(i(f) for i in self.lst)", "R42.1"),
    Mutant("not-does-not-negate", F, "        return not self.itm(f)", "        return self.itm(f)", "R42.1"),
    Mutant("not-keeps-group", F, "        self.itm = itm[0]", "        self.itm = itm", "R42.1"),
    Mutant("operator-not-suppressed", F, "(pp.Literal(\"|\").suppress(), 2,", "(pp.Literal(\"|\"), 2,", "R42.1"),
    Mutant("juxtaposition-is-or", F, "lambda x: FAnd(x) if len(x) != 1 else x", "lambda x: FOr(x) if len(x) != 1 else x", "R42.1"),
    Mutant("operator-dropped-from-list", F, "    FUrl,\n    FMeta,\n", "    FUrl,\n", "R42.2"),
    Mutant("duplicate-code", F, "    code = \"marker\"", "    code = \"marked\"", "R42.2"),
    Mutant("rex-class-in-unary-list", F, "    FAll,\n]", "    FAll,\n    FSrc,\n]", "R42.2"),
    Mutant("rex-literals-without-wordend", F, "f = pp.Literal(f\"~{cls.code}\") + word_end + regex.copy()", "f = pp.Literal(f\"~{cls.code}\") + regex.copy()", "R42.2"),
    Mutant("unary-literals-without-wordend", F, "f = pp.Literal(f\"~{cls.code}\") + word_end\n", "f = pp.Literal(f\"~{cls.code}\")\n", "R42.2"),
    # reverse of the F-C42paren fix (6d8fbca37): ")" is a word character again, `(~q)` is rejected
    Mutant("F-C42paren-reverted", F, "word_end = pp.WordEnd(\"\".join(c for c in pp.printables if c not in \"()\"))", "word_end = pp.WordEnd()", "R42.1"),
    Mutant("single-quotes-not-accepted", F, "        | pp.QuotedString('\"', esc_char=\"\\\\\")\n        | pp.QuotedString(\"'\", esc_char=\"\\\\\")\n", "        | pp.QuotedString('\"', esc_char=\"\\\\\")\n", "R42.2"),
    Mutant("unquoted-regex-eats-parenthesis", F, "pp.CharsNotIn(\"()~'\\\"\" +", "pp.CharsNotIn(\"~'\\\"\" +", "R42.2"),
    Mutant("case-sensitive-compile", F, "re.compile(expr, self.flags | maybe_ignore_case)", "re.compile(expr, self.flags)", "R42.2"),
    Mutant("case-sensitive-by-default", F, "    if os.environ.get(\"MITMPROXY_CASE_SENSITIVE_FILTERS\") != \"1\"\n", "    if os.environ.get(\"MITMPROXY_CASE_SENSITIVE_FILTERS\") == \"1\"\n", "R42.2"),
    Mutant("method-regex-anchored", F, "self.re.search(f.request.data.method)", "self.re.match(f.request.data.method)", "R42.2"),
    Mutant("make-keeps-operator-token", F, "        return cls(*toks[1:])", "        return cls(*toks)", "R42.2"),
    Mutant("parse-exception-escapes", F, "    except (pp.ParseException, ValueError) as e:", "    except ValueError as e:", "R42.2"),
    Mutant("domain-ignores-destination-host", F, "        return bool(\n            self.re.search(f.request.host) or self.re.search(f.request.pretty_host)\n        )\n", "        return bool(self.re.search(f.request.pretty_host))\n", "R42.3"),
    Mutant("domain-requires-both-hosts", F, "self.re.search(f.request.host) or self.re.search(f.request.pretty_host)", "self.re.search(f.request.host) and self.re.search(f.request.pretty_host)", "R42.3"),
    Mutant("url-ignores-host-header", F, "return bool(self.re.search(f.request.pretty_url))", "return bool(self.re.search(f.request.url))", "R42.3"),
    Mutant("request-body-op-reads-server-messages", F, "                    if wmsg.from_client and self.re.search(wmsg.content):\n", "                    if not wmsg.from_client and self.re.search(wmsg.content):\n", "R42.3"),
    Mutant("method-str-subject-for-bytes-pattern", F, "return bool(self.re.search(f.request.data.method))", "return bool(self.re.search(f.request.method))", "R42.3"),
    Mutant("response-content-type-op-reads-request", F, "        if f.response:\n            return _check_content_type(self.re, f.response)\n        return False\n", "        if f.response:\n            return _check_content_type(self.re, f.request)\n        return False\n", "R42.3"),
    Mutant("content-type-helper-reads-any-header", F, "        name.lower() == b\"content-type\" and rex.search(value)\n", "        rex.search(value)\n", "R42.3"),
    Mutant("url-op-no-longer-handles-dns", F, "    @only(http.HTTPFlow, dns.DNSFlow)\n    def __call__(self, f) -> bool:\n        if not f or not f.request:\n", "    @only(http.HTTPFlow)\n    def __call__(self, f) -> bool:\n        if not f or not f.request:\n", "R42.3"),
    Mutant("only-decorator-inverted", F, "            if isinstance(flow, types):\n                return fn(self, flow)\n            return False\n", "            if not isinstance(flow, types):\n                return fn(self, flow)\n            return False\n", "R42.3"),
    Mutant("no-response-op-inverted", F, "        return not f.response\n", "        return bool(f.response)\n", "R42.4"),
    Mutant("asset-op-reads-request-content-type", F, "if _check_content_type(i, f.response):", "if _check_content_type(i, f.request):", "R42.4"),
    Mutant("replayq-matches-any-replay", F, "        return f.is_replay == \"request\"\n", "        return f.is_replay is not None\n", "R42.4"),
    Mutant("websocket-op-matches-every-http-flow", F, "        return f.websocket is not None\n", "        return True\n", "R42.4"),
    Mutant("code-op-matches-without-response", F, "        if f.response and f.response.status_code == self.num:\n", "        if not f.response or f.response.status_code == self.num:\n", "R42.4"),
    Mutant("naked-regex-is-domain", F, "    f.set_parse_action(FUrl.make)", "    f.set_parse_action(FDomain.make)", "R42.2"),
]
