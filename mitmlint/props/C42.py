"""C42 - filter expressions mean what the documented grammar says.

Decided from the source of mitmproxy/flowfilter.py (the pyparsing grammar is read as a table, never built or run):
  R42.1 operator table: the infix_notation rows are, tightest first, `!` (unary, right-assoc) -> FNot, `&` (binary) -> FAnd,
        `|` (binary) -> FOr, every operator literal suppressed; juxtaposition (OneOrMore at the top) becomes FAnd for
        >= 2 items and the item itself for 1; the token nesting handed to FNot / FAnd / FOr matches what their __init__ /
        __call__ unpack; FAnd.__call__ = all, FOr.__call__ = any, FNot.__call__ = not; default ( ) grouping.
  R42.2 operator registry: every concrete _Action subclass with a ``code`` is in exactly one of filter_unary / filter_rex /
        filter_int, the one whose grammar loop supplies as many argument tokens as its constructor takes (digits for _Int);
        codes are unique; a code that is a proper prefix of a later-tried code is protected by WordEnd(); argument regexes:
        CharsNotIn excludes ( ) ' " and whitespace, both quote characters have a QuotedString alternative; _Action.make drops
        the operator token, FUrl.make also accepts the naked form and the naked alternative is wired to the ``~u`` class;
        _Rex.__init__ compiles with ``... | maybe_ignore_case`` (IGNORECASE unless the env switch), compile errors and
        ParseException both surface as ValueError; every _Rex class applies its pattern with ``search``.
  R42.3 documented part of the flow: ``__call__`` of every regex operator class - with its decorators, i.e. through
        ``only(...)`` - is INTERPRETED from its AST (pyint; nothing is imported or run) on abstract flows of every type
        (HTTP with / without response and WebSocket messages, TCP, UDP, DNS with / without response) whose parts are
        distinct tokens, with a recording pattern in place of ``self.re``.  (a) With a pattern that matches nothing, the set
        of parts the pattern is applied to must EQUAL the documented one (table SUBJECTS below: ~d = the host the request
        goes to and the host named by Host/:authority, ~u = the pretty URL / the DNS question name, ~hq = the request
        header block, ~bq = request body + client WebSocket/TCP/UDP messages + DNS request ...) and the verdict is False;
        the subject has the type of the pattern (str for _StrRex, bytes for _BinRex).  (b) With a pattern that matches
        exactly one documented part, the verdict is True.  Narrowing (~d looking at pretty_host only), redirecting (~hq
        at the response) and and-ing instead of or-ing the parts all change the verdict of some flow.
  R42.4 operators without a regex argument: ``__call__`` of every unary / integer operator class (through ``only(...)``, built through
        its constructor: ``~c 200``) is interpreted on the same abstract flows plus variants (error set, marked, replayed request /
        response, status 404, asset content-type on the response / on the request only); the verdict must equal the documented one
        (table _verdict_spec: ~q = HTTP or DNS flow without response, ~a = HTTP response with an asset content-type ...).
NOT decided: pyparsing's own behaviour (infix_notation precedence climbing, WordEnd, QuotedString escapes), verdict equality
over generated expressions.
"""

from __future__ import annotations

import ast
import operator

from ..core import AnalysisError
from ..core import norm
from ..model import attr_chain
from ..model import call_name
from ..model import last_attr
from ..model import stmts_of
from ..model import walk_in_order
from ..selftest import Mutant
from ._helpers_F import class_members
from ._helpers_F import kwarg
from ._helpers_F import own_nodes
from ._helpers_F import params_of

PROP = "C42"
REG = {
    "strength": "partial",
    "technique": "grammar-as-table extraction from _make (operator rows, literal loops, argument alternatives) + registry agreement "
    "with the _Action class hierarchy + token-nesting check of the parse actions + interpretation (pyint) of the regex operators' "
    "__call__ (through their decorators) on abstract flows with a recording pattern",
    "claim": "precedence ! > & > | with FNot/FAnd/FOr = not/all/any and juxtaposition = FAnd; all 32 operator classes are registered "
    "once in the list whose grammar loop matches their constructor, with unique codes and prefix-safe literals; operator arguments "
    "accept unquoted, single- and double-quoted regexes; regexes are compiled case-insensitively and applied with search; bad "
    "expressions surface as ValueError; every regex operator applies its pattern to exactly the documented parts of each flow type "
    "(interpreted on abstract flows with a recording pattern) and matches when any one of them matches.",
    "note": "Trusted: pyparsing (infix_notation: earlier rows bind tighter, default parentheses; MatchFirst order; WordEnd; "
    "QuotedString; non-parse exceptions from parse actions propagate). Verdict equality over generated expressions is not decided.",
}

F = "mitmproxy/flowfilter.py"
LISTS = ("filter_unary", "filter_rex", "filter_int")
OPS = {ast.NotEq: operator.ne, ast.Eq: operator.eq, ast.Gt: operator.gt, ast.GtE: operator.ge, ast.Lt: operator.lt, ast.LtE: operator.le}


def flat(expr, op):
    if isinstance(expr, ast.BinOp) and isinstance(expr.op, op):
        return flat(expr.left, op) + flat(expr.right, op)
    return [expr]


def pp_call(node, name):
    return isinstance(node, ast.Call) and last_attr(node.func) == name and attr_chain(node.func) in (f"pp.{name}", f"pyparsing.{name}", name)


def strip_copy(node):
    """regex.copy() -> regex ; x.suppress() stays"""
    if isinstance(node, ast.Call) and isinstance(node.func, ast.Attribute) and node.func.attr == "copy" and not node.args:
        return node.func.value
    return node


# ---------------------------------------------------------------------------------------------------
# class registry


def action_classes(ctx):
    m = ctx.model.module(F)
    out = {}
    for q, d in m.defs().items():
        if isinstance(d, ast.ClassDef) and "." not in q:
            anc = [c.name for _, c in ctx.model.mro(F, q)]
            if "_Action" in anc[1:]:
                out[q] = (d, anc)
    return out


def ctor_arity(ctx, q):
    r = ctx.model.method(F, q, "__init__")
    if r is None:
        return 0
    fn = r[1]
    a = fn.args
    if a.vararg or a.kwarg or a.kwonlyargs:
        raise AnalysisError(f"{q}.__init__ has * / ** / keyword-only parameters (not modelled)")
    return len(a.posonlyargs + a.args) - 1 - len(a.defaults)


def list_literal(ctx, name):
    vals = ctx.model.module(F).assigns(name)
    ctx.require(len(vals) == 1 and isinstance(vals[0], ast.List) and all(isinstance(e, ast.Name) for e in vals[0].elts),
                f"{F}::{name} is not a single list literal of class names")
    return [e.id for e in vals[0].elts]


# ---------------------------------------------------------------------------------------------------
# _make as a table


class Grammar:
    def __init__(self, ctx):
        self.ctx = ctx
        fn = ctx.func(F, "_make")
        self.fn = fn
        self.env: dict[str, ast.AST] = {}
        self.loops = []  # (listname, has_wordend, arg_nodes, loop)
        self.naked = None
        self.parts_name = None
        self.ret = None
        for st in stmts_of(fn):
            if isinstance(st, ast.Assign) and len(st.targets) == 1 and isinstance(st.targets[0], ast.Name):
                self.env[st.targets[0].id] = st.value
                continue
            if isinstance(st, ast.Assign) and len(st.targets) == 1 and isinstance(st.targets[0], ast.Attribute):
                continue  # unicode_words.skipWhitespace = True
            if isinstance(st, ast.For):
                self._loop(st)
                continue
            if isinstance(st, ast.Expr) and isinstance(st.value, ast.Call):
                self._call(st.value)
                continue
            if isinstance(st, ast.Return):
                self.ret = st.value
                continue
            raise AnalysisError(f"_make: statement not modelled: {norm(st)}")
        ctx.require(self.ret is not None, "_make: no return")

    def _loop(self, loop):
        ctx = self.ctx
        ctx.require(isinstance(loop.iter, ast.Name) and isinstance(loop.target, ast.Name) and not loop.orelse, f"_make: loop not modelled: {norm(loop.iter)}")
        var = loop.target.id
        f_expr = None
        action = appended = False
        for st in loop.body:
            if isinstance(st, ast.Assign) and len(st.targets) == 1 and isinstance(st.targets[0], ast.Name):
                ctx.require(f_expr is None, "_make: loop assigns more than once")
                fname, f_expr = st.targets[0].id, st.value
            elif isinstance(st, ast.Expr) and isinstance(st.value, ast.Call):
                c = st.value
                if last_attr(c.func) in ("set_parse_action", "setParseAction", "add_parse_action") and attr_chain(c.func).split(".")[0] == fname:
                    ctx.require(len(c.args) == 1 and attr_chain(c.args[0]) == f"{var}.make", f"_make: parse action of the {loop.iter.id} loop is {norm(c)}, expected {var}.make")
                    action = True
                elif last_attr(c.func) == "append" and c.args and isinstance(c.args[0], ast.Name) and c.args[0].id == fname:
                    self._parts(attr_chain(c.func).split(".")[0])
                    appended = True
                else:
                    raise AnalysisError(f"_make: loop statement not modelled: {norm(st)}")
            else:
                raise AnalysisError(f"_make: loop statement not modelled: {norm(st)}")
        ctx.require(f_expr is not None and action and appended, f"_make: the {loop.iter.id} loop does not build, wire and append one element")
        elems = flat(f_expr, ast.Add)
        lit = elems[0]
        ok = (pp_call(lit, "Literal") and len(lit.args) == 1 and isinstance(lit.args[0], ast.JoinedStr) and len(lit.args[0].values) == 2
              and isinstance(lit.args[0].values[0], ast.Constant) and lit.args[0].values[0].value == "~"
              and isinstance(lit.args[0].values[1], ast.FormattedValue) and attr_chain(lit.args[0].values[1].value) == f"{var}.code")
        ctx.require(ok, f"_make: operator literal of the {loop.iter.id} loop is not pp.Literal(f\"~{{{var}.code}}\"): {norm(lit)}")
        rest = elems[1:]
        wordend = bool(rest) and pp_call(rest[0], "WordEnd") and not rest[0].args and not rest[0].keywords
        args = rest[1:] if wordend else rest
        for a in args:
            ctx.require(not pp_call(a, "WordEnd"), "_make: WordEnd() in an unexpected position")
        self.loops.append((loop.iter.id, wordend, args, loop))

    def _parts(self, name):
        if self.parts_name is None:
            v = self.env.get(name)
            self.ctx.require(isinstance(v, ast.List) and not v.elts, f"_make: {name} does not start as an empty list")
            self.parts_name = name
        self.ctx.require(self.parts_name == name, "_make: alternatives are appended to more than one list")

    def _call(self, c):
        # top-level: f.set_parse_action(FUrl.make) / parts.append(f) for the naked regex
        root = attr_chain(c.func).split(".")[0]
        if last_attr(c.func) in ("set_parse_action", "setParseAction") and root in self.env:
            self.naked = (self.env[root], c.args[0] if c.args else None, root)
        elif last_attr(c.func) == "append" and c.args and isinstance(c.args[0], ast.Name):
            self._parts(root)
            self.ctx.require(self.naked is not None and c.args[0].id == self.naked[2], f"_make: {norm(c)} appends an element that is not modelled")
        else:
            raise AnalysisError(f"_make: call not modelled: {norm(c)}")

    def resolve(self, node):
        seen = 0
        while isinstance(node, ast.Name) and node.id in self.env and seen < 10:
            node = self.env[node.id]
            seen += 1
        return node


# ---------------------------------------------------------------------------------------------------
# R42.1


def action_depth(lam, want_cls, param_depth):
    """lambda x: Cls(<arg>)  ->  (class name, nesting depth of <arg>)  with x at ``param_depth``."""
    if not (isinstance(lam, ast.Lambda) and len(lam.args.args) == 1):
        raise AnalysisError(f"parse action is not a one-argument lambda: {norm(lam)}")
    x = lam.args.args[0].arg
    body = lam.body
    if not (isinstance(body, ast.Call) and isinstance(body.func, ast.Name) and len(body.args) == 1 and not body.keywords):
        raise AnalysisError(f"parse action body not modelled: {norm(body)}")
    return body.func.id, arg_depth(body.args[0], x, param_depth)


def arg_depth(a, x, param_depth):
    d = param_depth
    if isinstance(a, ast.Starred):
        a = a.value
        d -= 1
    while isinstance(a, ast.Subscript) and isinstance(a.slice, ast.Constant) and a.slice.value == 0:
        a = a.value
        d -= 1
    if isinstance(a, ast.Call) and isinstance(a.func, ast.Name) and a.func.id == "list" and len(a.args) == 1:
        a = a.args[0]
    if not (isinstance(a, ast.Name) and a.id == x):
        raise AnalysisError(f"parse action argument not modelled: {norm(a)}")
    return d


def stored_depth(ctx, cls, depth_in):
    """depth of the value stored by Cls.__init__(self, p) and the attribute holding it."""
    init = ctx.func(F, f"{cls}.__init__")
    ps = params_of(init)
    ctx.require(len(ps) == 2, f"{cls}.__init__ signature changed")
    body = stmts_of(init)
    ctx.require(len(body) == 1 and isinstance(body[0], ast.Assign) and len(body[0].targets) == 1 and attr_chain(body[0].targets[0]).startswith("self."),
                f"{cls}.__init__ is no longer a single attribute assignment")
    d = arg_depth(body[0].value, ps[1], depth_in)
    return attr_chain(body[0].targets[0]), d


def call_semantics(ctx, cls):
    """'all' | 'any' | 'not' | other text, and the attribute used, for Cls.__call__."""
    fn = ctx.func(F, f"{cls}.__call__")
    ps = params_of(fn)
    body = stmts_of(fn)
    ctx.require(len(ps) == 2 and len(body) == 1 and isinstance(body[0], ast.Return), f"{cls}.__call__ is not a single return")
    v = body[0].value
    fparam = ps[1]
    if isinstance(v, ast.Call) and isinstance(v.func, ast.Name) and v.func.id in ("all", "any") and len(v.args) == 1 and isinstance(v.args[0], (ast.GeneratorExp, ast.ListComp)):
        g = v.args[0]
        ok = (len(g.generators) == 1 and not g.generators[0].ifs and isinstance(g.generators[0].target, ast.Name) and isinstance(g.elt, ast.Call)
              and isinstance(g.elt.func, ast.Name) and g.elt.func.id == g.generators[0].target.id and len(g.elt.args) == 1
              and isinstance(g.elt.args[0], ast.Name) and g.elt.args[0].id == fparam)
        ctx.require(ok, f"{cls}.__call__: comprehension not modelled: {norm(v)}")
        return v.func.id, attr_chain(g.generators[0].iter)
    if isinstance(v, ast.UnaryOp) and isinstance(v.op, ast.Not) and isinstance(v.operand, ast.Call) and len(v.operand.args) == 1 \
            and isinstance(v.operand.args[0], ast.Name) and v.operand.args[0].id == fparam:
        return "not", attr_chain(v.operand.func)
    if isinstance(v, ast.Call) and len(v.args) == 1 and isinstance(v.args[0], ast.Name) and v.args[0].id == fparam and attr_chain(v.func).startswith("self."):
        return "identity", attr_chain(v.func)
    raise AnalysisError(f"{cls}.__call__ not modelled: {norm(v)}")


def check_operators(ctx, g: Grammar):
    W = (F, "_make", g.fn)
    ret = g.ret
    # return expr.set_parse_action(lambda ...)
    ctx.require(isinstance(ret, ast.Call) and last_attr(ret.func) in ("set_parse_action", "setParseAction") and len(ret.args) == 1, f"_make: return not modelled: {norm(ret)}")
    top = g.resolve(ret.func.value)
    ctx.require(pp_call(top, "OneOrMore") and len(top.args) == 1, f"_make: top level is not pp.OneOrMore(...): {norm(top)[:80]}")
    infix = g.resolve(top.args[0])
    ctx.require(pp_call(infix, "infix_notation") or pp_call(infix, "infixNotation"), "_make: OneOrMore does not wrap pp.infix_notation")
    ctx.require(len(infix.args) == 2 and not [k for k in infix.keywords if k.arg not in ("lpar", "rpar")], "_make: infix_notation arguments not modelled")
    for k in infix.keywords:
        want = "(" if k.arg == "lpar" else ")"
        inner = k.value
        while isinstance(inner, ast.Call) and inner.args:
            inner = inner.args[0]
        ctx.check(isinstance(inner, ast.Constant) and inner.value == want, "R42.1", W, f"infix_notation({k.arg}={norm(k.value)})", "grouping no longer uses ( and )")
    atom = g.resolve(infix.args[0])
    ctx.require(pp_call(atom, "MatchFirst") and len(atom.args) == 1 and isinstance(atom.args[0], ast.Name) and atom.args[0].id == g.parts_name,
                f"_make: the infix_notation operand is not pp.MatchFirst({g.parts_name})")
    rows = g.resolve(infix.args[1])
    ctx.require(isinstance(rows, ast.List) and all(isinstance(r, ast.Tuple) and len(r.elts) == 4 for r in rows.elts), "_make: operator rows are not 4-tuples")
    table = []
    for r in rows.elts:
        lit, arity, assoc, act = r.elts
        suppressed = isinstance(lit, ast.Call) and isinstance(lit.func, ast.Attribute) and lit.func.attr == "suppress"
        base = lit.func.value if suppressed else lit
        if pp_call(base, "Suppress") and base.args:
            suppressed, base = True, base.args[0]
        ctx.require(pp_call(base, "Literal") and base.args and isinstance(base.args[0], ast.Constant), f"_make: operator literal not modelled: {norm(lit)}")
        ctx.require(isinstance(arity, ast.Constant) and attr_chain(assoc).split(".")[-1] in ("LEFT", "RIGHT"), f"_make: operator row not modelled: {norm(r)}")
        cls, depth = action_depth(act, None, 2)
        table.append({"sym": base.args[0].value, "arity": arity.value, "assoc": attr_chain(assoc).split(".")[-1], "cls": cls, "depth": depth, "suppressed": suppressed, "node": r})
    ctx.cells += 4 * len(table)
    want = [("!", 1, "FNot", "not", 0), ("&", 2, "FAnd", "all", 1), ("|", 2, "FOr", "any", 1)]
    syms = [t["sym"] for t in table]
    ctx.check(syms == [w[0] for w in want], "R42.1", W, f"infix_notation operator order {syms}",
              "rows are tried tightest-first: the documented precedence is ! > & > |", desc="operator rows in precedence order ! & |")
    for sym, arity, cls, sem, need_depth in want:
        row = next((t for t in table if t["sym"] == sym), None)
        if row is None:
            ctx.fail("R42.1", W, f"operator {sym} missing", f"the documented operator {sym} is not part of the grammar")
            continue
        ok = row["arity"] == arity and row["cls"] == cls and row["suppressed"] and (arity == 2 or row["assoc"] == "RIGHT")
        ctx.check(ok, "R42.1", W, f"operator row {sym}: arity {row['arity']}, {row['assoc']}, -> {row['cls']}, suppressed={row['suppressed']}",
                  f"documented: {sym} is {'a prefix' if arity == 1 else 'an infix'} operator building {cls} from its operands only",
                  desc=f"row {sym}: arity {arity}, {row['assoc']}, suppressed, -> {cls}")
        # the class really computes the connective, on the right nesting level
        if not ctx.model.has(F, row["cls"]):
            raise AnalysisError(f"_make: parse action builds unknown class {row['cls']}")
        got_sem, used_attr = call_semantics(ctx, row["cls"])
        attr, d = stored_depth(ctx, row["cls"], row["depth"])
        ctx.check(got_sem == sem, "R42.1", (F, f"{row['cls']}.__call__", ctx.func(F, f"{row['cls']}.__call__")), f"{sym} -> {row['cls']}.__call__ computes '{got_sem}'",
                  f"documented meaning of {sym} is '{sem}' over its operands", desc=f"{row['cls']}.__call__ = {sem}")
        ctx.check(used_attr == attr and d == need_depth, "R42.1", W, f"{sym}: {row['cls']} receives tokens at nesting depth {d} in {attr}, reads {used_attr}",
                  f"{row['cls']} must end up with {'its operand' if need_depth == 0 else 'the flat list of its operands'} (depth {need_depth})",
                  desc=f"{row['cls']}: token nesting {row['depth']} -> stored depth {d} in {attr}")
    # juxtaposition
    lam = ret.args[0]
    ctx.require(isinstance(lam, ast.Lambda) and len(lam.args.args) == 1 and isinstance(lam.body, ast.IfExp), f"_make: top-level parse action not modelled: {norm(lam)}")
    x = lam.args.args[0].arg

    def branch(n):
        t = lam.body.test
        ok = (isinstance(t, ast.Compare) and len(t.ops) == 1 and type(t.ops[0]) in OPS and isinstance(t.left, ast.Call) and call_name(t.left) == "len"
              and len(t.left.args) == 1 and isinstance(t.left.args[0], ast.Name) and t.left.args[0].id == x and isinstance(t.comparators[0], ast.Constant))
        ctx.require(ok, f"_make: top-level parse action test not modelled: {norm(t)}")
        return lam.body.body if OPS[type(t.ops[0])](n, t.comparators[0].value) else lam.body.orelse

    ok = True
    why = ""
    for n in (1, 2, 3):
        ctx.cells += 1
        b = branch(n)
        if n == 1:
            if isinstance(b, ast.Call):
                ok, why = False, f"a single item is wrapped into {norm(b)}"
            else:
                d = arg_depth(b, x, 1)
                ctx.require(d in (0, 1), "top-level action: single-item result not modelled")
        else:
            if not (isinstance(b, ast.Call) and isinstance(b.func, ast.Name) and len(b.args) == 1):
                ok, why = False, f"{n} juxtaposed items give {norm(b)}"
                continue
            d = arg_depth(b.args[0], x, 1)
            attr, sd = stored_depth(ctx, b.func.id, d) if ctx.model.has(F, f"{b.func.id}.__init__") else ("", -1)
            sem = call_semantics(ctx, b.func.id)[0] if ctx.model.has(F, f"{b.func.id}.__call__") else "?"
            if not (sem == "all" and sd == 1):
                ok, why = False, f"{n} juxtaposed items give {norm(b)} (computes '{sem}', nesting {sd})"
    ctx.check(ok, "R42.1", W, "top-level parse action of OneOrMore(...)", f"juxtaposition must mean conjunction: {why}", desc="juxtaposition: 1 item -> itself, >= 2 items -> FAnd (all)")


# ---------------------------------------------------------------------------------------------------
# R42.2


def check_registry(ctx, g: Grammar):
    classes = action_classes(ctx)
    lists = {n: list_literal(ctx, n) for n in LISTS}
    loops = {name: (we, args, loop) for name, we, args, loop in g.loops}
    ctx.require([n for n, *_ in g.loops] == list(LISTS), f"_make: literal loops iterate {[n for n, *_ in g.loops]}, expected {list(LISTS)} in this order")
    concrete = {}
    for q, (d, anc) in classes.items():
        mem = class_members(d, strict=False)
        if "code" in mem:
            node = mem["code"]
            ctx.require(isinstance(node, ast.Assign) and isinstance(node.value, ast.Constant) and isinstance(node.value.value, str), f"{q}.code is not a string constant")
            concrete[q] = node.value.value
    for n, members in lists.items():
        for c in members:
            ctx.require(c in classes, f"{n} lists {c}, which is not an _Action subclass of flowfilter.py")
    # the regex argument
    regex = g.env.get("regex")
    ctx.require(regex is not None, "_make: local 'regex' vanished")
    alts = [g.resolve(a) for a in flat(regex, ast.BitOr)]
    chars = [a for a in alts if pp_call(a, "CharsNotIn")]
    quoted = [a for a in alts if pp_call(a, "QuotedString")]
    ctx.require(len(chars) == 1 and len(chars) + len(quoted) == len(alts) and chars[0].args, f"_make: regex alternatives not modelled: {norm(regex)}")
    excl = flat(chars[0].args[0], ast.Add)
    consts = "".join(e.value for e in excl if isinstance(e, ast.Constant) and isinstance(e.value, str))
    ws = any(attr_chain(e).endswith("DEFAULT_WHITE_CHARS") for e in excl) or " " in consts
    ctx.require(all(isinstance(e, ast.Constant) or attr_chain(e).endswith("DEFAULT_WHITE_CHARS") for e in excl), f"_make: CharsNotIn argument not modelled: {norm(chars[0].args[0])}")
    missing = [c for c in "()'\"" if c not in consts] + ([] if ws else ["<whitespace>"])
    ctx.check(not missing, "R42.2", (F, "_make", chars[0]), f"unquoted regex may contain {' '.join(missing)}",
              "an unquoted argument would swallow the grouping parenthesis / the opening quote / the next word", desc="unquoted regex stops at ( ) ' \" and whitespace")
    qchars = set()
    for qs in quoted:
        ctx.require(qs.args and isinstance(qs.args[0], ast.Constant), f"_make: QuotedString not modelled: {norm(qs)}")
        qchars.add(qs.args[0].value)
    for qc in ("\"", "'"):
        ctx.check(qc in qchars, "R42.2", (F, "_make", g.fn), f"no QuotedString alternative for {qc}", f"arguments quoted with {qc} are documented but not accepted",
                  desc=f"QuotedString alternative for {qc}")
    # class <-> list <-> grammar loop agreement
    pos = {}
    order = []
    for n in LISTS:
        wordend, args, loop = loops[n]
        kinds = []
        for a in args:
            a0 = strip_copy(a)
            if isinstance(a0, ast.Name) and a0.id == "regex":
                kinds.append("regex")
            elif pp_call(a0, "Word") and len(a0.args) == 1 and attr_chain(a0.args[0]) in ("pp.nums", "pyparsing.nums"):
                kinds.append("digits")
            else:
                raise AnalysisError(f"_make: argument element of the {n} loop not modelled: {norm(a)}")
        for c in lists[n]:
            order.append((c, n, wordend))
            pos.setdefault(c, []).append(n)
            if c not in concrete:
                ctx.fail("R42.2", (F, n, ctx.model.cls(F, c)), f"{n} lists {c}, which defines no code", "the grammar loop formats cls.code of every listed class")
                continue
            ar = ctor_arity(ctx, c)
            anc = classes[c][1]
            need = ["digits"] if "_Int" in anc else ["regex"] * ar
            ctx.check(kinds == need, "R42.2", (F, n, ctx.model.cls(F, c)), f"~{concrete[c]} ({c}) is listed in {n}",
                      f"the {n} loop supplies {kinds or 'no argument'} but {c}({', '.join(need) or ''}) takes {need or 'none'}: the documented operator is rejected or mis-built",
                      desc=f"~{concrete[c]} {c} in {n}: grammar supplies {kinds or ['-']}")
    for c, code in concrete.items():
        n = len(pos.get(c, []))
        if n != 1:
            ctx.fail("R42.2", (F, c, ctx.model.cls(F, c)), f"~{code} ({c}) is registered in {n} lists", "every operator class must be reachable through exactly one grammar loop")
    by_code = {}
    for c, code in concrete.items():
        by_code.setdefault(code, []).append(c)
    for code, cs in by_code.items():
        if len(cs) > 1:
            ctx.fail("R42.2", (F, cs[-1], ctx.model.cls(F, cs[-1])), f"code ~{code} used by {', '.join(sorted(cs))}", "MatchFirst picks the first class: the other operator is unreachable")
    ctx.ok("R42.2", f"{len(concrete)} operator codes are unique")
    # prefix safety of the literals (MatchFirst tries alternatives in list order)
    n_pairs = 0
    for i, (a, la, wa) in enumerate(order):
        for b, lb, wb in order[i + 1:]:
            if a in concrete and b in concrete and concrete[b].startswith(concrete[a]) and concrete[b] != concrete[a]:
                n_pairs += 1
                ctx.cells += 1
                if not wa:
                    ctx.fail("R42.2", (F, "_make", loops[la][2]), f"~{concrete[a]} is tried before ~{concrete[b]} without WordEnd()",
                             f"`~{concrete[b]}` is parsed as `~{concrete[a]}` followed by `{concrete[b][len(concrete[a]):]}`")
    ctx.ok("R42.2", f"{n_pairs} prefix pairs (~a/~all, ~b/~bq, ...) protected by WordEnd()")
    return classes, concrete, lists


def check_make_and_rex(ctx, g, classes, concrete):
    # _Action.make drops the operator token
    mk = ctx.func(F, "_Action.make")
    ps = params_of(mk)
    body = stmts_of(mk)
    ctx.require(len(ps) == 4 and len(body) == 1 and isinstance(body[0], ast.Return) and isinstance(body[0].value, ast.Call), "_Action.make not modelled")
    call = body[0].value
    ok = (isinstance(call.func, ast.Name) and call.func.id == ps[0] and len(call.args) == 1 and isinstance(call.args[0], ast.Starred)
          and isinstance(call.args[0].value, ast.Subscript) and isinstance(call.args[0].value.slice, ast.Slice)
          and isinstance(call.args[0].value.slice.lower, ast.Constant) and call.args[0].value.slice.lower.value == 1 and call.args[0].value.slice.upper is None
          and isinstance(call.args[0].value.value, ast.Name) and call.args[0].value.value.id == ps[3])
    ctx.check(ok, "R42.2", (F, "_Action.make", mk), norm(body[0]), "the constructor must receive the argument tokens without the operator literal (toks[1:])",
              desc="_Action.make: cls(*toks[1:])")
    for q in classes:
        mem = class_members(classes[q][0], strict=False)
        if "make" in mem and q not in ("_Action", "FUrl"):
            raise AnalysisError(f"{q}.make overrides _Action.make (not modelled)")
    # naked regex -> the ~u class
    ctx.require(g.naked is not None, "_make: the naked-regex alternative vanished")
    nk_expr, nk_action, _ = g.naked
    ucls = [c for c, code in concrete.items() if code == "u"]
    ok = isinstance(strip_copy(nk_expr), ast.Name) and strip_copy(nk_expr).id == "regex" and nk_action is not None and len(ucls) == 1 and attr_chain(nk_action) == f"{ucls[0]}.make"
    ctx.check(ok, "R42.2", (F, "_make", g.fn), f"naked regex -> {norm(nk_action) if nk_action is not None else None}", "documented: a bare regex is equivalent to ~u regex",
              desc=f"naked regex alternative wired to {ucls[0] if ucls else '?'}.make")
    if ucls:
        um = ctx.func(F, f"{ucls[0]}.make")
        txt = norm(um)
        ps = params_of(um)
        # accepted shape: if len(toks) > 1: toks = toks[1:]; return cls(*toks)
        body = stmts_of(um)
        ok = (len(body) == 2 and isinstance(body[0], ast.If) and norm(body[0].test) in (f"len({ps[3]}) > 1", f"len({ps[3]}) >= 2", f"len({ps[3]}) == 2")
              and len(body[0].body) == 1 and norm(body[0].body[0]) == f"{ps[3]} = {ps[3]}[1:]" and not body[0].orelse and norm(body[1]) == f"return {ps[0]}(*{ps[3]})")
        ctx.require(ok, f"{ucls[0]}.make not modelled: {txt}")
        ctx.ok("R42.2", f"{ucls[0]}.make accepts both `~u rex` and the naked form")
    # case-insensitive compilation, errors -> ValueError
    ri = ctx.func(F, "_Rex.__init__")
    comp = [c for c in own_nodes(ri) if isinstance(c, ast.Call) and call_name(c) == "re.compile"]
    ctx.require(len(comp) == 1 and (len(comp[0].args) == 2 or kwarg(comp[0], "flags") is not None or len(comp[0].args) == 1), "_Rex.__init__: re.compile call not modelled")
    flags = comp[0].args[1] if len(comp[0].args) == 2 else kwarg(comp[0], "flags")
    terms = [norm(t) for t in flat(flags, ast.BitOr)] if flags is not None else []
    ctx.check("maybe_ignore_case" in terms or "re.IGNORECASE" in terms or "re.I" in terms, "R42.2", (F, "_Rex.__init__", comp[0]), f"re.compile flags: {' | '.join(terms) or '<none>'}",
              "documented: regular expressions are case-insensitive", desc=f"re.compile(expr, {' | '.join(terms)})")
    if "maybe_ignore_case" in terms:
        mic = ctx.model.const(F, "maybe_ignore_case")
        ctx.require(isinstance(mic, ast.IfExp) or "IGNORECASE" in norm(mic), f"maybe_ignore_case not modelled: {norm(mic)}")
        if isinstance(mic, ast.IfExp):
            t = mic.test
            shape = (isinstance(t, ast.Compare) and len(t.ops) == 1 and isinstance(t.ops[0], (ast.NotEq, ast.Eq)) and isinstance(t.left, ast.Call)
                     and call_name(t.left) in ("os.environ.get", "os.getenv") and isinstance(t.comparators[0], ast.Constant) and t.comparators[0].value)
            ctx.require(shape, f"maybe_ignore_case test not modelled: {norm(t)}")
            default = mic.body if isinstance(t.ops[0], ast.NotEq) else mic.orelse  # env variable unset: get() is None != "1"
            ctx.check("re.IGNORECASE" in norm(default) or "re.I)" in norm(default) or norm(default) == "re.I", "R42.2", (F, "<module>", mic), f"maybe_ignore_case defaults to {norm(default)}",
                      "without the opt-out environment variable regexes must be case-insensitive", desc=f"maybe_ignore_case = {norm(default)} unless {norm(t.left.args[0])} is set")
    # compile error -> ValueError ; parse: ParseException -> ValueError
    tries = [t for t in own_nodes(ri) if isinstance(t, ast.Try) and any(c is comp[0] for b in t.body for c in ast.walk(b))]
    ok = bool(tries) and any((h.type is None or last_attr(h.type) in ("Exception", "error", "BaseException") or "error" in norm(h.type)) and
                             any(isinstance(s, ast.Raise) and s.exc is not None and last_attr(s.exc) == "ValueError" for s in h.body) for h in tries[0].handlers)
    ctx.check(ok, "R42.2", (F, "_Rex.__init__", ri), "re.compile failure handling", "an invalid regex must surface as ValueError from parse()", desc="invalid regex -> ValueError")
    pf = ctx.func(F, "parse")
    ptries = [t for t in own_nodes(pf) if isinstance(t, ast.Try) and any(isinstance(c, ast.Call) and last_attr(c.func) in ("parse_string", "parseString") for b in t.body for c in ast.walk(b))]
    ctx.require(len(ptries) == 1, "parse: the parse_string call is no longer inside one try block")
    caught = []
    raises_value = False
    for h in ptries[0].handlers:
        names = [last_attr(e) for e in (h.type.elts if isinstance(h.type, ast.Tuple) else [h.type])] if h.type is not None else ["BaseException"]
        rv = any(isinstance(s, ast.Raise) and s.exc is not None and last_attr(s.exc) == "ValueError" for s in h.body)
        if rv:
            caught += names
            raises_value = True
    ctx.check(raises_value and any(n in ("ParseException", "ParseBaseException", "Exception", "BaseException") for n in caught), "R42.2", (F, "parse", ptries[0]),
              f"parse maps {caught or 'nothing'} to ValueError", "a syntactically invalid expression must raise ValueError, not a pyparsing exception", desc=f"parse: {caught} -> ValueError")
    # every regex operator applies its pattern with search()
    n = 0
    for q, (d, anc) in classes.items():
        if "_Rex" not in anc[1:] or q not in concrete:
            continue
        fn = ctx.func(F, f"{q}.__call__")
        uses = [x for x in ast.walk(fn) if isinstance(x, ast.Attribute) and attr_chain(x) == "self.re"]
        ctx.require(uses, f"{q}.__call__ never uses self.re")
        bad = []
        for u in uses:
            par = u._parent
            if isinstance(par, ast.Attribute) and isinstance(par._parent, ast.Call) and par._parent.func is par:
                if par.attr != "search":
                    bad.append(par.attr)
            elif isinstance(par, ast.Call) and call_name(par) == "_check_content_type" and par.args and par.args[0] is u:
                pass
            else:
                raise AnalysisError(f"{q}.__call__: use of self.re not modelled: {norm(par)}")
        ctx.check(not bad, "R42.2", (F, f"{q}.__call__", fn), f"~{concrete[q]}: self.re.{'/'.join(sorted(set(bad)))}(...)",
                  "documented: the regex is searched in the field (Python re.search), not anchored", desc=f"~{concrete[q]} {q}: self.re.search")
        n += 1
    cct = ctx.func(F, "_check_content_type")
    meths = {x.attr for x in ast.walk(cct) if isinstance(x, ast.Attribute) and isinstance(x.value, ast.Name) and x.value.id == params_of(cct)[0]}
    ctx.check(meths == {"search"}, "R42.2", (F, "_check_content_type", cct), f"_check_content_type applies rex.{'/'.join(sorted(meths))}", "content-type operators must search", desc="_check_content_type: rex.search")
    # _Int
    ii = ctx.func(F, "_Int.__init__")
    ctx.require(any(isinstance(c, ast.Call) and call_name(c) == "int" for c in ast.walk(ii)), "_Int.__init__ no longer converts with int()")


# ---------------------------------------------------------------------------------------------------
# R42.3: which parts of the flow a regex operator inspects


class _Part:
    """native attribute bag standing for a message / connection; an attribute the rule did not foresee reads as a token naming it"""

    def __init__(self, path, **kw):
        self.__dict__.update(kw)
        self.__dict__["_path"] = path

    def __getattr__(self, name):
        if name.startswith("__"):
            raise AttributeError(name)
        return f"<{self._path}.{name}?>"


class _Hdrs:
    def __init__(self, side):
        self.side = side
        self.fields = ((b"Content-Type", f"<{side} content-type>".encode()), (b"X-Other", f"<{side} x-other>".encode()))

    def __bytes__(self):
        return f"<{self.side} header block>".encode()


class _Dns(_Part):
    def __str__(self):
        return f"<dns {self._path}>"


class _Pat:
    """stands for a compiled pattern: records what it is applied to; matches ``hit`` only"""

    flags = 0

    def __init__(self, hit=None):
        self.hit = hit
        self.seen = []

    def search(self, subject, *a):
        self.seen.append(subject)
        return self if (self.hit is not None and subject == self.hit) else None

    match = fullmatch = search


def _msg(text, from_client):
    return _Part("message", content=text.encode(), from_client=from_client)


def _http_message(side, **kw):
    body = f"<{side} body>".encode()
    return _Part(side, headers=_Hdrs(side), content=body, get_content=lambda strict=True: body, raw_content=f"<{side} raw body>".encode(),
                 text=f"<{side} text>", get_text=lambda strict=True: f"<{side} text>", **kw)


def _flows(error=None, marked="<marker>", is_replay=None, status=200, request_type=None, response_type=None):
    from ..pyint import Rec

    def common():
        return dict(error=error, marked=marked, comment="<comment>", metadata={"k1": "v1", "k2": "v2"}, is_replay=is_replay, live=False, intercepted=False,
                    client_conn=_Part("client_conn", peername=("<client ip>", 1111)), server_conn=_Part("server_conn", address=("<server host>", 2222)))

    def http(full):
        req = _http_message("request", host="<request.host>", pretty_host="<request.pretty_host>", url="<request.url>", pretty_url="<request.pretty_url>", port=80, method="<request.method str>",
                            data=_Part("request.data", method=b"<request method>", host="<request.host>"))
        resp = _http_message("response", status_code=status, reason="<reason>", data=_Part("response.data", status_code=status)) if full else None
        for msg, ct in ((req, request_type), (resp, response_type)):
            if msg is not None and ct is not None:
                msg.headers.fields = ((b"content-type", ct),) + msg.headers.fields[1:]
        ws = _Part("websocket", messages=[_msg("<websocket client message>", True), _msg("<websocket server message>", False)]) if full else None
        return Rec("HTTPFlow", _bases=("Flow",), _name="http flow", request=req, response=resp, websocket=ws, **common())

    def stream(cls, what):
        return Rec(cls, _bases=("Flow",), _name=f"{what} flow", messages=[_msg(f"<{what} client message>", True), _msg(f"<{what} server message>", False)], **common())

    def dns(full):
        return Rec("DNSFlow", _bases=("Flow",), _name="dns flow", request=_Dns("request", questions=[_Part("question", name="<dns question name>")]),
                   response=_Dns("response", questions=[]) if full else None, **common())

    return {"http": http(True), "http-no-response": http(False), "tcp": stream("TCPFlow", "tcp"), "udp": stream("UDPFlow", "udp"), "dns": dns(True), "dns-no-response": dns(False)}


def _subjects():
    """SUBJECTS: operator code -> flow kind -> the documented parts (as the tokens of _flows()).  Sources: the help strings ("Request header",
    "Response body", "Domain", "URL" ...), docs/src/content/concepts/filters.md ("Header matching is against a string of the form name: value",
    "Strings with no operators are matched against the request URL"), CHANGELOG ("Match ~d and ~u filters against pretty_host"; WebSocket / TCP /
    UDP / DNS support of ~b ~bq ~bs and ~u)."""
    rq_ct, rs_ct = b"<request content-type>", b"<response content-type>"
    rq_h, rs_h = b"<request header block>", b"<response header block>"
    rq_b, rs_b = b"<request body>", b"<response body>"
    ws_c, ws_s = b"<websocket client message>", b"<websocket server message>"
    everywhere = {"src": {"<client ip>:1111"}, "dst": {"<server host>:2222"}, "meta": {"k1: v1\nk2: v2"}, "marker": {"<marker>"}, "comment": {"<comment>"}}
    http_always = {"m": {b"<request method>"}, "d": {"<request.host>", "<request.pretty_host>"}, "u": {"<request.pretty_url>"}}
    table = {
        "http": {"t": {rq_ct, rs_ct}, "tq": {rq_ct}, "ts": {rs_ct}, "h": {rq_h, rs_h}, "hq": {rq_h}, "hs": {rs_h},
                 "b": {rq_b, rs_b, ws_c, ws_s}, "bq": {rq_b, ws_c}, "bs": {rs_b, ws_s}, **http_always},
        "http-no-response": {"t": {rq_ct}, "tq": {rq_ct}, "ts": set(), "h": {rq_h}, "hq": {rq_h}, "hs": set(), "b": {rq_b}, "bq": {rq_b}, "bs": set(), **http_always},
        "dns": {"b": {b"<dns request>", b"<dns response>"}, "bq": {b"<dns request>"}, "bs": {b"<dns response>"}, "u": {"<dns question name>"}},
        "dns-no-response": {"b": {b"<dns request>"}, "bq": {b"<dns request>"}, "bs": set(), "u": {"<dns question name>"}},
    }
    for what in ("tcp", "udp"):
        c, s_ = f"<{what} client message>".encode(), f"<{what} server message>".encode()
        table[what] = {"b": {c, s_}, "bq": {c}, "bs": {s_}}
    codes = set(everywhere) | {k for row in table.values() for k in row}
    return {code: {kind: (everywhere[code] if code in everywhere else table[kind].get(code, set())) for kind in table} for code in codes}


def check_subjects(ctx, classes, concrete):
    from ..pyint import Func
    from ..pyint import Interp
    from ..pyint import Raised
    from ..pyint import Rec

    spec = _subjects()
    flows = _flows()
    rex = {q: concrete[q] for q, (d, anc) in classes.items() if "_Rex" in anc[1:] and q in concrete}
    ctx.require(len(rex) >= 10, f"only {len(rex)} regex operator classes found")
    undocumented = sorted(code for code in rex.values() if code not in spec)
    ctx.require(not undocumented, f"R42.3 has no documented-subject row for the regex operator(s) {', '.join('~' + c for c in undocumented)}: extend SUBJECTS")
    mod = ctx.model.module(F)
    n = 0
    for q, code in sorted(rex.items(), key=lambda kv: kv[1]):
        anc = classes[q][1]
        want_type = str if "_StrRex" in anc else bytes if "_BinRex" in anc else None
        r = ctx.model.method(F, q, "__call__")
        ctx.require(r is not None, f"{q}.__call__ vanished")
        fn = r[1]
        problems = []

        def run(kind, pat):
            it = Interp(ctx.model)
            func = Func(r[0], fn)
            for dec in reversed(fn.decorator_list):
                func = it.apply(it.ev(dec, {}, r[0], 0), [func], {}, 0)
            me = Rec(q, _bases=tuple(anc[1:]), _impl=(F, q), re=pat, expr="x")
            try:
                return it.truthy(it.apply(func, [me, flows[kind]], {}, 0))
            except Raised as e:
                return f"raises {e.name}"

        for kind in flows:
            want = spec[code][kind]
            pat = _Pat()
            verdict = run(kind, pat)
            n += 1
            got = set(pat.seen)
            if isinstance(verdict, str):
                problems.append(f"on a {kind} flow it {verdict}")
                continue
            if got != want:
                missing, extra = sorted(want - got, key=repr), sorted(got - want, key=repr)
                problems.append(f"on a {kind} flow the pattern is applied to {sorted(got, key=repr)}" + (f", not to {missing}" if missing else "") + (f"; {extra} is not a documented part" if extra else ""))
                continue
            wrong = [x for x in got if want_type is not None and not isinstance(x, want_type)]
            if wrong:
                problems.append(f"on a {kind} flow a {want_type.__name__} pattern is applied to {wrong}")
                continue
            if verdict:
                problems.append(f"on a {kind} flow the verdict is True although the pattern matches nothing")
                continue
            for hit in sorted(want, key=repr):
                n += 1
                v = run(kind, _Pat(hit))
                if v is not True:
                    problems.append(f"on a {kind} flow whose {hit!r} matches the verdict is {v if isinstance(v, str) else 'False'}")
        ctx.check(not problems, "R42.3", (F, f"{q}.__call__", fn), f"~{code} ({q}): {problems[0] if problems else ''}"[:300],
                  f"documented: ~{code} is '{_help_of(classes[q][0])}' - the regex must be searched in exactly that part of the flow, and a match in any of its parts matches",
                  desc=f"~{code} {q}: " + "; ".join(f"{kind}: {len(spec[code][kind])}" for kind in flows if spec[code][kind]))
    ctx.cells += n
    ctx.bounds.append("R42.3: one abstract flow per kind (HTTP with response+WebSocket / without, TCP, UDP, DNS with / without response); bodies, headers and peers present")


# ---------------------------------------------------------------------------------------------------
# R42.4: verdicts of the operators without a regex argument


def _verdict_spec():
    """code -> f(kind, variant) -> documented verdict.  variant: dict(error, marked, replay, status, asset) describing the abstract flow."""
    has_response = ("http", "dns")
    return {
        "e": lambda k, v: v["error"],
        "marked": lambda k, v: v["marked"],
        "http": lambda k, v: k.startswith("http"),
        "tcp": lambda k, v: k == "tcp",
        "udp": lambda k, v: k == "udp",
        "dns": lambda k, v: k.startswith("dns"),
        "websocket": lambda k, v: k == "http",
        "q": lambda k, v: k in ("http-no-response", "dns-no-response"),
        "s": lambda k, v: k in has_response,
        "all": lambda k, v: True,
        "a": lambda k, v: k == "http" and v["asset"] == "response",
        "replay": lambda k, v: v["replay"] is not None,
        "replayq": lambda k, v: v["replay"] == "request",
        "replays": lambda k, v: v["replay"] == "response",
        "c": lambda k, v: k == "http" and v["status"] == 200,  # the operator is built as ~c 200
    }


def check_verdicts(ctx, classes, concrete):
    import re as _re

    from ..pyint import ClassRef
    from ..pyint import Func
    from ..pyint import Interp
    from ..pyint import Raised
    from ..pyint import Rec

    spec = _verdict_spec()
    plain = {q: concrete[q] for q, (d, anc) in classes.items() if "_Rex" not in anc[1:] and q in concrete}
    undocumented = sorted(code for code in plain.values() if code not in spec)
    ctx.require(not undocumented, f"R42.4 has no verdict row for the operator(s) {', '.join('~' + c for c in undocumented)}: extend _verdict_spec")
    base = dict(error=False, marked=False, replay=None, status=200, asset=None)
    variants = [base, {**base, "error": True}, {**base, "marked": True}, {**base, "replay": "request"}, {**base, "replay": "response"}, {**base, "status": 404},
                {**base, "asset": "response"}, {**base, "asset": "request"}]
    worlds = []
    for v in variants:
        fl = _flows(error=_Part("error", msg="boom") if v["error"] else None, marked="<marker>" if v["marked"] else "", is_replay=v["replay"], status=v["status"],
                    request_type=b"image/png" if v["asset"] == "request" else None, response_type=b"text/css; charset=utf-8" if v["asset"] == "response" else None)
        worlds.append((v, fl))
    n = 0
    for q, code in sorted(plain.items(), key=lambda kv: kv[1]):
        anc = classes[q][1]
        r = ctx.model.method(F, q, "__call__")
        ctx.require(r is not None, f"{q}.__call__ vanished")
        fn = r[1]
        problems = []
        for v, fl in worlds:
            for kind, flow in fl.items():
                it = Interp(ctx.model, trusted_modules={"re": _re})
                try:
                    me = it.apply(ClassRef(ctx.model.module(F), classes[q][0]), ["200"] if "_Int" in anc else [], {}, 0)
                    func = Func(r[0], fn)
                    for dec in reversed(fn.decorator_list):
                        func = it.apply(it.ev(dec, {}, r[0], 0), [func], {}, 0)
                    got = it.truthy(it.apply(func, [me, flow], {}, 0))
                except Raised as e:
                    got = f"raises {e.name}"
                n += 1
                want = bool(spec[code](kind, v))
                if got != want and len(problems) < 3:
                    diff = ", ".join(f"{k}={val}" for k, val in v.items() if val != base[k]) or "plain"
                    problems.append(f"on a {kind} flow ({diff}) the verdict is {got}, documented {want}")
        ctx.check(not problems, "R42.4", (F, f"{q}.__call__", fn), f"~{code} ({q}): {problems[0] if problems else ''}"[:300],
                  f"documented: ~{code} is '{_help_of(classes[q][0])}'", desc=f"~{code} {q}: {len(worlds) * 6} abstract flows")
    ctx.cells += n


def _help_of(cls: ast.ClassDef) -> str:
    mem = class_members(cls, strict=False)
    node = mem.get("help")
    return node.value.value if isinstance(node, ast.Assign) and isinstance(node.value, ast.Constant) else "?"


def check(ctx):
    ctx.rule("R42.1", "infix_notation rows are ! (prefix) > & > | mapped to FNot/FAnd/FOr = not/all/any with matching token nesting; juxtaposition = FAnd")
    ctx.rule("R42.2", "every operator class is registered once, in the list whose grammar loop matches its constructor; unique, prefix-safe codes; quoted and "
             "unquoted arguments; case-insensitive search; errors surface as ValueError")
    ctx.rule("R42.3", "every regex operator applies its pattern to exactly the documented parts of each flow type (interpreted on abstract flows with a recording pattern) and "
             "matches when any one of them matches")
    ctx.rule("R42.4", "every operator without a regex argument (~q ~s ~e ~a ~c ~http ...) gives the documented verdict on abstract flows of every type (interpreted through its decorators)")
    g = Grammar(ctx)
    check_operators(ctx, g)
    classes, concrete, lists = check_registry(ctx, g)
    check_make_and_rex(ctx, g, classes, concrete)
    ctx.guard(check_subjects, ctx, classes, concrete)
    ctx.guard(check_verdicts, ctx, classes, concrete)
    ctx.note(f"{len(concrete)} operator classes: " + ", ".join(f"{n}={len(v)}" for n, v in lists.items()))
    ctx.trust("pyparsing: infix_notation binds earlier rows tighter and groups with ( ); MatchFirst tries alternatives in order; WordEnd; QuotedString; "
              "exceptions other than ParseBaseException raised by parse actions propagate")
    if not ctx.findings:  # a violated obligation can skip dependent instances; the run fails anyway
        ctx.expect_instances("R42.1", 1 + 3 * 3 + 1)
        ctx.expect_instances("R42.2", 3 + 32 + 2 + 3 + 4 + 17 + 1)
        ctx.expect_instances("R42.3", 17)
        ctx.expect_instances("R42.4", 15)


MUTANTS = [
    Mutant("and-or-rows-swapped", F,
           "                (pp.Literal(\"&\").suppress(), 2, pp.opAssoc.LEFT, lambda x: FAnd(*x)),\n                (pp.Literal(\"|\").suppress(), 2, pp.opAssoc.LEFT, lambda x: FOr(*x)),\n",
           "                (pp.Literal(\"|\").suppress(), 2, pp.opAssoc.LEFT, lambda x: FOr(*x)),\n                (pp.Literal(\"&\").suppress(), 2, pp.opAssoc.LEFT, lambda x: FAnd(*x)),\n", "R42.1"),
    Mutant("not-is-postfix", F, "(pp.Literal(\"!\").suppress(), 1, pp.opAssoc.RIGHT, lambda x: FNot(*x))", "(pp.Literal(\"!\").suppress(), 1, pp.opAssoc.LEFT, lambda x: FNot(*x))", "R42.1"),
    Mutant("ampersand-builds-or", F, "pp.opAssoc.LEFT, lambda x: FAnd(*x))", "pp.opAssoc.LEFT, lambda x: FOr(*x))", "R42.1"),
    Mutant("and-computes-any", F, "        return all(i(f) for i in self.lst)", "        return any(i(f) for i in self.lst)", "R42.1"),
    Mutant("not-does-not-negate", F, "        return not self.itm(f)", "        return self.itm(f)", "R42.1"),
    Mutant("not-keeps-group", F, "        self.itm = itm[0]", "        self.itm = itm", "R42.1"),
    Mutant("operator-not-suppressed", F, "(pp.Literal(\"|\").suppress(), 2,", "(pp.Literal(\"|\"), 2,", "R42.1"),
    Mutant("juxtaposition-is-or", F, "lambda x: FAnd(x) if len(x) != 1 else x", "lambda x: FOr(x) if len(x) != 1 else x", "R42.1"),
    Mutant("operator-dropped-from-list", F, "    FUrl,\n    FMeta,\n", "    FUrl,\n", "R42.2"),
    Mutant("duplicate-code", F, "    code = \"marker\"", "    code = \"marked\"", "R42.2"),
    Mutant("rex-class-in-unary-list", F, "    FAll,\n]", "    FAll,\n    FSrc,\n]", "R42.2"),
    Mutant("rex-literals-without-wordend", F, "f = pp.Literal(f\"~{cls.code}\") + pp.WordEnd() + regex.copy()", "f = pp.Literal(f\"~{cls.code}\") + regex.copy()", "R42.2"),
    Mutant("unary-literals-without-wordend", F, "f = pp.Literal(f\"~{cls.code}\") + pp.WordEnd()\n", "f = pp.Literal(f\"~{cls.code}\")\n", "R42.2"),
    Mutant("single-quotes-not-accepted", F, "        | pp.QuotedString('\"', esc_char=\"\\\\\")\n        | pp.QuotedString(\"'\", esc_char=\"\\\\\")\n", "        | pp.QuotedString('\"', esc_char=\"\\\\\")\n", "R42.2"),
    Mutant("unquoted-regex-eats-parenthesis", F, "pp.CharsNotIn(\"()~'\\\"\" +", "pp.CharsNotIn(\"~'\\\"\" +", "R42.2"),
    Mutant("case-sensitive-compile", F, "re.compile(expr, self.flags | maybe_ignore_case)", "re.compile(expr, self.flags)", "R42.2"),
    Mutant("case-sensitive-by-default", F, "    if os.environ.get(\"MITMPROXY_CASE_SENSITIVE_FILTERS\") != \"1\"\n", "    if os.environ.get(\"MITMPROXY_CASE_SENSITIVE_FILTERS\") == \"1\"\n", "R42.2"),
    Mutant("method-regex-anchored", F, "self.re.search(f.request.data.method)", "self.re.match(f.request.data.method)", "R42.2"),
    Mutant("make-keeps-operator-token", F, "        return cls(*toks[1:])", "        return cls(*toks)", "R42.2"),
    Mutant("parse-exception-escapes", F, "    except (pp.ParseException, ValueError) as e:", "    except ValueError as e:", "R42.2"),
    Mutant("domain-ignores-destination-host", F, "        return bool(\n            self.re.search(f.request.host) or self.re.search(f.request.pretty_host)\n        )\n", "        return bool(self.re.search(f.request.pretty_host))\n", "R42.3"),
    Mutant("domain-requires-both-hosts", F, "self.re.search(f.request.host) or self.re.search(f.request.pretty_host)", "self.re.search(f.request.host) and self.re.search(f.request.pretty_host)", "R42.3"),
    Mutant("url-ignores-host-header", F, "return bool(self.re.search(f.request.pretty_url))", "return bool(self.re.search(f.request.url))", "R42.3"),
    Mutant("request-body-op-reads-server-messages", F, "                    if wmsg.from_client and self.re.search(wmsg.content):\n", "                    if not wmsg.from_client and self.re.search(wmsg.content):\n", "R42.3"),
    Mutant("method-str-subject-for-bytes-pattern", F, "return bool(self.re.search(f.request.data.method))", "return bool(self.re.search(f.request.method))", "R42.3"),
    Mutant("response-content-type-op-reads-request", F, "        if f.response:\n            return _check_content_type(self.re, f.response)\n        return False\n", "        if f.response:\n            return _check_content_type(self.re, f.request)\n        return False\n", "R42.3"),
    Mutant("content-type-helper-reads-any-header", F, "        name.lower() == b\"content-type\" and rex.search(value)\n", "        rex.search(value)\n", "R42.3"),
    Mutant("url-op-no-longer-handles-dns", F, "    @only(http.HTTPFlow, dns.DNSFlow)\n    def __call__(self, f) -> bool:\n        if not f or not f.request:\n", "    @only(http.HTTPFlow)\n    def __call__(self, f) -> bool:\n        if not f or not f.request:\n", "R42.3"),
    Mutant("only-decorator-inverted", F, "            if isinstance(flow, types):\n                return fn(self, flow)\n            return False\n", "            if not isinstance(flow, types):\n                return fn(self, flow)\n            return False\n", "R42.3"),
    Mutant("no-response-op-inverted", F, "        return not f.response\n", "        return bool(f.response)\n", "R42.4"),
    Mutant("asset-op-reads-request-content-type", F, "if _check_content_type(i, f.response):", "if _check_content_type(i, f.request):", "R42.4"),
    Mutant("replayq-matches-any-replay", F, "        return f.is_replay == \"request\"\n", "        return f.is_replay is not None\n", "R42.4"),
    Mutant("websocket-op-matches-every-http-flow", F, "        return f.websocket is not None\n", "        return True\n", "R42.4"),
    Mutant("code-op-matches-without-response", F, "        if f.response and f.response.status_code == self.num:\n", "        if not f.response or f.response.status_code == self.num:\n", "R42.4"),
    Mutant("naked-regex-is-domain", F, "    f.set_parse_action(FUrl.make)", "    f.set_parse_action(FDomain.make)", "R42.2"),
]
