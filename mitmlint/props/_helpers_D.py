"""Shared helpers for batch D (C26-C30): a tiny concrete interpreter for pure table/arithmetic functions and a
symbolic (linear-integer / provenance-term) specialisation of the path engine.

Nothing here imports or runs repository code: both interpreters walk the AST of the analysed source.
"""

from __future__ import annotations

import ast

from ..core import AnalysisError
from ..core import norm
from ..model import attr_chain
from ..model import eval_order
from ..model import last_attr
from ..paths import C
from ..paths import is_const
from ..paths import Spec
from ..paths import UNKNOWN

# ---------------------------------------------------------------------------------------------------
# concrete interpreter (finite evaluation of small pure functions)


class _Return(Exception):
    def __init__(self, value):
        self.value = value


class Raised(Exception):
    """the interpreted function raised ``name``"""

    def __init__(self, name):
        self.name = name


class Concrete:
    """Evaluate a small function on concrete ints / bools / strings / tuples / lists / dicts.

    ``resolve(dotted_name) -> value`` supplies module constants (`types.TXT`) and must raise KeyError
    when it cannot.  ``self_attrs`` is the mutable attribute store of ``self``.  Anything outside the
    supported subset raises AnalysisError (the rule then exits 2 instead of guessing)."""

    BUILTINS = {"int": int, "bool": bool, "len": len, "min": min, "max": max, "abs": abs, "range": range, "tuple": tuple, "list": list,
                "set": set, "frozenset": frozenset, "sum": sum, "divmod": divmod, "bytes": bytes, "isinstance": None}

    SAFE_METHODS = {"extend", "append", "clear", "pop", "values", "keys", "items", "get", "startswith", "endswith", "index", "count", "copy",
                    "insert", "join", "split", "hex", "decode", "encode", "to_bytes", "bit_length", "popleft", "add", "discard", "setdefault", "lower", "upper"}

    def __init__(self, resolve=None, self_attrs=None, functions=None, max_steps=200000):
        self.resolve = resolve or (lambda n: (_ for _ in ()).throw(KeyError(n)))
        self.self_attrs = self_attrs if self_attrs is not None else {}
        self.functions = functions or {}
        self.steps = 0
        self.max_steps = max_steps
        self.yielded: list = []
        self.trusted_types: tuple = ()

    def call_gen(self, fn, *args, **kwargs) -> list:
        """run a generator function to exhaustion; the yielded values in order"""
        self.yielded = []
        self.call(fn, *args, **kwargs)
        return self.yielded

    def call(self, fn, *args, **kwargs):
        params = [a.arg for a in fn.args.posonlyargs + fn.args.args]
        if params and params[0] in ("self", "cls"):
            params = params[1:]
        env = {}
        defaults = fn.args.defaults
        allp = [a.arg for a in fn.args.posonlyargs + fn.args.args]
        for p, d in zip(allp[len(allp) - len(defaults):], defaults):
            env[p] = self.expr(d, {})
        for a, d in zip(fn.args.kwonlyargs, fn.args.kw_defaults):
            params.append(a.arg)
            if d is not None:
                env[a.arg] = self.expr(d, {})
        for p, v in zip(params, args):
            env[p] = v
        for k, v in kwargs.items():
            if k not in params:
                raise AnalysisError(f"{fn.name}: no parameter {k}")
            env[k] = v
        missing = [p for p in params if p not in env]
        if missing:
            raise AnalysisError(f"{fn.name}: parameters not bound: {missing}")
        body = list(fn.body)
        try:
            self.block(body, env)
        except _Return as r:
            return r.value
        return None

    # ---- statements
    def block(self, stmts, env):
        for st in stmts:
            self.stmt(st, env)

    def tick(self, node):
        self.steps += 1
        if self.steps > self.max_steps:
            raise AnalysisError(f"concrete evaluation does not terminate within {self.max_steps} steps at {norm(node)}")

    def stmt(self, st, env):
        self.tick(st)
        if isinstance(st, ast.Expr):
            if isinstance(st.value, ast.Constant):
                return
            if isinstance(st.value, ast.Yield):
                self.yielded.append(self.expr(st.value.value, env) if st.value.value is not None else None)
                return
            if isinstance(st.value, ast.YieldFrom):
                self.yielded.extend(self.expr(st.value.value, env))
                return
            self.expr(st.value, env)
        elif isinstance(st, ast.Return):
            raise _Return(self.expr(st.value, env) if st.value is not None else None)
        elif isinstance(st, ast.If):
            self.block(st.body if self.expr(st.test, env) else st.orelse, env)
        elif isinstance(st, ast.Assign):
            v = self.expr(st.value, env)
            for t in st.targets:
                self.assign(t, v, env)
        elif isinstance(st, ast.AnnAssign):
            if st.value is not None:
                self.assign(st.target, self.expr(st.value, env), env)
        elif isinstance(st, ast.AugAssign):
            cur = self.expr(st.target, env)
            v = self.binop(st.op, cur, self.expr(st.value, env), st)
            self.assign(st.target, v, env)
        elif isinstance(st, ast.While):
            while self.expr(st.test, env):
                self.tick(st)
                try:
                    self.block(st.body, env)
                except _Break:
                    break
                except _Continue:
                    continue
            else:
                self.block(st.orelse, env)
        elif isinstance(st, ast.For):
            for v in self.expr(st.iter, env):
                self.tick(st)
                self.assign(st.target, v, env)
                try:
                    self.block(st.body, env)
                except _Break:
                    break
                except _Continue:
                    continue
            else:
                self.block(st.orelse, env)
        elif isinstance(st, ast.Break):
            raise _Break()
        elif isinstance(st, ast.Continue):
            raise _Continue()
        elif isinstance(st, ast.Pass):
            return
        elif isinstance(st, ast.Delete):
            for t in st.targets:
                if isinstance(t, ast.Subscript):
                    base = self.expr(t.value, env)
                    if isinstance(t.slice, ast.Slice):
                        lo = self.expr(t.slice.lower, env) if t.slice.lower is not None else None
                        hi = self.expr(t.slice.upper, env) if t.slice.upper is not None else None
                        if t.slice.step is not None:
                            raise AnalysisError(f"concrete evaluation: unsupported delete {norm(st)}")
                        del base[lo:hi]
                    else:
                        try:
                            del base[self.expr(t.slice, env)]
                        except (KeyError, IndexError) as x:
                            raise Raised(type(x).__name__)
                elif isinstance(t, ast.Name):
                    env.pop(t.id, None)
                else:
                    raise AnalysisError(f"concrete evaluation: unsupported delete {norm(st)}")
        elif isinstance(st, ast.Try):
            if st.finalbody or st.orelse:
                raise AnalysisError(f"concrete evaluation: try/else/finally not supported: {norm(st)[:60]}")
            try:
                self.block(st.body, env)
            except Raised as r:
                for h in st.handlers:
                    names = ["BaseException"] if h.type is None else [last_attr(x) for x in (h.type.elts if isinstance(h.type, ast.Tuple) else [h.type])]
                    if r.name in names or "Exception" in names or "BaseException" in names:
                        if h.name:
                            env[h.name] = r.name
                        self.block(h.body, env)
                        break
                else:
                    raise
        elif isinstance(st, ast.Assert):
            if not self.expr(st.test, env):
                raise Raised("AssertionError")
        elif isinstance(st, ast.Raise):
            raise Raised(last_attr(st.exc) if st.exc is not None else "?")
        elif isinstance(st, ast.Match):
            subj = self.expr(st.subject, env)
            for case in st.cases:
                if self.match(case.pattern, subj, env) and (case.guard is None or self.expr(case.guard, env)):
                    self.block(case.body, env)
                    return
        else:
            raise AnalysisError(f"concrete evaluation: unsupported statement {norm(st)}")

    def match(self, pat, subj, env):
        if isinstance(pat, ast.MatchAs):
            if pat.pattern is not None and not self.match(pat.pattern, subj, env):
                return False
            if pat.name:
                env[pat.name] = subj
            return True
        if isinstance(pat, ast.MatchValue):
            return subj == self.expr(pat.value, env)
        if isinstance(pat, ast.MatchSingleton):
            return subj is pat.value
        if isinstance(pat, ast.MatchOr):
            return any(self.match(p, subj, env) for p in pat.patterns)
        raise AnalysisError(f"concrete evaluation: unsupported pattern {norm(pat)}")

    def assign(self, t, v, env):
        if isinstance(t, ast.Name):
            env[t.id] = v
        elif isinstance(t, (ast.Tuple, ast.List)):
            vs = list(v)
            if len(vs) != len(t.elts):
                raise AnalysisError(f"unpack arity mismatch at {norm(t)}")
            for e, x in zip(t.elts, vs):
                self.assign(e, x, env)
        elif isinstance(t, ast.Attribute) and isinstance(t.value, ast.Name) and t.value.id == "self":
            self.self_attrs[t.attr] = v
        elif isinstance(t, ast.Subscript):
            base = self.expr(t.value, env)
            base[self.expr(t.slice, env)] = v
        else:
            raise AnalysisError(f"concrete evaluation: unsupported assignment target {norm(t)}")

    # ---- expressions
    def binop(self, op, a, b, node):
        try:
            if isinstance(op, ast.Add):
                return a + b
            if isinstance(op, ast.Sub):
                return a - b
            if isinstance(op, ast.Mult):
                return a * b
            if isinstance(op, ast.FloorDiv):
                return a // b
            if isinstance(op, ast.Mod):
                return a % b
            if isinstance(op, ast.LShift):
                return a << b
            if isinstance(op, ast.RShift):
                return a >> b
            if isinstance(op, ast.BitOr):
                return a | b
            if isinstance(op, ast.BitAnd):
                return a & b
            if isinstance(op, ast.BitXor):
                return a ^ b
        except ZeroDivisionError:
            raise Raised("ZeroDivisionError")
        raise AnalysisError(f"concrete evaluation: unsupported operator in {norm(node)}")

    def expr(self, e, env):
        self.tick(e)
        if isinstance(e, ast.Constant):
            return e.value
        if isinstance(e, ast.Name):
            if e.id in env:
                return env[e.id]
            if e.id in ("True", "False", "None"):
                return {"True": True, "False": False, "None": None}[e.id]
            try:
                return self.resolve(e.id)
            except KeyError:
                raise AnalysisError(f"concrete evaluation: unbound name {e.id}")
        if isinstance(e, ast.Attribute):
            ch = attr_chain(e)
            if isinstance(e.value, ast.Name) and e.value.id == "self" and e.attr in self.self_attrs:
                return self.self_attrs[e.attr]
            if ch:
                try:
                    return self.resolve(ch)
                except KeyError:
                    pass
            raise AnalysisError(f"concrete evaluation: unresolvable attribute {norm(e)}")
        if isinstance(e, ast.BinOp):
            return self.binop(e.op, self.expr(e.left, env), self.expr(e.right, env), e)
        if isinstance(e, ast.UnaryOp):
            v = self.expr(e.operand, env)
            if isinstance(e.op, ast.Not):
                return not v
            if isinstance(e.op, ast.USub):
                return -v
            if isinstance(e.op, ast.Invert):
                return ~v
            if isinstance(e.op, ast.UAdd):
                return +v
        if isinstance(e, ast.BoolOp):
            if isinstance(e.op, ast.And):
                v = True
                for x in e.values:
                    v = self.expr(x, env)
                    if not v:
                        return v
                return v
            v = False
            for x in e.values:
                v = self.expr(x, env)
                if v:
                    return v
            return v
        if isinstance(e, ast.Compare):
            left = self.expr(e.left, env)
            for op, c in zip(e.ops, e.comparators):
                right = self.expr(c, env)
                if isinstance(op, ast.Eq):
                    ok = left == right
                elif isinstance(op, ast.NotEq):
                    ok = left != right
                elif isinstance(op, ast.Lt):
                    ok = left < right
                elif isinstance(op, ast.LtE):
                    ok = left <= right
                elif isinstance(op, ast.Gt):
                    ok = left > right
                elif isinstance(op, ast.GtE):
                    ok = left >= right
                elif isinstance(op, ast.In):
                    ok = left in right
                elif isinstance(op, ast.NotIn):
                    ok = left not in right
                elif isinstance(op, ast.Is):
                    ok = left is right or (isinstance(left, (int, bool, type(None))) and type(left) is type(right) and left == right)
                elif isinstance(op, ast.IsNot):
                    ok = not (left is right or (isinstance(left, (int, bool, type(None))) and type(left) is type(right) and left == right))
                else:
                    raise AnalysisError(f"concrete evaluation: unsupported comparison {norm(e)}")
                if not ok:
                    return False
                left = right
            return True
        if isinstance(e, ast.IfExp):
            return self.expr(e.body if self.expr(e.test, env) else e.orelse, env)
        if isinstance(e, (ast.Tuple, ast.List, ast.Set)):
            out = []
            for x in e.elts:
                if isinstance(x, ast.Starred):
                    out.extend(self.expr(x.value, env))
                else:
                    out.append(self.expr(x, env))
            return tuple(out) if isinstance(e, ast.Tuple) else (list(out) if isinstance(e, ast.List) else set(out))
        if isinstance(e, ast.Dict):
            return {self.expr(k, env): self.expr(v, env) for k, v in zip(e.keys, e.values)}
        if isinstance(e, ast.Subscript):
            base = self.expr(e.value, env)
            if isinstance(e.slice, ast.Slice):
                lo = self.expr(e.slice.lower, env) if e.slice.lower is not None else None
                hi = self.expr(e.slice.upper, env) if e.slice.upper is not None else None
                st = self.expr(e.slice.step, env) if e.slice.step is not None else None
                return base[lo:hi:st]
            try:
                return base[self.expr(e.slice, env)]
            except (KeyError, IndexError) as x:
                raise Raised(type(x).__name__)
        if isinstance(e, ast.Call):
            name = attr_chain(e.func)
            args = [self.expr(a, env) for a in e.args]
            kw = {k.arg: self.expr(k.value, env) for k in e.keywords if k.arg}
            if name in self.functions:
                f = self.functions[name]
                if isinstance(f, (ast.FunctionDef, ast.AsyncFunctionDef)):
                    sub = Concrete(self.resolve, self.self_attrs, self.functions, self.max_steps - self.steps)
                    sub.trusted_types = self.trusted_types
                    if any(isinstance(n, (ast.Yield, ast.YieldFrom)) for n in ast.walk(f)):
                        r = sub.call_gen(f, *args, **kw)
                    else:
                        r = sub.call(f, *args, **kw)
                    self.steps += sub.steps
                    return r
                return f(*args, **kw)
            if name in self.BUILTINS and self.BUILTINS[name] is not None:
                return self.BUILTINS[name](*args, **kw)
            if isinstance(e.func, ast.Call):
                f = self.expr(e.func, env)
                if callable(f) and self.trusted_types and isinstance(f, self.trusted_types):
                    return f(*args, **kw)
            if isinstance(e.func, ast.Attribute):
                base = self.expr(e.func.value, env)
                if self.trusted_types and isinstance(base, self.trusted_types) and not e.func.attr.startswith("_"):
                    return getattr(base, e.func.attr)(*args, **kw)
                if isinstance(base, (bytearray, bytes, list, dict, str, tuple, set)) and e.func.attr in self.SAFE_METHODS:
                    try:
                        return getattr(base, e.func.attr)(*args, **kw)
                    except (KeyError, IndexError, ValueError) as x:
                        raise Raised(type(x).__name__)
            raise AnalysisError(f"concrete evaluation: call to {name or norm(e.func)} is outside the supported subset")
        if isinstance(e, (ast.ListComp, ast.GeneratorExp, ast.SetComp)) and len(e.generators) == 1 and not e.generators[0].is_async:
            g = e.generators[0]
            out = []
            inner = dict(env)
            for v in self.expr(g.iter, env):
                self.assign(g.target, v, inner)
                if all(self.expr(c, inner) for c in g.ifs):
                    out.append(self.expr(e.elt, inner))
            return set(out) if isinstance(e, ast.SetComp) else out
        if isinstance(e, ast.JoinedStr):
            return "<fstring>"
        raise AnalysisError(f"concrete evaluation: unsupported expression {norm(e)}")


class _Break(Exception):
    pass


class _Continue(Exception):
    pass


def int_constants(model, rel: str) -> dict:
    """NAME -> int for every module-level `NAME = <int literal>` of a module."""
    out = {}
    for st in model.module(rel).tree.body:
        if isinstance(st, ast.Assign) and len(st.targets) == 1 and isinstance(st.targets[0], ast.Name):
            v = st.value
            if isinstance(v, ast.Constant) and isinstance(v.value, int) and not isinstance(v.value, bool):
                out[st.targets[0].id] = v.value
    return out


# ---------------------------------------------------------------------------------------------------
# symbolic values: linear integer forms over opaque terms


def lin(terms: dict, const: int = 0):
    t = tuple(sorted(((k, v) for k, v in terms.items() if v != 0), key=repr))
    if not t:
        return C(const)
    return ("lin", t, const)


def as_lin(v):
    """-> (terms dict, const) or None"""
    if is_const(v) and isinstance(v[1], int) and not isinstance(v[1], bool):
        return {}, v[1]
    if isinstance(v, tuple) and v and v[0] == "lin":
        return dict(v[1]), v[2]
    if v == UNKNOWN or v is None:
        return None
    if isinstance(v, tuple) and v and v[0] in ("sym", "idx", "attr", "len", "r", "elem"):
        return {v: 1}, 0
    return None


def lin_add(a, b, sign=1):
    la, lb = as_lin(a), as_lin(b)
    if la is None or lb is None:
        return UNKNOWN
    terms = dict(la[0])
    for k, c in lb[0].items():
        terms[k] = terms.get(k, 0) + sign * c
    return lin(terms, la[1] + sign * lb[1])


def lin_scale(a, k: int):
    la = as_lin(a)
    if la is None:
        return UNKNOWN
    return lin({t: c * k for t, c in la[0].items()}, la[1] * k)


def sym(name):
    return ("sym", name)


def attr_of(base, name):
    """canonical form of base.name: attributes of an entry-value symbol stay symbols ('rr.data')"""
    if isinstance(base, tuple) and len(base) == 2 and base[0] == "sym":
        return sym(f"{base[1]}.{name}")
    return ("attr", base, name)


def same(a, b) -> bool:
    """structural equality of symbolic values modulo linear normalisation"""
    la, lb = as_lin(a), as_lin(b)
    if la is not None and lb is not None:
        return lin(la[0], la[1]) == lin(lb[0], lb[1])
    return a == b and a != UNKNOWN


def enclosing_for(node, name):
    """innermost `for <name> in ...` statement whose BODY contains ``node`` (needs the model's _parent links)"""
    child, n = node, getattr(node, "_parent", None)
    while n is not None and not isinstance(n, (ast.FunctionDef, ast.AsyncFunctionDef, ast.Lambda)):
        if isinstance(n, (ast.For, ast.AsyncFor)) and isinstance(n.target, ast.Name) and n.target.id == name and any(child is b for b in n.body):
            return n
        child, n = n, getattr(n, "_parent", None)
    return None


class SymSpec(Spec):
    """Path-engine specialisation with symbolic values.

      names            env or ('sym', name) (their value on entry); names in ``shared`` (nonlocal / closure
                       variables mutated by inlined nested functions) live in one frame-independent slot
      a + b, a - b, k*a  linear forms over opaque terms
      f(args)          ('call', 'dotted.f', args, n)  n = how many calls of f happened before on this path
      x[lo:hi]         ('slice', base, lo, hi);   x[i] -> ('idx', base, i);   a, b = v  binds ('idx', v, 0), ('idx', v, 1)
      len(x)           ('len', x)
    """

    unroll = 1
    max_depth = 4
    record_conds = True

    def __init__(self, shared=(), inline_map=None, unroll=1, pure=("len",), loop_vars=None, forced=None):
        self.forced = forced or {}  # local name -> python constant it is assumed to hold whenever it is (re)bound (case split by the rule)
        self.shared = set(shared)
        self.inline_map = inline_map or {}
        self.unroll = unroll
        self.pure = set(pure)
        self.loop_vars = loop_vars or {}  # name -> iter expression of the (only) for-loop binding it
        self._depth = 0

    @staticmethod
    def loop_vars_of(fn) -> dict:
        """names bound by exactly one `for NAME in ITER` of ``fn`` and by nothing else"""
        loops, other = {}, set()
        for n in ast.walk(fn):
            if isinstance(n, (ast.For, ast.AsyncFor)) and isinstance(n.target, ast.Name):
                if n.target.id in loops:
                    other.add(n.target.id)
                loops[n.target.id] = n.iter
            elif isinstance(n, (ast.Assign, ast.AugAssign, ast.AnnAssign, ast.NamedExpr)):
                tg = n.targets if isinstance(n, ast.Assign) else [n.target]
                for t in tg:
                    for x in ast.walk(t):
                        if isinstance(x, ast.Name) and isinstance(x.ctx, ast.Store):
                            other.add(x.id)
        return {k: v for k, v in loops.items() if k not in other}

    def decide(self, cond, st, depth):
        self._depth = depth
        return self.truth(cond, st, depth)

    def stmt_events(self, stmt, st, depth):
        """events of a simple statement, computed where the frame depth is known"""
        return []

    # ---- names
    def key(self, name, depth):
        return f"nl:{name}" if name in self.shared else f"{depth}:{name}"

    def value(self, expr, st, depth):
        if expr is None:
            return C(None)
        if isinstance(expr, ast.Constant):
            return C(expr.value)
        if isinstance(expr, ast.Name):
            k = self.key(expr.id, depth)
            if st.has(k) and st.get(k) != UNKNOWN:
                return st.get(k)
            # an UNKNOWN local that is the target of the innermost enclosing for-loop: "an element of <iterable>"
            loop = enclosing_for(expr, expr.id)
            if loop is not None:
                return ("elem", self.value(loop.iter, st, depth))
            if st.has(k):
                if expr.id in self.loop_vars:
                    return ("elem", self.value(self.loop_vars[expr.id], st, depth))
                return st.get(k)
            return sym(expr.id)
        if isinstance(expr, ast.Attribute):
            ch = attr_chain(expr)
            if ch and st.has(ch):
                return st.get(ch)
            return attr_of(self.value(expr.value, st, depth), expr.attr)
        if isinstance(expr, ast.BinOp):
            a, b = self.value(expr.left, st, depth), self.value(expr.right, st, depth)
            if isinstance(expr.op, ast.Add):
                r = lin_add(a, b)
                if r != UNKNOWN:
                    return r
                return ("add", a, b)
            if isinstance(expr.op, ast.Sub):
                r = lin_add(a, b, -1)
                if r != UNKNOWN:
                    return r
                return ("sub", a, b)
            if isinstance(expr.op, ast.Mult):
                if is_const(a) and isinstance(a[1], int):
                    return lin_scale(b, a[1])
                if is_const(b) and isinstance(b[1], int):
                    return lin_scale(a, b[1])
            return ("binop", type(expr.op).__name__, a, b)
        if isinstance(expr, ast.UnaryOp):
            v = self.value(expr.operand, st, depth)
            if isinstance(expr.op, ast.USub):
                return lin_scale(v, -1)
            if isinstance(expr.op, ast.Not):
                t = self.truth(expr, st, depth)
                return C(t) if t is not None else ("not", v)
            return ("unop", type(expr.op).__name__, v)
        if isinstance(expr, ast.Subscript):
            base = self.value(expr.value, st, depth)
            if isinstance(expr.slice, ast.Slice):
                if expr.slice.step is not None:
                    return UNKNOWN
                lo = self.value(expr.slice.lower, st, depth) if expr.slice.lower is not None else C(None)
                hi = self.value(expr.slice.upper, st, depth) if expr.slice.upper is not None else C(None)
                return ("slice", base, lo, hi)
            return ("idx", base, self.value(expr.slice, st, depth))
        if isinstance(expr, (ast.Tuple, ast.List)):
            return ("tuple",) + tuple(self.value(e, st, depth) for e in expr.elts)
        if isinstance(expr, ast.Call):
            name = attr_chain(expr.func) or norm(expr.func)
            args = tuple(self.value(a, st, depth) for a in expr.args) + tuple(
                ("kw", k.arg, self.value(k.value, st, depth)) for k in expr.keywords
            )
            if name == "len" and len(args) == 1:
                return ("len", args[0])
            if name in self.pure:
                return ("call", name, args, 0)
            n = st.get("$n:" + name)
            return ("call", name, args, n[1] if is_const(n) else 0)
        if isinstance(expr, ast.IfExp):
            t = self.truth(expr.test, st, depth)
            if t is True:
                return self.value(expr.body, st, depth)
            if t is False:
                return self.value(expr.orelse, st, depth)
            return ("ifexp", norm(expr.test), self.value(expr.body, st, depth), self.value(expr.orelse, st, depth))
        if isinstance(expr, (ast.Compare, ast.BoolOp)):
            t = self.truth(expr, st, depth)
            if t is not None:
                return C(t)
            return ("expr", norm(expr))
        if isinstance(expr, (ast.Yield, ast.YieldFrom, ast.Await)):
            return UNKNOWN
        if isinstance(expr, ast.Starred):
            return ("star", self.value(expr.value, st, depth))
        return ("expr", norm(expr))

    def decide_leaf(self, cond, st, depth):
        if isinstance(cond, ast.Compare) and len(cond.ops) == 1:
            a = self.value(cond.left, st, depth)
            b = self.value(cond.comparators[0], st, depth)
            d = lin_add(a, b, -1)
            if is_const(d) and isinstance(d[1], int):
                op = cond.ops[0]
                table = {ast.Lt: d[1] < 0, ast.LtE: d[1] <= 0, ast.Gt: d[1] > 0, ast.GtE: d[1] >= 0, ast.Eq: d[1] == 0, ast.NotEq: d[1] != 0}
                for k, v in table.items():
                    if isinstance(op, k):
                        return v
            if is_const(a) and is_const(b) and isinstance(cond.ops[0], (ast.Eq, ast.NotEq, ast.Is, ast.IsNot)):
                eq = a[1] == b[1]
                return eq if isinstance(cond.ops[0], (ast.Eq, ast.Is)) else not eq
            return None
        if isinstance(cond, (ast.Name, ast.Attribute, ast.Constant)):
            v = self.value(cond, st, depth)
            if is_const(v):
                return bool(v[1])
        return None

    # ---- effects
    def count_calls(self, node, st):
        for n in eval_order(node):
            if isinstance(n, ast.Call):
                name = attr_chain(n.func) or norm(n.func)
                if name in self.pure or name == "len":
                    continue
                cur = st.get("$n:" + name)
                st = st.set("$n:" + name, C((cur[1] if is_const(cur) else 0) + 1))
        return st

    def effect(self, stmt, st, depth):
        self._depth = depth
        evs = self.stmt_events(stmt, st, depth)
        return self._effect(stmt, st, depth).emit(*evs)

    def _effect(self, stmt, st, depth):
        if isinstance(stmt, ast.Assign):
            v = self.value(stmt.value, st, depth)
            st = self.count_calls(stmt.value, st)
            for t in stmt.targets:
                st = self.bind(t, stmt.value, st, depth, value=v)
            return st
        if isinstance(stmt, ast.AnnAssign):
            if stmt.value is None:
                return st
            v = self.value(stmt.value, st, depth)
            st = self.count_calls(stmt.value, st)
            return self.bind(stmt.target, stmt.value, st, depth, value=v)
        if isinstance(stmt, ast.AugAssign):
            cur = self.value(stmt.target, st, depth)
            rhs = self.value(stmt.value, st, depth)
            if isinstance(stmt.op, ast.Add):
                v = lin_add(cur, rhs)
            elif isinstance(stmt.op, ast.Sub):
                v = lin_add(cur, rhs, -1)
            else:
                v = UNKNOWN
            st = self.count_calls(stmt.value, st)
            return self.bind(stmt.target, None, st, depth, value=v)
        if isinstance(stmt, (ast.Expr, ast.Return, ast.Raise, ast.Delete, ast.Assert)):
            return self.count_calls(stmt, st)
        return st

    def bind(self, target, value_expr, st, depth, value=None):
        v = value if value is not None else self.value(value_expr, st, depth)
        if isinstance(target, ast.Name):
            if target.id in self.forced:
                v = C(self.forced[target.id])
            return st.set(self.key(target.id, depth), v)
        if isinstance(target, (ast.Tuple, ast.List)):
            for i, e in enumerate(target.elts):
                if isinstance(v, tuple) and v and v[0] == "tuple" and len(v) - 1 == len(target.elts):
                    st = self.bind(e, None, st, depth, value=v[1 + i])
                else:
                    st = self.bind(e, None, st, depth, value=("idx", v, C(i)) if v != UNKNOWN else UNKNOWN)
            return st
        ch = attr_chain(target)
        if ch:
            return st.set(ch, v)
        return st

    def inline(self, call, st, depth):
        name = attr_chain(call.func)
        return self.inline_map.get(name)

    # ---- conditions as events with *symbolic* operands
    def cond_event(self, expr, value, st):
        return ("cond", norm(expr), value)


def show(v, depth=0) -> str:
    """compact rendering of a symbolic value for messages"""
    if is_const(v):
        return repr(v[1])
    if v == UNKNOWN:
        return "?"
    if not isinstance(v, tuple) or not v:
        return str(v)
    if depth > 4:
        return "..."
    tag = v[0]
    if tag == "sym":
        return v[1]
    if tag == "lin":
        parts = []
        for t, c in v[1]:
            s = show(t, depth + 1)
            parts.append(s if c == 1 else f"{c}*{s}")
        if v[2]:
            parts.append(str(v[2]))
        return " + ".join(parts)
    if tag == "call":
        return f"{v[1]}#{v[3]}({', '.join(show(a, depth + 1) for a in v[2])})"
    if tag == "idx":
        return f"{show(v[1], depth + 1)}[{show(v[2], depth + 1)}]"
    if tag == "slice":
        return f"{show(v[1], depth + 1)}[{show(v[2], depth + 1)}:{show(v[3], depth + 1)}]"
    if tag == "len":
        return f"len({show(v[1], depth + 1)})"
    if tag == "elem":
        return f"each({show(v[1], depth + 1)})"
    if tag == "hooked":
        return f"after-hook({show(v[1], depth + 1)})"
    if tag == "attr":
        return f"{show(v[1], depth + 1)}.{v[2]}"
    if tag == "kw":
        return f"{v[1]}={show(v[2], depth + 1)}"
    return "(" + " ".join(show(x, depth + 1) if isinstance(x, tuple) else str(x) for x in v) + ")"


# ---------------------------------------------------------------------------------------------------
# shared by C26 / C27 / C28: symbolic calls and the hook/send event alphabet


def call_args(v, fields=None):
    """positional argument values of a symbolic call (keywords mapped through ``fields``)"""
    if not (isinstance(v, tuple) and v and v[0] == "call"):
        return None
    pos = [a for a in v[2] if not (isinstance(a, tuple) and a and a[0] == "kw")]
    kws = {a[1]: a[2] for a in v[2] if isinstance(a, tuple) and a and a[0] == "kw"}
    if kws:
        if fields is None:
            return None
        for f in fields[len(pos):]:
            if f not in kws:
                return None
            pos.append(kws[f])
    return pos


def last_attr_name(v):
    return v[1].rsplit(".", 1)[-1] if isinstance(v, tuple) and v and v[0] == "call" else ""


class SendSpec(SymSpec):
    """hooks / sends / sub-handler calls with symbolic operands; a hook havocs the attributes of its flow argument"""

    def stmt_events(self, stmt, st, depth):
        out = []
        v = stmt.value if isinstance(stmt, (ast.Expr, ast.Assign)) else None
        if isinstance(v, ast.Yield) and isinstance(v.value, ast.Call):
            c = v.value
            name = last_attr(c.func)
            if name.endswith("Hook"):
                out.append(("hook", name))
            elif name == "SendData" and len(c.args) == 2:
                out.append(("send", self.value(c.args[0], st, depth), self.value(c.args[1], st, depth)))
        elif isinstance(v, ast.YieldFrom) and isinstance(v.value, ast.Call):
            out.append(("sub", attr_chain(v.value.func), tuple(self.value(a, st, depth) for a in v.value.args)))
        elif isinstance(stmt, ast.Expr) and isinstance(stmt.value, ast.Call):
            f = stmt.value.func
            if isinstance(f, ast.Attribute) and f.attr in ("extend", "append") and len(stmt.value.args) == 1:
                out.append((f.attr, self.value(f.value, st, depth), self.value(stmt.value.args[0], st, depth)))
        if isinstance(stmt, ast.AugAssign) and isinstance(stmt.op, ast.Add):
            out.append(("extend", self.value(stmt.target, st, depth), self.value(stmt.value, st, depth)))
        return out

    def _effect(self, stmt, st, depth):
        st = SymSpec._effect(self, stmt, st, depth)
        v = stmt.value if isinstance(stmt, (ast.Expr, ast.Assign)) else None
        if isinstance(v, ast.Yield) and isinstance(v.value, ast.Call) and last_attr(v.value.func).endswith("Hook"):
            for a in v.value.args:
                if isinstance(a, ast.Name):
                    pref = a.id + "."
                    for k, old in st.env:
                        if k.startswith(pref):
                            st = st.set(k, ("hooked", old))
        return st


def unhook(v):
    while isinstance(v, tuple) and v and v[0] == "hooked":
        v = v[1]
    return v
