"""C13 - ClientHello parsing is total (incomplete | ClientHello | ValueError) and independent of segmentation.

Decided (nothing of the repository is imported or executed; ``mitmlint.pyint`` interprets the AST of the record walkers):
  R13.1 (E5) on untrusted bytes the escape set of ``parse_client_hello`` / ``dtls_parse_client_hello`` (through the record walkers,
        ``ClientHello.__init__`` and the two kaitai modules, whose stream reads raise EOFError) is within the types handled around every
        place where ``ClientTLSLayer.receive_handshake_data`` and ``NextLayer._get_client_hello`` reach the parsers (the call sites are
        found over the call graph, through extracted helpers); the ``ClientHello`` properties read afterwards outside any handler raise
        nothing in the model.  Implicit raisers are discharged semantically: ``struct.error`` when the buffer length is *proved* equal to
        the format size (symbolic length arithmetic over slices, temporaries, module constants, guards - also guards of the callers of an
        extracted helper) or, failing a proof, when the bounded interpretation of R13.3/R13.4 never raised it (stated as a bound);
        ``AssertionError`` when the asserted condition is implied by the preceding slices / guards (same arithmetic).
  R13.2 segmentation independence: until the hello is parsed ``receive_handshake_data`` (helpers inlined) only appends the new data to
        ``recv_buffer`` and parses the WHOLE buffer; the buffer is modified otherwise only after a hello was found; ``recv_buffer`` is
        written only by ``__init__`` / ``receive_handshake_data`` and private helpers reachable from there alone; the record walkers /
        parsers and everything they call are pure; ``NextLayer.data_client()`` (interpreted) is the concatenation of all buffered client data.
  R13.3 record-walking arithmetic, decided by interpreting the walkers on crafted records derived from the TLS / DTLS layout table (record
        header 5 / 13 bytes, 16-bit length at 3 / 11, handshake header 4 / 12 bytes with the 24-bit length at 1 / 9, header stripped before
        parsing): every prefix of a multi-record stream yields exactly the complete records and raises nothing; empty records are rejected.
  R13.4 record reassembly over every record split / prefix / tail of a short message (bounded).
NOT decided: value-level agreement of SNI / ALPN / cipher suites with an independent TLS parser; QUIC ClientHello extraction.
"""

from __future__ import annotations

import ast
import struct as _struct

from ..core import AnalysisError
from ..core import norm
from ..model import attr_chain
from ..model import enclosing_func
from ..model import walk_in_order
from ..paths import GenericSpec
from ..paths import traces_of
from ..selftest import Mutant
from ._helpers_H import _end
from ._helpers_H import _own_nodes
from ._helpers_H import _pos
from ._helpers_H import _writes
from ._helpers_H import Config
from ._helpers_H import guards_at
from ._helpers_H import MayRaise
from ._helpers_H import modules_mentioning
from ._helpers_H import names_in

PROP = "C13"
REG = {
    "strength": "partial",
    "technique": "exception-escape sets vs. handler coverage (E5, kaitai reads summarised as EOFError; struct.error / AssertionError discharged by "
    "symbolic length arithmetic) + buffer-discipline path facts with helper inlining + AST interpretation of the record walkers on crafted "
    "TLS/DTLS records (layout table) and on every record split of a short message",
    "claim": "every explicit raise / modelled raiser of ClientHello parsing on untrusted bytes is handled wherever the layer and NextLayer reach the "
    "parsers, and the properties read afterwards raise nothing modelled; parsing always sees the whole accumulated buffer and the parsers are pure, "
    "so the result is a function of the concatenation; the record walkers' offsets and sizes match the TLS/DTLS record and handshake headers "
    "(decided by interpretation on crafted records, bounded).",
    "note": "Trusted base: KaitaiStream read_* raise EOFError subclasses only; bytes.decode('idna') succeeds only on ASCII input.",
}

L = "mitmproxy/proxy/layers/tls.py"
T = "mitmproxy/tls.py"
NL = "mitmproxy/addons/next_layer.py"
CK = "mitmproxy/net/check.py"
LAYER = "mitmproxy/proxy/layer.py"
K1 = "mitmproxy/contrib/kaitaistruct/tls_client_hello.py"
K2 = "mitmproxy/contrib/kaitaistruct/dtls_client_hello.py"

KAITAI = {
    ".read_u1": (("EOFError",), "V"), ".read_u2be": (("EOFError",), "V"), ".read_u4be": (("EOFError",), "V"), ".read_u8be": (("EOFError",), "V"),
    ".read_bytes": (("EOFError",), "V"), ".read_bytes_full": ((), "V"), ".is_eof": ((), None),
    "kaitaistruct.KaitaiStream": ((), "V"), "kaitaistruct.BytesIO": ((), "V"),
    # `from struct import unpack` spelling (the `struct.unpack` spelling is modelled by the engine itself)
    "struct.unpack": (("struct.error",), "V"),
    # logging calls added to the parsers: the logging package swallows formatting errors (logging.raiseExceptions only prints)
    ".debug": ((), None), ".info": ((), None), ".warning": ((), None), ".error": ((), None), ".critical": ((), None), ".exception": ((), None), ".log": ((), None),
    ".isEnabledFor": ((), None),
}

PARSERS = ("parse_client_hello", "dtls_parse_client_hello")
WALKERS = ("handshake_record_contents", "get_client_hello", "parse_client_hello", "dtls_handshake_record_contents", "get_dtls_client_hello", "dtls_parse_client_hello")
HELLO_PROPS = ("sni", "alpn_protocols", "extensions", "cipher_suites")

# ---------------------------------------------------------------------------------------------------
# small resolvers shared by the rules


def _const_int(e):
    return e.value if isinstance(e, ast.Constant) and isinstance(e.value, int) and not isinstance(e.value, bool) else None


def _dotted(mod, func) -> str:
    """Dotted name of a callee with the module's imports resolved (`unpack` -> `struct.unpack`)."""
    ch = attr_chain(func)
    if not ch:
        return ""
    head = ch.split(".")[0]
    if head in mod.imports:
        return ".".join(mod.imports[head].split(".") + ch.split(".")[1:])
    return ch


def _struct_unpack_fmt(mod, call):
    """Format string of a ``struct.unpack(<constant format>, buf)`` call (any import spelling), else None."""
    if isinstance(call, ast.Call) and len(call.args) == 2 and not call.keywords and isinstance(call.args[0], ast.Constant) and isinstance(call.args[0].value, str) \
            and _dotted(mod, call.func) == "struct.unpack":
        try:
            _struct.calcsize(call.args[0].value)
        except _struct.error:
            return None
        return call.args[0].value
    return None


def _fmt_unsigned(fmt) -> bool:
    body = fmt[1:] if fmt[:1] in "@=<>!" else fmt
    return bool(body) and all(ch in "BHILQ" or ch.isdigit() for ch in body)


def _class_of(fn):
    p = getattr(fn, "_parent", None)
    return p if isinstance(p, ast.ClassDef) else None


def _callee(model, mod, cls, call):
    """(Module, FunctionDef) a call resolves to: ``self.m()`` / ``cls.m()`` along the MRO, module functions, imported functions."""
    f = call.func
    if isinstance(f, ast.Attribute) and isinstance(f.value, ast.Name) and f.value.id in ("self", "cls") and cls is not None:
        return model.method(mod.rel, cls._qual, f.attr)
    if isinstance(f, (ast.Name, ast.Attribute)) and attr_chain(f):
        r = model.resolve_name(mod, f)
        if r is not None and isinstance(r[1], (ast.FunctionDef, ast.AsyncFunctionDef)):
            return r
    return None


def _fn_values(model, mod, e):
    """The repository functions an expression may denote: the name of a function, or a conditional expression choosing between such."""
    if isinstance(e, ast.IfExp):
        a, b = _fn_values(model, mod, e.body), _fn_values(model, mod, e.orelse)
        return a + b if a and b else []
    if isinstance(e, (ast.Name, ast.Attribute)) and attr_chain(e):
        r = model.resolve_name(mod, e)
        if r is not None and isinstance(r[1], (ast.FunctionDef, ast.AsyncFunctionDef)):
            return [r]
    return []


def _callees(model, mod, fn, call):
    """All (Module, FunctionDef) a call in ``fn`` may reach: `_callee`, or - for a call through a single-assignment local such as
    ``parse = dtls_parse_client_hello if self.is_dtls else parse_client_hello`` - the functions that local may hold."""
    f = call.func
    a = fn.args
    params = {x.arg for x in a.posonlyargs + a.args + a.kwonlyargs}
    if isinstance(f, ast.Name) and f.id in params:
        # a function handed in as an argument (`_parse_or_defer(parse_client_hello, data)`, `_record_contents(.., starts_like_tls_record)`)
        return _param_fn_values(model, mod, fn, f.id) if not _defs(fn).get(f.id) else []
    r = _callee(model, mod, _class_of(fn), call)
    if r is not None:
        return [r]
    if isinstance(f, ast.Name):
        ds = _defs(fn).get(f.id, [])
        if len(ds) == 1 and ds[0][0] == "assign":
            return _local_fn_values(model, mod, fn, ds[0][1].value) or _table_fn_values(model, mod, fn, ds[0][1].value)
    return _table_fn_values(model, mod, fn, f)


def _table_fn_values(model, mod, fn, e):
    """The functions `TABLE[key]` / `TABLE.get(key)` may denote, TABLE being a module-level dict display (assigned once) whose values are all
    repository functions: every one of them (the key is not evaluated)."""
    t = None
    if isinstance(e, ast.Subscript) and isinstance(e.value, ast.Name):
        t = e.value.id
    elif isinstance(e, ast.Call) and isinstance(e.func, ast.Attribute) and e.func.attr == "get" and isinstance(e.func.value, ast.Name) and len(e.args) == 1 and not e.keywords:
        t = e.func.value.id
    a = fn.args
    if t is None or t in _defs(fn) or t in {x.arg for x in a.posonlyargs + a.args + a.kwonlyargs}:
        return []
    vals = mod.assigns(t)
    if len(vals) != 1 or not isinstance(vals[0], ast.Dict) or not vals[0].values or any(k is None for k in vals[0].keys):
        return []
    out = []
    for v in vals[0].values:
        rs = _fn_values(model, mod, v)
        if not rs:
            return []
        out += [r for r in rs if all(r[1] is not x[1] for x in out)]
    return out


def _local_fn_values(model, mod, fn, e, depth=0):
    """`_fn_values` for an expression inside ``fn``: a never-rebound parameter of ``fn`` stands for what its callers pass."""
    if isinstance(e, ast.IfExp):
        a, b = _local_fn_values(model, mod, fn, e.body, depth), _local_fn_values(model, mod, fn, e.orelse, depth)
        return a + b if a and b else []
    a = fn.args
    if isinstance(e, ast.Name) and e.id in {x.arg for x in a.posonlyargs + a.args + a.kwonlyargs}:
        return _param_fn_values(model, mod, fn, e.id, depth) if not _defs(fn).get(e.id) else []
    if isinstance(e, ast.Name) and e.id in _defs(fn):
        ds = _defs(fn)[e.id]
        if len(ds) == 1 and ds[0][0] == "assign" and depth < 3:
            return _local_fn_values(model, mod, fn, ds[0][1].value, depth + 1)
        return []
    return _fn_values(model, mod, e)


def _param_fn_values(model, mod, fn, pname, depth=0):
    """The repository functions parameter ``pname`` of ``fn`` may hold: what every call site of ``fn`` in the package passes for it (a
    function name, a conditional expression of such, the caller's own function-valued parameter / local, the default value).
    [] when some use of ``fn`` is not a plain call or some argument is not such an expression (then the call stays unresolved)."""
    if depth > 3:
        return []
    cache = fn.__dict__.setdefault("_c13_param_fns", {})
    if pname in cache:
        return cache[pname]
    cache[pname] = []  # cycles
    a = fn.args
    pos = [x.arg for x in a.posonlyargs + a.args]
    defaults = dict(zip(pos[len(pos) - len(a.defaults):], a.defaults))
    defaults.update({k.arg: d for k, d in zip(a.kwonlyargs, a.kw_defaults) if d is not None})
    out, ok = [], True
    sites = _call_sites(model, mod, fn)
    for cmod, cfn, call, skip in sites:
        names = pos[1:] if skip else pos
        arg = None
        if pname in names and names.index(pname) < len(call.args) and not any(isinstance(x, ast.Starred) for x in call.args):
            arg = call.args[names.index(pname)]
        for kw in call.keywords:
            if kw.arg == pname:
                arg = kw.value
            elif kw.arg is None:
                ok = False
        vals = None
        if arg is not None:
            vals = _local_fn_values(model, cmod, cfn, arg, depth + 1)
        elif pname in defaults:
            vals = _fn_values(model, mod, defaults[pname])
        if not vals:
            ok = False
            break
        out += [r for r in vals if all(r[1] is not x[1] for x in out)]
    cache[pname] = out if ok and sites else []
    return cache[pname]


def _is_parser(r) -> bool:
    return r[0].rel == L and r[1]._qual in PARSERS


def _own_calls(fn):
    return sorted((n for n in _own_nodes(fn) if isinstance(n, ast.Call)), key=_pos)


class _Graph:
    """Which of the ClientHello parsers a function reaches over resolved calls (memoised, cycles cut)."""

    def __init__(self, model):
        self.model = model
        self.memo = {}

    def reached(self, mod, fn, depth=0) -> frozenset:
        k = (mod.rel, fn._qual)
        if k in self.memo:
            return self.memo[k]
        if mod.rel == L and fn._qual in PARSERS:
            self.memo[k] = frozenset([fn._qual])
            return self.memo[k]
        self.memo[k] = frozenset()
        out = set()
        if depth < 6:
            for c in _own_calls(fn):
                for r in _callees(self.model, mod, fn, c):
                    out |= self.reached(r[0], r[1], depth + 1)
        self.memo[k] = frozenset(out)
        return self.memo[k]

    def via(self, mod, fn, call) -> frozenset:
        out = frozenset()
        for r in _callees(self.model, mod, fn, call):
            out |= self.reached(r[0], r[1])
        return out


def _graph(ctx) -> _Graph:
    g = getattr(ctx, "_c13_graph", None)
    if g is None:
        g = ctx._c13_graph = _Graph(ctx.model)
    return g


# ---------------------------------------------------------------------------------------------------
# symbolic length arithmetic: discharges struct.error (exact buffer length) and assertions implied by slices / guards


MUTATORS = frozenset("extend clear append pop insert remove reverse sort __delitem__ __setitem__ __iadd__ __imul__".split())


def _mod_int(model, mod, name, depth=0):
    vals = mod.assigns(name)
    if not vals and name in mod.imports and "." in mod.imports[name]:
        pkg, name = mod.imports[name].rsplit(".", 1)
        mod = model.module_by_dotted(pkg)
        vals = mod.assigns(name) if mod is not None else []
    if len(vals) != 1 or depth > 3:
        return None
    return _eval_const(model, mod, vals[0], depth)


def _eval_const(model, mod, v, depth):
    c = _const_int(v)
    if c is not None:
        return c
    if isinstance(v, ast.Name):
        return _mod_int(model, mod, v.id, depth + 1)
    if isinstance(v, ast.BinOp) and isinstance(v.op, (ast.Add, ast.Sub, ast.Mult)):
        a, b = _eval_const(model, mod, v.left, depth), _eval_const(model, mod, v.right, depth)
        if a is None or b is None:
            return None
        return a + b if isinstance(v.op, ast.Add) else a - b if isinstance(v.op, ast.Sub) else a * b
    return None



class Lin:
    """Linear integer expression: sum(coef * atom) + c; atoms are normalised source texts."""

    __slots__ = ("t", "c")

    def __init__(self, t=None, c=0):
        self.t = {k: v for k, v in (t or {}).items() if v}
        self.c = c

    def __add__(self, o):
        t = dict(self.t)
        for k, v in o.t.items():
            t[k] = t.get(k, 0) + v
        return Lin(t, self.c + o.c)

    def __neg__(self):
        return Lin({k: -v for k, v in self.t.items()}, -self.c)

    def __sub__(self, o):
        return self + (-o)

    def scale(self, k):
        return Lin({a: v * k for a, v in self.t.items()}, self.c * k)

    def shift(self, k):
        return Lin(self.t, self.c + k)

    def __repr__(self):
        return " + ".join([f"{v}*{k}" for k, v in sorted(self.t.items())] + [str(self.c)])


def _defs(fn):
    """name -> [(kind, node)] for every binding of a local name in ``fn``; kind: assign | tuple | aug | other."""
    cached = getattr(fn, "_c13_defs", None)
    if cached is not None:
        return cached
    out: dict = {}

    def add(name, kind, node):
        out.setdefault(name, []).append((kind, node))

    def names(t, kind, node):
        for e in ast.walk(t):
            if isinstance(e, ast.Name):
                add(e.id, kind, node)

    for n in ast.walk(fn):
        if isinstance(n, ast.Assign):
            for t in n.targets:
                if isinstance(t, ast.Name):
                    add(t.id, "assign", n)
                elif isinstance(t, (ast.Tuple, ast.List)):
                    names(t, "tuple", n)
        elif isinstance(n, ast.AnnAssign) and isinstance(n.target, ast.Name) and n.value is not None:
            add(n.target.id, "assign", n)
        elif isinstance(n, ast.AugAssign) and isinstance(n.target, ast.Name):
            add(n.target.id, "aug", n)
        elif isinstance(n, (ast.For, ast.AsyncFor, ast.comprehension)):
            names(n.target, "other", n)
        elif isinstance(n, ast.NamedExpr):
            names(n.target, "other", n)
        elif isinstance(n, (ast.With, ast.AsyncWith)):
            for item in n.items:
                if item.optional_vars is not None:
                    names(item.optional_vars, "other", n)
        elif isinstance(n, ast.ExceptHandler) and n.name:
            add(n.name, "other", n)
        elif isinstance(n, ast.Delete):
            for t in n.targets:
                names(t, "other", n)
        elif isinstance(n, (ast.MatchAs, ast.MatchStar)) and n.name:
            add(n.name, "other", n)
    fn._c13_defs = out
    return out


def _is_len(e):
    return isinstance(e, ast.Call) and isinstance(e.func, ast.Name) and e.func.id == "len" and len(e.args) == 1 and not e.keywords


class Prover:
    """Facts about lengths and integers that hold at a node of one function, derived from slices, single-assignment temporaries, module
    constants and the guards in effect (``guards_at``: control dependence, early exits, preceding asserts).  Everything is a *proof*:
    an expression that is not understood becomes an opaque atom, which can only make a claim unprovable."""

    def __init__(self, model, mod, fn, depth=0):
        self.model, self.mod, self.fn, self.depth = model, mod, fn, depth
        a = fn.args
        self.params = [x.arg for x in a.posonlyargs + a.args + a.kwonlyargs]
        self.defs = _defs(fn)
        self.locals = set(self.params) | set(self.defs) | {x.arg for x in (a.vararg, a.kwarg) if x is not None}
        self.wpos: dict = {}
        for pos, name in _writes(fn):
            self.wpos.setdefault(name, []).append(pos)
        self.atom_node: dict = {}
        self._facts: dict = {}

    # ---- building blocks
    def atom(self, text, node):
        self.atom_node.setdefault(text, node)
        return Lin({text: 1})

    def temp_def(self, name, at):
        """The single assignment statement defining local ``name``, provided it precedes ``at`` (else None)."""
        ds = self.defs.get(name, [])
        if name in self.params or len(ds) != 1 or ds[0][0] != "assign":
            return None
        d = ds[0][1]
        return d if _end(d) <= _pos(at) else None

    def stable(self, names, frm, at) -> bool:
        """No name in ``names`` is rebound between the end of ``frm`` and ``at`` (a loop around ``at`` that does not contain ``frm`` counts as between)."""
        use = _pos(at)
        loops = []
        q = getattr(at, "_parent", None)
        while q is not None and q is not self.fn:
            if isinstance(q, (ast.While, ast.For, ast.AsyncFor)):
                loops.append(q)
            q = getattr(q, "_parent", None)
        start = _end(frm)
        for wname, poss in self.wpos.items():
            if not any(wname == x or x.startswith(wname + ".") for x in names):
                continue
            for wp in poss:
                if start <= wp < use:
                    return False
                for lp in loops:
                    if _pos(lp) <= wp <= _end(lp) and not (_pos(lp) <= start <= _end(lp)):
                        return False
        return True

    def stable_lin(self, lin, frm, at) -> bool:
        ns = set()
        for a in lin.t:
            ns |= names_in(self.atom_node[a])
        return self.stable(ns, frm, at)

    def modconst(self, e):
        """int value of a module-level constant (own module or imported by name; constant arithmetic allowed), else None."""
        return _mod_int(self.model, self.mod, e.id) if isinstance(e, ast.Name) else None

    def mutated(self, name) -> bool:
        """Is the object bound to local ``name`` modified in place anywhere in the function?"""
        for n in ast.walk(self.fn):
            if isinstance(n, ast.Call) and isinstance(n.func, ast.Attribute) and isinstance(n.func.value, ast.Name) and n.func.value.id == name and n.func.attr in MUTATORS:
                return True
            if isinstance(n, ast.Subscript) and isinstance(n.ctx, (ast.Store, ast.Del)) and isinstance(n.value, ast.Name) and n.value.id == name:
                return True
        return False

    @staticmethod
    def _intlike(v) -> bool:
        return isinstance(v, (ast.BinOp, ast.Name, ast.UnaryOp)) or _const_int(v) is not None or _is_len(v)

    def lin(self, e, at) -> Lin:
        c = _const_int(e)
        if c is not None:
            return Lin(c=c)
        if isinstance(e, ast.UnaryOp) and isinstance(e.op, ast.USub):
            return -self.lin(e.operand, at)
        if isinstance(e, ast.BinOp) and isinstance(e.op, (ast.Add, ast.Sub)):
            a, b = self.lin(e.left, at), self.lin(e.right, at)
            return a + b if isinstance(e.op, ast.Add) else a - b
        if isinstance(e, ast.BinOp) and isinstance(e.op, ast.Mult):
            a, b = self.lin(e.left, at), self.lin(e.right, at)
            if not a.t:
                return b.scale(a.c)
            if not b.t:
                return a.scale(b.c)
        if isinstance(e, ast.Name):
            if e.id in self.locals:
                d = self.temp_def(e.id, at)
                if d is not None and self._intlike(d.value) and self.stable(names_in(d.value), d, at):
                    return self.lin(d.value, d)
                return self.atom(e.id, e)
            v = self.modconst(e)
            return Lin(c=v) if v is not None else self.atom(e.id, e)
        if _is_len(e):
            return self.len_lin(e.args[0], at)
        return self.atom(norm(e), e)

    def len_lin(self, b, at) -> Lin:
        ln = self.length(b, at)
        if ln is not None:
            return ln
        node = ast.Call(func=ast.Name(id="len", ctx=ast.Load()), args=[b], keywords=[])
        return self.atom(f"len({norm(b)})", node)

    def length(self, e, at):
        """Exact length of the bytes-like expression ``e`` as a Lin valid at ``at`` (None: not provable)."""
        if isinstance(e, ast.Constant) and isinstance(e.value, bytes):
            return Lin(c=len(e.value))
        if isinstance(e, ast.BinOp) and isinstance(e.op, ast.Add):
            a, b = self.length(e.left, at), self.length(e.right, at)
            return None if a is None or b is None else a + b
        if isinstance(e, ast.Name) and e.id in self.locals:
            d = self.temp_def(e.id, at)
            if d is None or self.mutated(e.id):
                return None
            ln = self.length(d.value, d)  # the object is created by the assignment: its length is fixed there
            return ln if ln is not None and self.stable_lin(ln, d, at) else None
        if isinstance(e, ast.Call) and isinstance(e.func, ast.Name) and e.func.id in ("bytes", "bytearray", "memoryview") and len(e.args) == 1 and not e.keywords \
                and e.func.id not in self.locals:
            return self.length(e.args[0], at)  # only bytes-like arguments have a known length here
        if isinstance(e, ast.Subscript) and isinstance(e.slice, ast.Slice) and e.slice.step is None:
            lenb = self.len_lin(e.value, at)
            lo = Lin() if e.slice.lower is None else self.lin(e.slice.lower, at)
            hi = lenb if e.slice.upper is None else self.lin(e.slice.upper, at)
            if not self.ge0(lo, at) or not self.ge0(hi - lo, at):
                return None
            if e.slice.upper is not None and not self.ge0(lenb - hi, at):
                return None
            return hi - lo
        return None

    # ---- facts and entailment
    def facts(self, at):
        k = id(at)
        if k in self._facts:
            return self._facts[k]
        self._facts[k] = out = []
        nonzero = []
        for g, v in guards_at(at, self.fn):
            if not (isinstance(g, ast.Compare) and len(g.ops) == 1):
                continue
            d = self.lin(g.left, g) - self.lin(g.comparators[0], g)
            if not d.t or not self.stable_lin(d, g, at):
                continue
            op = type(g.ops[0])
            if (op is ast.Lt and not v) or (op is ast.GtE and v):
                out.append(d)
            elif (op is ast.Gt and v) or (op is ast.LtE and not v):
                out.append(d.shift(-1))
            elif (op is ast.LtE and v) or (op is ast.Gt and not v):
                out.append(-d)
            elif (op is ast.Lt and v) or (op is ast.GtE and not v):
                out.append((-d).shift(-1))
            elif (op is ast.Eq and v) or (op is ast.NotEq and not v):
                out.extend([d, -d])
            elif (op is ast.Eq and not v) or (op is ast.NotEq and v):
                nonzero.append(d)
        # `x += e` earlier in an enclosing block, x non-negative before it (inductive invariant) and neither x nor e rebound since: x >= e
        child, p = at, getattr(at, "_parent", None)
        while p is not None and child is not self.fn:
            for field in ("body", "orelse", "finalbody"):
                blk = getattr(p, field, None)
                if isinstance(blk, list) and any(child is s for s in blk):
                    for s in blk:
                        if s is child:
                            break
                        if isinstance(s, ast.AugAssign) and isinstance(s.op, ast.Add) and isinstance(s.target, ast.Name) and s.target.id in self.locals \
                                and self.nonneg(s.target, set()) and self.stable({s.target.id} | names_in(s.value), s, at):
                            out.append(self.atom(s.target.id, s.target) - self.lin(s.value, s))
            child, p = p, getattr(p, "_parent", None)
        for d in nonzero:
            if self.ge0(d, at):
                out.append(d.shift(-1))
            elif self.ge0(-d, at):
                out.append((-d).shift(-1))
        return out

    def ge0(self, lin, at, depth=0, used=()) -> bool:
        """Is ``lin >= 0`` entailed at ``at``?  (non-negative atoms, at most two guard facts, guards of all callers for parameters)"""
        if not lin.t:
            return lin.c >= 0
        if lin.c >= 0 and all(v > 0 and self.nonneg(self.atom_node[a], set()) for a, v in lin.t.items()):
            return True
        if depth < 2:
            for i, f in enumerate(self.facts(at)):
                if i in used or not (set(f.t) & set(lin.t)):
                    continue
                if self.ge0(lin - f, at, depth + 1, used + (i,)):
                    return True
        if depth == 0 and self.depth < 2:
            return self.via_callers(lin)
        return False

    def nonneg(self, e, seen) -> bool:
        c = _const_int(e)
        if c is not None:
            return c >= 0
        if _is_len(e):
            return True
        if isinstance(e, ast.Call) and _dotted(self.mod, e.func) == "int.from_bytes" and not any(k.arg == "signed" for k in e.keywords) and len(e.args) <= 2:
            return True
        if isinstance(e, ast.Subscript) and _const_int(e.slice) is not None:
            fmt = _struct_unpack_fmt(self.mod, e.value)
            return fmt is not None and _fmt_unsigned(fmt)
        if isinstance(e, ast.BinOp) and isinstance(e.op, (ast.Add, ast.Mult)):
            return self.nonneg(e.left, seen) and self.nonneg(e.right, seen)
        if isinstance(e, ast.Call) and self.depth < 2:
            r = _callee(self.model, self.mod, _class_of(self.fn), e)  # a helper all of whose return values are non-negative
            if r is not None:
                rets = [n for n in _own_nodes(r[1]) if isinstance(n, ast.Return)]
                gen = any(isinstance(n, (ast.Yield, ast.YieldFrom)) for n in _own_nodes(r[1]))
                pv = Prover(self.model, r[0], r[1], self.depth + 1)
                return bool(rets) and not gen and all(n.value is not None and pv.nonneg(n.value, set()) for n in rets)
        if isinstance(e, ast.Name):
            if e.id not in self.locals:
                v = self.modconst(e)
                return v is not None and v >= 0
            if e.id in seen:
                return True  # induction: every binding keeps the invariant, given that it holds before
            if e.id in self.params and e.id not in self.defs:
                return self.param_nonneg(e.id)  # `header_size`: 5 / 13 at every call site
            if e.id in self.params or e.id not in self.defs:
                return False
            seen = seen | {e.id}
            for kind, d in self.defs[e.id]:
                if kind == "assign" and self.nonneg(d.value, seen):
                    continue
                if kind == "aug" and isinstance(d.op, (ast.Add, ast.Mult)) and self.nonneg(d.value, seen):
                    continue
                if kind == "tuple":
                    fmt = _struct_unpack_fmt(self.mod, d.value)
                    if fmt is not None and _fmt_unsigned(fmt):
                        continue
                if kind == "other" and isinstance(d, ast.NamedExpr) and self.nonneg(d.value, seen):
                    continue
                return False
            return True
        return False

    def param_nonneg(self, pname) -> bool:
        """The never-rebound parameter ``pname`` is a non-negative integer at every call site of the function (its default where no argument is given)."""
        if self.depth >= 2:
            return False
        cache = self.fn.__dict__.setdefault("_c13_param_nonneg", {})
        if pname in cache:
            return cache[pname]
        cache[pname] = False  # cycles
        a = self.fn.args
        pos = [x.arg for x in a.posonlyargs + a.args]
        defaults = dict(zip(pos[len(pos) - len(a.defaults):], a.defaults))
        defaults.update({k.arg: d for k, d in zip(a.kwonlyargs, a.kw_defaults) if d is not None})
        sites = _call_sites(self.model, self.mod, self.fn)
        ok = bool(sites)
        for cmod, cfn, call, skip in sites:
            names = pos[1:] if skip else pos
            arg = None
            if pname in names and names.index(pname) < len(call.args) and not any(isinstance(x, ast.Starred) for x in call.args):
                arg = call.args[names.index(pname)]
            for kw in call.keywords:
                if kw.arg == pname:
                    arg = kw.value
                elif kw.arg is None:
                    ok = False
            if arg is not None:
                ok = ok and Prover(self.model, cmod, cfn, self.depth + 1).nonneg(arg, set())
            else:
                ok = ok and pname in defaults and _const_int(defaults[pname]) is not None and _const_int(defaults[pname]) >= 0
            if not ok:
                break
        cache[pname] = ok
        return ok

    def via_callers(self, lin) -> bool:
        """``lin`` mentions only never-rebound parameters (as integers) and their lengths: prove it, translated to the arguments, at every call
        site of the function (a default value that is used instead of an argument makes it unprovable)."""
        binds = {}
        for a in lin.t:
            n = self.atom_node[a]
            if _is_len(n) and isinstance(n.args[0], ast.Name) and n.args[0].id in self.params and n.args[0].id not in self.defs:
                binds[a] = ("len", n.args[0].id)
            elif isinstance(n, ast.Name) and n.id in self.params and n.id not in self.defs:
                binds[a] = ("int", n.id)
            else:
                return False
        sites = _call_sites(self.model, self.mod, self.fn)
        if not sites:
            return False
        a = self.fn.args
        pos = [x.arg for x in a.posonlyargs + a.args]
        for cmod, cfn, call, skip in sites:
            pv = Prover(self.model, cmod, cfn, self.depth + 1)
            tr = Lin(c=lin.c)
            for atom, (kind, p) in binds.items():
                names = pos[1:] if skip else pos
                arg = None
                if p in names and names.index(p) < len(call.args) and not any(isinstance(x, ast.Starred) for x in call.args):
                    arg = call.args[names.index(p)]
                for kw in call.keywords:
                    if kw.arg == p:
                        arg = kw.value
                if arg is None:
                    return False
                tr = tr + (pv.len_lin(arg, call) if kind == "len" else pv.lin(arg, call)).scale(lin.t[atom])
            if not pv.ge0(tr, call):
                return False
        return True

    def holds(self, e, at, trusted_type=None) -> bool:
        """Is the condition ``e`` entailed at ``at``?"""
        if isinstance(e, ast.BoolOp):
            return (all if isinstance(e.op, ast.And) else any)(self.holds(v, at, trusted_type) for v in e.values)
        if isinstance(e, ast.Constant):
            return bool(e.value)
        if isinstance(e, ast.Call) and isinstance(e.func, ast.Name) and e.func.id == "isinstance" and len(e.args) == 2 and trusted_type is not None:
            return bool(trusted_type(e.args[0]))
        if isinstance(e, ast.Compare):
            left = e.left
            for op, right in zip(e.ops, e.comparators):
                d = self.lin(left, at) - self.lin(right, at)
                ok = {
                    ast.Eq: lambda: self.ge0(d, at) and self.ge0(-d, at),
                    ast.GtE: lambda: self.ge0(d, at),
                    ast.Gt: lambda: self.ge0(d.shift(-1), at),
                    ast.LtE: lambda: self.ge0(-d, at),
                    ast.Lt: lambda: self.ge0((-d).shift(-1), at),
                    ast.NotEq: lambda: self.ge0(d.shift(-1), at) or self.ge0((-d).shift(-1), at),
                }.get(type(op))
                if ok is None or not ok():
                    return False
                left = right
            return True
        return False


def _call_sites(model, mod, fn):
    """[(Module, caller FunctionDef, Call, skip_first)] for every use of function ``fn`` in the package; [] when some use is not a plain call
    from inside a function (the function escapes as a value, is called at module level, is reached through an unknown receiver)."""
    cached = getattr(fn, "_c13_sites", None)
    if cached is not None:
        return cached
    cls = _class_of(fn)

    def refers(m, n):
        if isinstance(n, ast.Name) or cls is None:
            r = model.resolve_name(m, n) if attr_chain(n) else None
            return r is not None and r[1] is fn
        caller = enclosing_func(n)
        if isinstance(n.value, ast.Name) and n.value.id in ("self", "cls") and caller is not None and _class_of(caller) is not None:
            r = model.method(m.rel, _class_of(caller)._qual, fn.name)
            return r is not None and r[1] is fn
        r = model.resolve_name(m, n) if attr_chain(n) else None  # `NextLayer._helper(..)`: the class named explicitly
        if r is not None and isinstance(r[1], (ast.FunctionDef, ast.AsyncFunctionDef, ast.ClassDef)):
            return r[1] is fn
        return None  # a method reached through some other receiver: unknown

    out, ok = [], True
    for m in modules_mentioning(model, fn.name):
        for n in ast.walk(m.tree):
            if not ((isinstance(n, ast.Name) and n.id == fn.name and isinstance(n.ctx, ast.Load)) or (isinstance(n, ast.Attribute) and n.attr == fn.name)):
                continue
            ref = refers(m, n)
            if ref is False:
                continue
            p = getattr(n, "_parent", None)
            caller = enclosing_func(n)
            if ref is None or caller is None or not (isinstance(p, ast.Call) and p.func is n):
                ok = False
                continue
            static = any(norm(d) == "staticmethod" for d in fn.decorator_list)
            via_class = isinstance(n, ast.Attribute) and not (isinstance(n.value, ast.Name) and n.value.id in ("self", "cls"))
            unbound = via_class and not any(norm(d) == "classmethod" for d in fn.decorator_list)  # Class.method(obj, ..): the receiver is an explicit argument
            out.append((m, caller, p, cls is not None and isinstance(n, ast.Attribute) and not static and not unbound))
    if not ok:
        out = []
    fn._c13_sites = out
    return out


def _prover(fr) -> Prover:
    cache = fr.eng.__dict__.setdefault("_c13_provers", {})
    k = id(fr.fn)
    if k not in cache:
        cache[k] = Prover(fr.eng.model, fr.mod, fr.fn)
    return cache[k]


# ---------------------------------------------------------------------------------------------------
# bounded interpretation of the record walkers (R13.3, R13.4; fall-back evidence for struct.error in R13.1)

LAYOUT = {
    # walker, assembler, parser, record header bytes, offset of the 16-bit record length, handshake header bytes, offset of the 24-bit length
    "tls": ("handshake_record_contents", "get_client_hello", "parse_client_hello", 5, 3, 4, 1),
    "dtls": ("dtls_handshake_record_contents", "get_dtls_client_hello", "dtls_parse_client_hello", 13, 11, 12, 9),
}
MAGIC = {"tls": b"\x16\x03\x01", "dtls": b"\x16\xfe\xfd"}


def _record(proto, body, typ=None, seq=0):
    """One record of the layout table: magic, filler (DTLS epoch / sequence number: distinct non-zero bytes), 16-bit length, body."""
    hdr, len_off = LAYOUT[proto][3:5]
    h = bytearray(MAGIC[proto])
    if typ is not None:
        h[0] = typ
    h += bytes((0x31 + i + seq) & 0xFF for i in range(len_off - len(h)))
    h += len(body).to_bytes(2, "big")
    h += bytes(hdr - len(h))
    return bytes(h) + body


def _handshake(proto, body):
    """One handshake message of the layout table; for DTLS the total-length field deliberately differs from the fragment length."""
    hs_hdr, len_at = LAYOUT[proto][5:7]
    h = bytearray(hs_hdr)
    h[0] = 1
    if len_at != 1:
        h[1:4] = (len(body) + 7).to_bytes(3, "big")
        for i in range(4, len_at):
            h[i] = 0x40 + i
    h[len_at : len_at + 3] = len(body).to_bytes(3, "big")
    return bytes(h) + body


def _show(v):
    if isinstance(v, (bytes, bytearray)):
        return f"{len(v)} bytes" if len(v) > 12 else repr(bytes(v))
    if isinstance(v, (list, tuple)):
        return "[" + ", ".join(_show(x) for x in v) + "]"
    return repr(v)


class _NullLogger:
    """What `logging.getLogger(..)` evaluates to inside the interpreter: every logging call is a no-op."""

    def isEnabledFor(self, level):
        return False

    def __getattr__(self, name):
        if name in ("debug", "info", "warning", "warn", "error", "exception", "critical", "log", "setLevel", "addHandler"):
            return lambda *a, **k: None
        raise AttributeError(name)


class _LoggingStub:
    CRITICAL, ERROR, WARNING, INFO, DEBUG, NOTSET = 50, 40, 30, 20, 10, 0

    @staticmethod
    def getLogger(*a, **k):
        return _NullLogger()


class Walkers:
    """Runs the record walkers / parsers through mitmlint.pyint (``struct`` trusted, generators replayed lazily) and keeps what was entered
    and which exception types were ever raised."""

    def __init__(self, ctx):
        from ..pyint import Interp
        from ..pyint import Raised

        self.ctx, self.m = ctx, ctx.model
        self.entered: set = set()
        self.raised: dict = {}
        self.runs = 0
        self.complete = False
        self.used_as_evidence = False
        entered = self.entered

        class Trace(Interp):
            def call_func(self, f, args, kwargs, depth):
                entered.add(getattr(f.node, "name", "<lambda>"))
                return super().call_func(f, args, kwargs, depth)

        self._Interp, self._Raised = Trace, Raised
        a = ctx.model.func(T, "ClientHello.__init__").args
        self._hello_params = [x.arg for x in a.posonlyargs + a.args][1:]
        ctx.require(len(self._hello_params) >= 1, "ClientHello.__init__ takes no raw bytes")

    def _stub(self, *args, **kwargs):
        vals = dict(zip(self._hello_params, args))
        vals.update(kwargs)
        raw = vals.get(self._hello_params[0])
        flag = vals.get(self._hello_params[1], False) if len(self._hello_params) > 1 else False
        return ("$ClientHello", bytes(raw), bool(flag))

    def run(self, qual, *args, drive=False, stub=False):
        it = self._Interp(self.m, trusted_modules={"struct": _struct, "logging": _LoggingStub})
        it.externals = _functional_builtins(it)
        if stub:
            it.overrides[(L, "ClientHello")] = it.overrides[(T, "ClientHello")] = self._stub
        self.runs += 1
        try:
            r = it.call(L, qual, *args)
            return list(r) if drive else r
        except self._Raised as r:
            self.raised[r.name] = self.raised.get(r.name, 0) + 1
            return f"<raises {r.name}>"

    def never_raised(self, exc, fn):
        name = {"struct.error": "error"}.get(exc, exc)
        if not self.complete or fn.name not in self.entered or self.raised.get(name):
            return None
        if not self.used_as_evidence:
            self.used_as_evidence = True
            self.ctx.bounds.append(f"R13.1: a {exc} whose buffer length could not be proved is discharged by the {self.runs} interpreted runs of R13.3 / R13.4")
        return (f"bounded: {self.runs} interpreted runs of the record walkers (every prefix of crafted multi-record streams, every 1-3 record split of a short "
                f"message) entered {fn.name} and never raised {exc}; struct.unpack with a constant format can fail on the buffer length only")


def _walkers(ctx) -> Walkers:
    wk = getattr(ctx, "_c13_walkers", None)
    if wk is None:
        wk = ctx._c13_walkers = Walkers(ctx)
    return wk


def _valid_host_implies_ascii(ctx) -> bool:
    """check.is_valid_host(b) is False for every sampled b containing a non-ASCII byte (interpreted; ``re`` / ``ipaddress`` / codecs trusted)."""
    cached = getattr(ctx, "_c13_ascii", None)
    if cached is not None:
        return cached
    import ipaddress
    import re

    from ..pyint import Interp
    from ..pyint import Raised

    ctx.func(CK, "is_valid_host")
    ok = True
    it = Interp(ctx.model, trusted_modules={"re": re, "ipaddress": ipaddress}, max_steps=2_000_000)
    it.externals = _functional_builtins(it)
    try:
        ok = it.call(CK, "is_valid_host", b"example.com") is True
        for hi in range(0x80, 0x100):
            for sample in (bytes([hi]), b"a" + bytes([hi]) + b".example.com", b"example.co" + bytes([hi]), bytes([0xC3, 0x80 | (hi & 0x3F)]) + b"x.org"):
                ctx.cells += 1
                if it.call(CK, "is_valid_host", sample) is not False:
                    ok = False
        ctx.bounds.append("R13.1: is_valid_host interpreted on 512 host names containing one non-ASCII byte (every byte value 0x80-0xff in 4 positions)")
    except Raised:
        ok = False
    except AnalysisError:
        # outside the interpreter's subset: fall back on the structural argument (decode('idna') of the bytes at top level, failure -> False)
        ok = _valid_host_decodes_idna_first(ctx.model)
        if not ok:
            raise
    ctx._c13_ascii = ok
    return ok


def _functional_builtins(it):
    """`map` / `filter` for the interpreter (its builtin table lacks them): applied through the interpreter, so repository functions work too."""
    def _map(f, *seqs):
        return [it.apply(f, list(a), {}, 0) for a in zip(*[it.iterate(s, None) for s in seqs])]

    def _filter(f, seq):
        return [x for x in it.iterate(seq, None) if it.truthy(x if f is None else it.apply(f, [x], {}, 0))]

    return {"map": _map, "filter": _filter, "memoryview": memoryview}


def _valid_host_decodes_idna_first(model) -> bool:
    fn = model.func(CK, "is_valid_host")
    for st in fn.body:  # top level, hence on every path that can return True
        if isinstance(st, ast.Try) and len(st.body) == 1 and isinstance(st.body[0], ast.Expr) and isinstance(st.body[0].value, ast.Call) \
                and isinstance(st.body[0].value.func, ast.Attribute) and st.body[0].value.func.attr == "decode" and [norm(a) for a in st.body[0].value.args] in (["'idna'"], ['"idna"']):
            if all(h.type is not None and norm(h.type) in ("ValueError", "UnicodeError", "UnicodeDecodeError") and len(h.body) == 1 and norm(h.body[0]) == "return False" for h in st.handlers):
                return True
        if any(isinstance(n, ast.Return) and isinstance(n.value, ast.Constant) and n.value.value is True for n in walk_in_order(st)):
            return False
    return False


def _make_dynamic(ctx):
    g = _graph(ctx)

    def dynamic(fr, call):
        """Calls through a function-valued local or parameter (`parse = a if c else b; parse(buf)`, `def helper(parser, data): parser(data)`):
        all functions the name may hold.  When the name holds ClientHello parsers of this property, other values it may hold at other
        call sites of the helper (the QUIC parser) are left out: their totality is not part of C13 (see NOT decided)."""
        f = call.func
        if isinstance(f, ast.Name) and fr._is_local(f.id):
            rs = _callees(fr.eng.model, fr.mod, fr.fn, call)
            if rs:
                ours = [r for r in rs if g.reached(r[0], r[1])]
                if ours and len(ours) != len(rs):
                    ctx.assume(f"{fr.mod.rel}::{fr.fn._qual} `{norm(call)[:60]}`: of the functions `{f.id}` may hold, only those reaching {list(PARSERS)} are analysed "
                               f"(left out: {sorted(r[1]._qual for r in rs if r not in ours)})")
                    rs = ours
                return [(m.rel, fn._qual) for m, fn in rs]
        return None

    return dynamic


def _make_discharge(ctx):
    wk = _walkers(ctx)

    def discharge(fr, exc, node, why):
        mod = fr.mod
        if exc == "struct.error" and isinstance(node, ast.Call):
            fmt = _struct_unpack_fmt(mod, node)
            if fmt is not None:
                size = _struct.calcsize(fmt)
                ln = _prover(fr).length(node.args[1], node)
                if ln is not None and not ln.t:
                    return f"buffer length is provably {ln.c} = calcsize({fmt!r})" if ln.c == size else None
                return wk.never_raised(exc, fr.fn)
        if exc == "IndexError" and isinstance(node, ast.Subscript) and _const_int(node.slice) is not None:
            fmt = _struct_unpack_fmt(mod, node.value)
            if fmt is not None:
                fields = len(_struct.unpack(fmt, bytes(_struct.calcsize(fmt))))
                if 0 <= node.slice.value < fields:
                    return f"struct.unpack({fmt!r}, ...) yields {fields} field(s)"
        if exc == "IndexError" and isinstance(node, ast.Subscript) and _const_int(node.slice) is not None:
            c = node.slice.value
            pv = _prover(fr)
            if pv.ge0(pv.len_lin(node.value, node).shift(-(c + 1) if c >= 0 else c), node):
                return f"the guards in effect imply len({norm(node.value)[:40]}) >= {c + 1 if c >= 0 else -c} (length arithmetic)"
        if exc == "AssertionError" and isinstance(node, ast.Assert):
            def trusted(x):
                ch = attr_chain(x)
                return bool(ch) and fr.env.get(ch) != "A"

            if _prover(fr).holds(node.test, node, trusted):
                return "the asserted condition is implied by the preceding slices / guards (length arithmetic); isinstance of data whose type is trusted"
        if exc == "UnicodeDecodeError" and isinstance(node, ast.Call) and isinstance(node.func, ast.Attribute) and node.func.attr == "decode":
            enc = node.args[0] if node.args else next((k.value for k in node.keywords if k.arg == "encoding"), None)
            if isinstance(enc, ast.Constant) and enc.value == "ascii":
                recv = norm(node.func.value)
                for g, v in guards_at(node, fr.fn):
                    if v and isinstance(g, ast.Call) and len(g.args) == 1 and not g.keywords and norm(g.args[0]) == recv:
                        r = fr.eng.model.resolve_name(fr.mod, g.func) if attr_chain(g.func) else None
                        if r is not None and r[0].rel == CK and getattr(r[1], "name", "") == "is_valid_host" and _valid_host_implies_ascii(ctx):
                            return "guarded by check.is_valid_host(<same bytes>), which is False for every sampled input with a non-ASCII byte (bytes.decode('idna') accepts ASCII only)"
        return None

    return discharge


# ---------------------------------------------------------------------------------------------------
# R13.1


def _handled(mr, rel, tries):
    """Exception types caught around a region by the enclosing ``try`` statements (a handler that re-raises what it caught does not count)."""
    mod = mr.model.module(rel)
    out = []
    for t in tries:
        for h in t.handlers:
            reraises = any(isinstance(n, ast.Raise) and (n.exc is None or (isinstance(n.exc, ast.Name) and n.exc.id == h.name)) for s in h.body for n in ast.walk(s))
            if reraises:
                continue
            out += ["BaseException"] if h.type is None else [mr.h.canon(mod, e) for e in (h.type.elts if isinstance(h.type, ast.Tuple) else [h.type])]
    return out


def _bytes_params(fn):
    out = []
    a = fn.args
    for x in a.posonlyargs + a.args + a.kwonlyargs:
        if x.arg in ("self", "cls"):
            continue
        ann = norm(x.annotation) if x.annotation is not None else None
        if ann is None or any(w in ann for w in ("bytes", "bytearray", "memoryview")):
            out.append(x.arg)
    return out


def _spread(fn, env):
    """Entry kinds plus the local names bound (anywhere in ``fn``) to an expression that mentions an untrusted name."""
    env = dict(env)
    changed = True
    while changed:
        changed = False
        for n in _own_nodes(fn):
            tv = None
            if isinstance(n, ast.Assign):
                tv = (n.targets, n.value)
            elif isinstance(n, (ast.AnnAssign, ast.NamedExpr)) and n.value is not None:
                tv = ([n.target], n.value)
            if tv is None or not (names_in(tv[1]) & set(env)):
                continue
            for t in tv[0]:
                if isinstance(t, ast.Name) and t.id not in env:
                    env[t.id] = "V"
                    changed = True
    return env


def _stmt_of(n):
    while n is not None and not isinstance(n, ast.stmt):
        n = getattr(n, "_parent", None)
    return n


def _enclosing_tries(call, fn):
    """try statements of ``fn`` (innermost first) that have handlers and whose *body* contains ``call``."""
    out = []
    child, p = call, getattr(call, "_parent", None)
    while p is not None and child is not fn:
        if isinstance(p, ast.Try) and p.handlers and any(child is s for s in p.body):
            out.append(p)
        child, p = p, getattr(p, "_parent", None)
    return out


def _parse_sites(ctx, rel, qual, env):
    """The regions around which ClientHello parsing must be total: for every call in ``rel::qual`` through which a parser is reached, the body
    of the innermost enclosing try (handlers of all enclosing tries count); a helper that is not wrapped by its caller is searched itself."""
    g = _graph(ctx)
    model = ctx.model
    sites: dict = {}

    def scan(mod, fn, env, depth):
        env = _spread(fn, env)
        for c in _own_calls(fn):
            hit = g.via(mod, fn, c)
            if not hit:
                continue
            tries = _enclosing_tries(c, fn)
            rs = _callees(model, mod, fn, c)
            direct = any(_is_parser(r) for r in rs)
            for m2, f2 in ([] if tries or direct or depth >= 3 else rs):
                if not g.reached(m2, f2):
                    continue
                a = f2.args
                params = [x.arg for x in a.posonlyargs + a.args]
                env2 = {}
                if params and params[0] in ("self", "cls") and isinstance(c.func, ast.Attribute):
                    params = params[1:]
                    env2.update({k: v for k, v in env.items() if k.startswith("self.")})
                for p, arg in zip(params, c.args):
                    if names_in(arg) & set(env):
                        env2[p] = "V"
                for kw in c.keywords:
                    if kw.arg and names_in(kw.value) & set(env):
                        env2[kw.arg] = "V"
                ctx.functions.add(f"{m2.rel}::{f2._qual}")
                scan(m2, f2, env2, depth + 1)
            if not tries and not direct and depth < 3:
                continue
            node = tries[0] if tries else _stmt_of(c)
            s = sites.setdefault(id(node), {"rel": mod.rel, "qual": fn._qual, "node": node, "region": node.body if tries else [node], "tries": tries, "env": env, "hit": set()})
            s["hit"] |= hit

    fn = ctx.func(rel, qual)
    scan(model.module(rel), fn, env, 0)
    return sorted(sites.values(), key=lambda s: (s["rel"], _pos(s["node"])))


def _result_calls(v):
    """The calls whose result an expression may evaluate to (through conditional expressions, `or` / `and`, `:=`, yield from / await)."""
    if isinstance(v, (ast.YieldFrom, ast.Await, ast.NamedExpr)):
        return _result_calls(v.value)
    if isinstance(v, ast.IfExp):
        return _result_calls(v.body) + _result_calls(v.orelse)
    if isinstance(v, ast.BoolOp):
        return [c for x in v.values for c in _result_calls(x)]
    return [v] if isinstance(v, ast.Call) else []


def _hello_names(ctx, fns):
    """Local names bound to the result of a parser (or of a helper through which a parser is reached) in the given (Module, FunctionDef)s."""
    g = _graph(ctx)
    out = set()
    for mod, fn in fns:
        for n in _own_nodes(fn):
            v, ts = None, []
            if isinstance(n, ast.Assign):
                v, ts = n.value, n.targets
            elif isinstance(n, (ast.AnnAssign, ast.NamedExpr)) and n.value is not None:
                v, ts = n.value, [n.target]
            if v is not None and any(g.via(mod, fn, c) for c in _result_calls(v)):
                # `hello, err = self._try_parse()`: every element may be the hello (over-approximation, it only widens "a hello was found")
                out |= {e.id for t in ts for e in (t.elts if isinstance(t, (ast.Tuple, ast.List)) else [t]) if isinstance(e, ast.Name)}
    return out


def _r13_1(ctx):
    for q in WALKERS:
        ctx.func(L, q)
    ctx.func(T, "ClientHello.__init__")
    ctx.func(K1, "TlsClientHello._read")
    ctx.func(K2, "DtlsClientHello._read")
    ctx.trust("KaitaiStream.read_u1/read_u2be/read_u4be/read_bytes raise EOFError subclasses only (kaitaistruct runtime)")
    rh = ctx.func(L, "ClientTLSLayer.receive_handshake_data")
    gch = ctx.func(NL, "NextLayer._get_client_hello")
    entries = [(L, "ClientTLSLayer.receive_handshake_data", {"self.recv_buffer": "V", **{p: "V" for p in _bytes_params(rh)}}),
               (NL, "NextLayer._get_client_hello", {p: "V" for p in _bytes_params(gch)})]
    n_sites = 0
    for rel, qual, env in entries:
        sites = _parse_sites(ctx, rel, qual, env)
        reached = set().union(*[s["hit"] for s in sites]) if sites else set()
        ctx.require(reached == set(PARSERS), f"{qual}: reaches the parsers {sorted(reached)} (expected both {list(PARSERS)}): anchor changed shape")
        for s in sites:
            n_sites += 1
            srel, squal, t = s["rel"], s["qual"], s["node"]
            mr = MayRaise(ctx, Config(externals=KAITAI, discharge=_make_discharge(ctx), taint_through_mutation=True, yield_from_delegates=True, dynamic=_make_dynamic(ctx)))
            esc = mr.region(srel, squal, s["region"], s["env"])
            key = mr.key_of_region(srel, squal, s["env"])
            ctx.require(mr.sites >= 20 * len(s["hit"]) and {"ValueError"} <= {e.exc for e in esc} and any(f.startswith(K1) or f.startswith(K2) for f in mr.functions),
                        f"{squal}: escape analysis collapsed ({mr.sites} sites, {sorted({e.exc for e in esc})})")
            ctx.paths += mr.sites
            for f in mr.functions:
                ctx.functions.add(f)
            handled = _handled(mr, srel, s["tries"])
            bad = sorted((e for e in esc if not any(mr.h.isa(e.exc, h) for h in handled)), key=lambda e: (e.exc, e.rel, e.qual, e.text))
            what = "/".join(sorted(s["hit"]))
            for typ in sorted({e.exc for e in bad}):
                first = next(e for e in bad if e.exc == typ)
                ctx.fail("R13.1", (srel, squal, t), f"{typ} escapes ClientHello parsing",
                         f"{typ} raised at {first.site()} ({first.why}) is not handled around the call of {what} (handled: {handled}); call chain: " + " -> ".join(mr.chain(key, first)),
                         chain=mr.chain(key, first))
            if not bad:
                ctx.ok("R13.1", f"{squal} around {what}: {mr.sites} raiser sites, {len(mr.functions)} functions, escape set {sorted({e.exc for e in esc})} within {handled}")
            for k, v in sorted(mr.discharged.items()):
                ctx.assume(f"discharged: {k}: {v}")
    # properties read outside any handler
    for prop in HELLO_PROPS:
        ctx.func(T, f"ClientHello.{prop}")
        mr = MayRaise(ctx, Config(externals=KAITAI, discharge=_make_discharge(ctx), attr_on_any=False, taint_through_mutation=True, yield_from_delegates=True))
        s = mr.function(T, f"ClientHello.{prop}", {"self._client_hello": "V"})
        key = (T, f"ClientHello.{prop}", (("self._client_hello", "V"),))
        for typ in sorted({e.exc for e in s.escapes}):
            first = next(e for e in sorted(s.escapes, key=lambda e: (e.rel, e.qual, e.text)) if e.exc == typ)
            ctx.fail("R13.1", (T, f"ClientHello.{prop}", ctx.func(T, f"ClientHello.{prop}")), f"ClientHello.{prop} may raise {typ}",
                     f"{typ} at {first.site()} ({first.why}); the property is read outside any handler after parsing; chain: " + " -> ".join(mr.chain(key, first)))
        if not s.escapes:
            ctx.ok("R13.1", f"ClientHello.{prop}: raises nothing modelled ({mr.sites} sites examined, discharged {len(mr.discharged)})")
        for k, v in sorted(mr.discharged.items()):
            ctx.assume(f"discharged: {k}: {v}")
    # the properties are what the layer reads afterwards from the parsed hello (whatever the local is called)
    lmod = ctx.model.module(L)
    fns = [(lmod, rh)] + [(lmod, f) for f in _layer_helpers(ctx)[0].values()]
    names = _hello_names(ctx, fns)
    ctx.require(names, "receive_handshake_data: the parser result is not bound to a local (shape not modelled)")
    reads = {n.attr for _, f in fns for n in walk_in_order(f) if isinstance(n, ast.Attribute) and isinstance(n.value, ast.Name) and n.value.id in names}
    ctx.require(reads <= set(HELLO_PROPS), f"receive_handshake_data reads unmodelled ClientHello attributes {sorted(reads)}")
    ctx.expect_instances("R13.1", 2 + len(HELLO_PROPS))  # at least one region per entry point; today 3


# ---------------------------------------------------------------------------------------------------
# R13.2

BUF = "self.recv_buffer"


def _layer_helpers(ctx):
    """(helpers, resolver, aliases, copies): the methods of ClientTLSLayer / module functions of tls.py that receive_handshake_data calls
    (transitively) and that touch recv_buffer or reach a parser - they are analysed as if their bodies stood at the call; the local names
    (also parameters of those helpers) that alias recv_buffer, and those bound to a copy of it."""
    cached = getattr(ctx, "_c13_helpers", None)
    if cached is not None:
        return cached
    model = ctx.model
    mod = model.module(L)
    cls = model.cls(L, "ClientTLSLayer")
    rh = model.func(L, "ClientTLSLayer.receive_handshake_data")
    methods = {st.name: st for st in cls.body if isinstance(st, (ast.FunctionDef, ast.AsyncFunctionDef)) and st is not rh}
    modfuncs = {st.name: st for st in mod.tree.body if isinstance(st, (ast.FunctionDef, ast.AsyncFunctionDef)) and st.name not in WALKERS}
    memo: dict = {}

    def target(call):
        f = call.func
        if isinstance(f, ast.Attribute) and isinstance(f.value, ast.Name) and f.value.id == "self" and f.attr in methods:
            return methods[f.attr]
        if isinstance(f, ast.Name) and f.id in modfuncs:
            return modfuncs[f.id]
        return None

    def is_parser_call(fn, c):
        return any(_is_parser(r) for r in _callees(model, mod, fn, c))

    def touches(fn):
        k = id(fn)
        if k not in memo:
            memo[k] = False
            memo[k] = any(isinstance(n, ast.Attribute) and n.attr == "recv_buffer" and not _only_reads(n) for n in _own_nodes(fn)) or any(
                is_parser_call(fn, c) or (target(c) is not None and touches(target(c))) for c in _own_calls(fn))
        return memo[k]

    def resolver(call):
        t = target(call)
        return t if t is not None and touches(t) else None

    helpers: dict = {}
    todo = [rh]
    while todo:
        fn = todo.pop()
        for c in _own_calls(fn):
            t = resolver(c)
            if t is None:
                continue
            if not _inlinable_position(c):
                raise AnalysisError(f"{norm(c)[:80]}: a helper that touches recv_buffer / the parser is called in a position the path engine does not inline (shape not modelled)")
            if t.name not in helpers:
                helpers[t.name] = t
                ctx.functions.add(f"{L}::{t._qual}")
                todo.append(t)
    aliases, copies = set(), set()

    def is_buf(e):
        return attr_chain(e) == BUF or (isinstance(e, ast.Name) and e.id in aliases)

    def is_copy(e):
        return isinstance(e, ast.Call) and isinstance(e.func, ast.Name) and e.func.id in ("bytes", "bytearray") and len(e.args) == 1 and not e.keywords and (is_buf(e.args[0]) or is_copy(e.args[0]))

    changed = True
    while changed:
        changed = False
        for fn in [rh, *helpers.values()]:
            for n in _own_nodes(fn):
                if isinstance(n, ast.Assign) and len(n.targets) == 1 and isinstance(n.targets[0], ast.Name):
                    name = n.targets[0].id
                    if is_buf(n.value) and name not in aliases:
                        aliases.add(name)
                        changed = True
                    if is_copy(n.value) and name not in copies:
                        copies.add(name)
                        changed = True
                if isinstance(n, ast.Call) and resolver(n) is not None:
                    t = resolver(n)
                    a = t.args
                    params = [x.arg for x in a.posonlyargs + a.args]
                    if params and params[0] in ("self", "cls") and isinstance(n.func, ast.Attribute):
                        params = params[1:]
                    for p, arg in list(zip(params, n.args)) + [(k.arg, k.value) for k in n.keywords if k.arg]:
                        if is_buf(arg) and p not in aliases:
                            aliases.add(p)
                            changed = True
                        if is_copy(arg) and p not in copies:
                            copies.add(p)
                            changed = True
    ctx._c13_helpers = (helpers, resolver, aliases, copies)
    return ctx._c13_helpers


READERS = frozenset("bytes bytearray len memoryview str repr bool print hash".split())


def _only_reads(n) -> bool:
    """Does this occurrence of ``<obj>.recv_buffer`` only read the buffer (a method that does not modify it, a copy, its length, indexing,
    formatting, a comparison / truth test)?  Anything else - a write, an in-place method, an alias, handing it to another callee - may change it
    or decide what is parsed, and the helper containing it is analysed like the statements it replaced."""
    p = getattr(n, "_parent", None)
    if isinstance(n.ctx, (ast.Store, ast.Del)):
        return False
    if isinstance(p, ast.Attribute) and p.value is n:
        return p.attr not in MUTATORS and isinstance(p.ctx, ast.Load)
    if isinstance(p, ast.Subscript) and p.value is n:
        return isinstance(p.ctx, ast.Load)
    if isinstance(p, ast.Call) and p.func is not n:
        return isinstance(p.func, ast.Name) and p.func.id in READERS
    return isinstance(p, (ast.FormattedValue, ast.Compare, ast.BoolOp, ast.UnaryOp, ast.If, ast.While, ast.IfExp, ast.Assert)) and not (isinstance(p, ast.IfExp) and p.test is not n)


def _inlinable_position(c) -> bool:
    p = getattr(c, "_parent", None)
    if isinstance(p, (ast.YieldFrom, ast.Await)):
        c, p = p, getattr(p, "_parent", None)
    if isinstance(p, ast.Expr):
        return True
    if isinstance(p, (ast.Assign, ast.AnnAssign, ast.Return)) and p.value is c:
        return True
    while isinstance(p, (ast.UnaryOp, ast.BoolOp)):
        c, p = p, getattr(p, "_parent", None)
    return isinstance(p, (ast.If, ast.While)) and p.test is c


class _BufSpec(GenericSpec):
    """GenericSpec whose events speak of recv_buffer under one name whatever alias the code uses; `buf += x` is an `extend`."""

    def __init__(self, aliases, **kw):
        super().__init__(**kw)
        self.aliases = sorted(aliases | {BUF}, key=len, reverse=True)

    def canon(self, text):
        for a in self.aliases:
            if text == a:
                return BUF
            if text.startswith(a + ".") or text.startswith(a + "["):
                return BUF + text[len(a):]
        return text

    def events(self, node, st):
        out = []
        for ev in super().events(node, st):
            if ev[0] in ("call", "assign", "del") and len(ev) == 2:
                raw = ev[1]
                ev = (ev[0], self.canon(raw))
                if ev == ("assign", BUF) and isinstance(node, ast.AugAssign) and isinstance(node.op, ast.Add):
                    ev = ("call", BUF + ".extend")
                elif ev == ("assign", BUF) and raw != BUF:
                    continue  # `buf = self.recv_buffer`: binding a local alias does not touch the buffer
            out.append(ev)
        return out


def _r13_2(ctx):
    model = ctx.model
    mod = model.module(L)
    rh = ctx.func(L, "ClientTLSLayer.receive_handshake_data")
    helpers, resolver, aliases, copies = _layer_helpers(ctx)
    fns = [rh, *helpers.values()]
    names = _hello_names(ctx, [(mod, f) for f in fns])
    data_params = _bytes_params(rh)

    # the callee expressions (as written: the path engine labels a call by that text) through which a parser is called directly - its name, a
    # function-valued local / parameter, `TABLE[key]`
    parser_locals = {ast.unparse(n.func) for fn in fns for n in _own_nodes(fn) if isinstance(n, ast.Call) and any(_is_parser(r) for r in _callees(model, mod, fn, n))}

    def is_parse(ev):
        return ev[0] == "call" and (ev[1].split(".")[-1] in PARSERS or ev[1] in parser_locals)

    def is_write(ev):
        if ev[0] in ("assign", "del"):
            return ev[1] == BUF or ev[1].startswith(BUF + "[") or ev[1].startswith(BUF + ".")
        return ev[0] == "call" and ev[1].startswith(BUF + ".") and ev[1].split(".")[-1] in MUTATORS

    spec = _BufSpec(aliases, keep=None, resolver=resolver, record_conds=True, unroll=1)
    spec._keep = lambda ev: ev[0] in ("cond", "return") or (ev[0] in ("call", "assign", "del") and len(ev) == 2 and (is_parse(ev) or spec.canon(ev[1]).startswith(BUF)))
    traces, eng = traces_of(rh, spec)
    ctx.paths += len(traces)

    def hello_found(conds):
        for text, val in conds:
            for n in names:
                if (text in (n, f"{n} is not None", f"bool({n})") and val) or (text in (f"{n} is None", f"not {n}") and not val):
                    return True
        return False

    def already_parsed(conds):
        return ("self.client_hello_parsed", True) in conds or ("not self.client_hello_parsed", False) in conds

    bad = None
    n_parse = 0
    for tr, how, st in traces:
        conds = [(e[1], e[2]) for e in tr if e[0] == "cond"]
        if already_parsed(conds):
            continue
        seq = [e for e in tr if e[0] in ("call", "assign", "del") and (is_parse(e) or is_write(e))]
        if not seq or seq[0] != ("call", BUF + ".extend"):
            bad = bad or f"a path does not start by appending to recv_buffer: {seq[:3]}"
            continue
        parse_i = next((i for i, e in enumerate(seq) if is_parse(e)), None)
        if parse_i is None:
            bad = bad or "a path does not parse the buffer"
            continue
        n_parse += 1
        for i, e in enumerate(seq[1:], 1):
            if is_parse(e):
                continue
            what = "cleared" if e == ("call", BUF + ".clear") else f"modified ({e[0]} {e[1]})"
            if i < parse_i:
                bad = bad or f"recv_buffer {what} before parsing"
            elif not hello_found(conds):
                bad = bad or f"recv_buffer {what} on a path where no complete ClientHello was found"
    # the parser sees the whole buffer, the buffer receives exactly the new data
    ext_sites, parse_calls = [], []
    for fn in fns:
        for n in _own_nodes(fn):
            if isinstance(n, ast.Call):
                for r in _callees(model, mod, fn, n):
                    if _is_parser(r):
                        parse_calls.append((fn, n, r[1]._qual))
                if isinstance(n.func, ast.Attribute) and n.func.attr == "extend" and spec.canon(norm(n.func.value)) == BUF:
                    ext_sites.append((n, n.args[0] if len(n.args) == 1 else None))
            if isinstance(n, ast.AugAssign) and isinstance(n.op, ast.Add) and spec.canon(norm(n.target)) == BUF:
                ext_sites.append((n, n.value))
    ext_pos = min((_pos(n) for n, _ in ext_sites), default=(0, 0))

    def whole(fn, e):
        if attr_chain(e) == BUF or (isinstance(e, ast.Name) and e.id in aliases):
            return True
        if isinstance(e, ast.Call) and isinstance(e.func, ast.Name) and e.func.id in ("bytes", "bytearray", "memoryview") and len(e.args) == 1 and not e.keywords:
            return whole(fn, e.args[0])
        if isinstance(e, ast.Name) and e.id in copies:  # a copy taken after the new data was appended
            ds = _defs(fn).get(e.id, [])
            return len(ds) == 1 and ds[0][0] == "assign" and (fn is not rh or _pos(ds[0][1]) > ext_pos)
        return False

    ctx.require({q for _, _, q in parse_calls} == set(PARSERS), f"receive_handshake_data (helpers {sorted(helpers)}): the calls of {list(PARSERS)} are not all visible "
                f"(found {sorted({q for _, _, q in parse_calls})}): shape not modelled")
    if any(len(c.args) + len(c.keywords) != 1 or not whole(fn, (c.args + [k.value for k in c.keywords])[0]) for fn, c, _ in parse_calls):
        bad = bad or "the parser is not applied to the whole recv_buffer"
    data_names = set(data_params)  # the new data under the names it has in rh and in the helpers it is handed to
    grew = True
    while grew:
        grew = False
        for fn in fns:
            for c in _own_calls(fn):
                t = resolver(c)
                if t is None:
                    continue
                a = t.args
                ps = [x.arg for x in a.posonlyargs + a.args]
                if ps and ps[0] in ("self", "cls") and isinstance(c.func, ast.Attribute):
                    ps = ps[1:]
                for pname, arg in list(zip(ps, c.args)) + [(k.arg, k.value) for k in c.keywords if k.arg]:
                    if isinstance(arg, ast.Name) and arg.id in data_names and pname not in data_names:
                        data_names.add(pname)
                        grew = True
    if len(ext_sites) != 1 or ext_sites[0][1] is None or not (isinstance(ext_sites[0][1], ast.Name) and ext_sites[0][1].id in data_names):
        bad = bad or "recv_buffer.extend is not fed exactly the new data"
    ctx.check(bad is None and n_parse >= 3, "R13.2", (L, "ClientTLSLayer.receive_handshake_data", rh), "append-then-parse-whole-buffer discipline", bad or "no parsing path found",
              desc=f"{n_parse} unparsed-hello paths (helpers inlined: {sorted(helpers)}): extend(data) first, parser on whole recv_buffer, buffer modified only after a hello was found")
    # who may write recv_buffer: __init__, receive_handshake_data and private helpers called from there only
    cls = model.cls(L, "ClientTLSLayer")
    meths = {st.name: st for st in cls.body if isinstance(st, (ast.FunctionDef, ast.AsyncFunctionDef))}

    def writes_buf(fn):
        for n in walk_in_order(fn):
            if isinstance(n, ast.Attribute) and n.attr == "recv_buffer":
                p = n._parent
                if isinstance(n.ctx, (ast.Store, ast.Del)) or (isinstance(p, ast.Attribute) and p.attr in MUTATORS) or (isinstance(p, ast.Subscript) and isinstance(p.ctx, (ast.Store, ast.Del))) \
                        or (isinstance(p, ast.AugAssign) and p.target is n):
                    return True
        return False

    allowed = {"__init__", rh.name}
    grew = True
    while grew:
        grew = False
        for name in helpers:
            if name in allowed or name not in meths:
                continue
            uses = [(m, n) for m in modules_mentioning(model, name) for n in ast.walk(m.tree) if isinstance(n, ast.Attribute) and n.attr == name]
            if uses and all(m.rel == L and isinstance(n.value, ast.Name) and n.value.id == "self" and isinstance(n._parent, ast.Call) and n._parent.func is n
                            and enclosing_func(n) is not None and _class_of(enclosing_func(n)) is cls and enclosing_func(n).name in allowed for m, n in uses):
                allowed.add(name)
                grew = True
    wfn = {name for name, fn in meths.items() if writes_buf(fn)}
    ctx.check(wfn <= allowed, "R13.2", (L, "ClientTLSLayer", cls), "writers of recv_buffer", f"recv_buffer is also modified in {sorted(wfn - allowed)}",
              desc=f"recv_buffer written only in {sorted(wfn)} (allowed: __init__, receive_handshake_data and helpers called from there only: {sorted(allowed)})")
    # purity of the parsers and of everything they call (constructors excepted)
    impure = []
    pure_fns: dict = {}
    todo = [(mod, ctx.func(L, q)) for q in WALKERS]
    while todo:
        m, fn = todo.pop()
        k = (m.rel, fn._qual)
        if k in pure_fns:
            continue
        pure_fns[k] = fn
        if len(pure_fns) > 40:
            raise AnalysisError("R13.2: the call tree of the ClientHello parsers grew beyond 40 functions (shape not modelled)")
        for c in _own_calls(fn):
            r = _callee(model, m, _class_of(fn), c)
            if r is not None and r[1].name != "__init__":
                todo.append(r)
    # state that the parsers write but never read (a counter, a "last seen" note) cannot influence a result: only state that is also read counts
    loads_name = {n.id for fn in pure_fns.values() for n in ast.walk(fn) if isinstance(n, ast.Name) and isinstance(n.ctx, ast.Load)
                  and not (isinstance(n._parent, ast.Subscript) and n._parent.value is n and isinstance(n._parent.ctx, (ast.Store, ast.Del)))}
    loads_attr = {n.attr for fn in pure_fns.values() for n in ast.walk(fn) if isinstance(n, ast.Attribute) and isinstance(n.ctx, ast.Load)
                  and not (isinstance(n._parent, ast.Call) and n._parent.func is n and n.attr in ("debug", "info", "warning", "error"))}
    for (rel, q), fn in sorted(pure_fns.items()):
        a = fn.args
        params = {x.arg for x in a.posonlyargs + a.args + a.kwonlyargs}
        for n in walk_in_order(fn):
            if isinstance(n, (ast.Global, ast.Nonlocal)) and set(n.names) & loads_name:
                impure.append(f"{q}: {norm(n)} (read by the parsers)")
            if isinstance(n, ast.Attribute) and isinstance(n.ctx, (ast.Store, ast.Del)) and (n.attr in loads_attr or attr_chain(n).split(".")[0] in params):
                impure.append(f"{q}: writes {norm(n)}")
            if isinstance(n, ast.Subscript) and isinstance(n.ctx, (ast.Store, ast.Del)):
                head = (attr_chain(n.value) or "?").split(".")[0]
                if head == "?" or head in params or head in loads_name or (isinstance(n.value, ast.Attribute) and n.value.attr in loads_attr):
                    impure.append(f"{q}: writes {norm(n)}")
            if isinstance(n, ast.Call) and isinstance(n.func, ast.Attribute) and isinstance(n.func.value, ast.Name) and n.func.value.id in params and n.func.attr in MUTATORS:
                impure.append(f"{q}: mutates its argument: {norm(n)}")
            if isinstance(n, ast.AugAssign) and isinstance(n.target, ast.Name) and n.target.id in params and n.target.id not in {t for t, ds in _defs(fn).items() if any(kd == "assign" for kd, _ in ds)}:
                impure.append(f"{q}: updates its argument in place: {norm(n)}")
    ctx.check(not impure, "R13.2", (L, "parse_client_hello", ctx.func(L, "parse_client_hello")), "record walkers and parsers are pure", "; ".join(impure),
              desc=f"{len(pure_fns)} functions (the 6 parser functions and what they call): no global / attribute / argument writes")
    # NextLayer feeds the joined client data
    _r13_2_nextlayer(ctx)
    ctx.expect_instances("R13.2", 4)


def _r13_2_nextlayer(ctx):
    from ..pyint import Interp
    from ..pyint import Raised
    from ..pyint import Rec

    model = ctx.model
    nl = ctx.func(NL, "NextLayer.next_layer")
    a = nl.args
    params = [x.arg for x in a.posonlyargs + a.args][1:]
    ctx.require(len(params) == 1, "NextLayer.next_layer: signature changed")
    want = f"{params[0]}.data_client()"

    def resolves(e):
        if norm(e) == want:
            return True
        if isinstance(e, ast.Name):
            ds = _defs(nl).get(e.id, [])
            return len(ds) == 1 and ds[0][0] == "assign" and norm(ds[0][1].value) == want
        return False

    feeds = [n for n in walk_in_order(nl) if isinstance(n, ast.Call) and norm(n.func) == "self._next_layer"]
    inner = ctx.func(NL, "NextLayer._next_layer")
    ia = [x.arg for x in inner.args.posonlyargs + inner.args.args][1:]
    ok = len(feeds) == 1 and len(ia) >= 2
    if ok:
        bound = dict(zip(ia, feeds[0].args))
        bound.update({k.arg: k.value for k in feeds[0].keywords if k.arg})
        ok = ia[1] in bound and resolves(bound[ia[1]])
    # data_client() interpreted: the concatenation, in order, of the data of all buffered client DataReceived events
    ctx.func(LAYER, "NextLayer._data")
    client, server = Rec("Client", _name="client"), Rec("Server", _name="server")
    context = Rec("Context", client=client, server=server)
    ev = "mitmproxy/proxy/events.py"

    def dr(conn, data):
        return Rec("DataReceived", _bases=("ConnectionEvent", "Event"), _impl=(ev, "DataReceived"), connection=conn, data=data)

    cases = [
        [],
        [dr(client, b"ab")],
        [Rec("Start", _bases=("Event",), _impl=(ev, "Start")), dr(client, b"ab"), dr(server, b"XY"), dr(client, b""), dr(client, b"cd"),
         Rec("ConnectionClosed", _bases=("ConnectionEvent", "Event"), _impl=(ev, "ConnectionClosed"), connection=client), dr(client, b"e")],
    ]
    ok2 = True
    for events in cases:
        layer_rec = Rec("NextLayer", _impl=(LAYER, "NextLayer"), context=context, events=list(events))
        it = Interp(model)
        try:
            got = it.method(layer_rec, "data_client")
        except Raised:
            got = None
        expect = b"".join(e.data for e in events if e._cls == "DataReceived" and e.connection is client)
        ctx.cells += 1
        if got != expect:
            ok2 = False
    ctx.check(ok and ok2, "R13.2", (NL, "NextLayer.next_layer", nl), "NextLayer parses nextlayer.data_client() = join of all buffered client data",
              "the layer decision no longer sees the concatenation of everything received", desc="NextLayer: data_client() (interpreted) joins all DataReceived events of the client, in order; it is what _next_layer is given")


# ---------------------------------------------------------------------------------------------------
# R13.3 / R13.4: the walkers interpreted


def _r13_3(ctx):
    wk = _walkers(ctx)
    for proto, (walker, assembler, parser, hdr, len_off, hs_hdr, len_at) in LAYOUT.items():
        w = ctx.func(L, walker)
        ctx.func(L, assembler)
        ctx.func(L, parser)
        bad = []

        def expect(got, want, what):
            ctx.cells += 1
            if got != want and len(bad) < 3:
                bad.append(f"{what}: got {_show(got)}, the {proto.upper()} layout (record header {hdr} with the length at {len_off}, handshake header {hs_hdr} with the length at {len_at}) gives {_show(want)}")

        # record header: every prefix of a three-record stream yields exactly the complete records and raises nothing
        bodies = [b"\xa1", b"\xb1\xb2\xb3\xb4", b"\xc1\xc2"]
        stream = b"".join(_record(proto, b, seq=i) for i, b in enumerate(bodies))
        ends, pos = [], 0
        for b in bodies:
            pos += hdr + len(b)
            ends.append(pos)
        for k in range(len(stream) + 1):
            expect(wk.run(walker, stream[:k], drive=True), [b for b, e in zip(bodies, ends) if e <= k], f"{walker} on the first {k} bytes of records with bodies of {[len(b) for b in bodies]} bytes")
        expect(wk.run(walker, bytearray(stream), drive=True), bodies, f"{walker} on a bytearray")
        big = bytes((7 * i + 3) % 251 for i in range(0x0102))
        expect(wk.run(walker, _record(proto, big) + _record(proto, b"\xd1", seq=1), drive=True), [big, b"\xd1"], f"{walker} on a record of 0x0102 bytes followed by one byte")
        badver = bytearray(_record(proto, b"\x01"))
        badver[1:3] = b"\x02\x00"
        for data, what in ((_record(proto, b""), "an empty record"), (_record(proto, b"\x01", typ=0x17), "a non-handshake record"), (bytes(badver), "a record with a foreign version"),
                           (_record(proto, b"\x01") + _record(proto, b""), "an empty record after a valid one")):
            got = wk.run(walker, data, drive=True)
            ctx.cells += 1
            if got != "<raises ValueError>" and len(bad) < 3:
                bad.append(f"{walker} accepts {what} ({_show(got)} instead of ValueError)" + (": empty records are not rejected" if "empty" in what else ""))
        # handshake header: the 24-bit length (each of its bytes exercised) plus the header size delimits the message; the parser strips the header
        for n in (1, 0x0102, 0x010203):
            body = bytes((5 * i + 1) % 253 for i in range(n))
            msg = _handshake(proto, body)
            chunks = [msg[i : i + 0xF000] for i in range(0, len(msg), 0xF000)]
            stream = b"".join(_record(proto, c, seq=i) for i, c in enumerate(chunks))
            tail = _record(proto, b"\x02\x00\x00\x01Z", seq=9)
            expect(wk.run(assembler, stream), msg, f"{assembler} on a message with a {n}-byte body in {len(chunks)} record(s)")
            expect(wk.run(assembler, stream + tail), msg, f"{assembler} on a message with a {n}-byte body followed by another record")
            expect(wk.run(assembler, stream[:-1]), None, f"{assembler} on a message with a {n}-byte body, last byte missing")
            if n < 0x8000:
                expect(wk.run(assembler, _record(proto, msg + b"\x0e\x00\x00\x00")), msg, f"{assembler} on a record carrying a {n}-byte-body message and the start of the next one")
            expect(wk.run(parser, stream + tail, stub=True), ("$ClientHello", msg[hs_hdr:], proto == "dtls"), f"{parser}: bytes handed to ClientHello(..) for a message with a {n}-byte body")
            expect(wk.run(parser, stream[:-1], stub=True), None, f"{parser} on an incomplete message")
        ctx.check(not bad, "R13.3", (L, walker, w), f"{proto.upper()} record / handshake header arithmetic", "; ".join(bad),
                  desc=f"{proto}: record header {hdr}, length at {len_off}, handshake header {hs_hdr}, 24-bit length at {len_at}: every prefix of a 3-record stream yields the complete records, "
                       f"empty / foreign records are rejected, messages of 1 / 0x0102 / 0x010203 bytes are delimited exactly and handed to ClientHello without the header")
    ctx.bounds.append("R13.3: per protocol one 3-record stream (all byte prefixes), one 0x0102-byte record, 4 malformed streams, 3 message sizes x 6 shapes (AST interpretation)")
    ctx.expect_instances("R13.3", 2)


def _r13_4(ctx):
    """Record reassembly, decided by interpreting the AST of get_client_hello / get_dtls_client_hello (mitmlint.pyint, `struct` trusted;
    generators are replayed lazily) over EVERY way of cutting a short synthetic handshake message into 1-3 TLS records, every byte
    prefix of each such stream, and streams with trailing records.  Bounded representative enumeration (message body of 7 bytes):
    the weakest kind of argument used here, it decides the clause only up to that bound."""
    import itertools

    wk = _walkers(ctx)
    run = wk.run
    m = ctx.model
    ctx.func(L, "get_client_hello")
    ctx.func(L, "handshake_record_contents")
    body = bytes(range(0xA0, 0xA7))
    msg = b"\x01" + len(body).to_bytes(3, "big") + body

    def rec(b, typ=0x16):
        return bytes([typ, 3, 1]) + len(b).to_bytes(2, "big") + b

    where = (L, "get_client_hello", m.func(L, "get_client_hello"))
    bad = None
    n = 0
    cutsets = [()] + [(a,) for a in range(1, len(msg))] + [(a, b) for a, b in itertools.combinations(range(1, len(msg)), 2)]
    for cuts in cutsets:
        edges = (0, *cuts, len(msg))
        frags = [msg[a:b] for a, b in zip(edges, edges[1:])]
        stream = b"".join(rec(f) for f in frags)
        tails = ((b"", "none"), (rec(b"\x02\x00\x00\x01Z"), "next handshake record"), (rec(b"x", 0x17), "application-data record"), (b"\x16\x03", "partial header"))
        for tail, tname in tails if len(cuts) <= 1 else tails[:2]:  # what follows the complete message is never looked at: two tails suffice for the 3-record splits
            got = run("get_client_hello", stream + tail)
            n += 1
            if got != msg and bad is None:
                bad = (f"records {[len(f) for f in frags]} + trailing {tname}", got, msg)
        if len(cuts) <= 1:
            for k in range(len(stream)):
                got = run("get_client_hello", stream[:k])
                n += 1
                if got is not None and bad is None:
                    bad = (f"records {[len(f) for f in frags]}, only the first {k} of {len(stream)} bytes received", got, None)
    ctx.cells += n
    ctx.check(bad is None, "R13.4", where, "TLS ClientHello reassembly is independent of the record split",
              f"{bad[0] if bad else ''}: get_client_hello gives {bad[1]!r}, expected {bad[2]!r} - a valid hello split this way is never recognised (or an incomplete one is accepted)" if bad else "",
              desc=f"get_client_hello: {n} record splits / prefixes / tails of one message give the message exactly when it is complete")
    # malformed
    for data, what in ((rec(b""), "empty record"), (rec(msg, 0x17), "non-handshake record"), (b"\x16\x02\x00" + b"\x00\x05hello", "bad version")):
        got = run("get_client_hello", data)
        n += 1
        ctx.check(got == "<raises ValueError>", "R13.4", where, f"get_client_hello rejects: {what}", f"{what}: got {got!r} instead of ValueError", desc=f"{what} -> ValueError")
    # DTLS: one record (13-byte header) carrying one message (12-byte handshake header)
    ctx.func(L, "get_dtls_client_hello")
    dmsg = b"\x01" + len(body).to_bytes(3, "big") + b"\x00\x00" + b"\x00\x00\x00" + len(body).to_bytes(3, "big") + body
    drec = b"\x16\xfe\xfd" + b"\x00\x00" + b"\x00" * 6 + len(dmsg).to_bytes(2, "big") + dmsg
    dbad = None
    for k in range(len(drec) + 1):
        got = run("get_dtls_client_hello", drec[:k])
        want = dmsg if k == len(drec) else None
        ctx.cells += 1
        if got != want and dbad is None:
            dbad = (k, got, want)
    got = run("get_dtls_client_hello", drec + drec)
    if got != dmsg and dbad is None:
        dbad = ("two datagrams", got, dmsg)

    def dr(b):
        return b"\x16\xfe\xfd" + b"\x00\x00" + b"\x00" * 6 + len(b).to_bytes(2, "big") + b

    for cut in (13, 14, len(dmsg) - 1):  # the announced message is longer than what the first record carries
        got = run("get_dtls_client_hello", dr(dmsg[:cut]))
        ctx.cells += 1
        if got is not None and dbad is None:
            dbad = (f"one record with the first {cut} of {len(dmsg)} message bytes:", got, None)
    # the message spread over several DTLS records (the walker concatenates record bodies), every prefix
    for cut in (1, 13):
        two = dr(dmsg[:cut]) + dr(dmsg[cut:])
        for k in range(len(two) + 1):
            got = run("get_dtls_client_hello", two[:k])
            want = dmsg if k == len(two) else None
            ctx.cells += 1
            if got != want and dbad is None:
                dbad = (f"{k} (records of {cut} + {len(dmsg) - cut} message bytes)", got, want)
    ctx.check(dbad is None, "R13.4", (L, "get_dtls_client_hello", m.func(L, "get_dtls_client_hello")), "DTLS ClientHello extraction on every prefix of a datagram",
              f"first {dbad[0]} bytes: got {dbad[1]!r}, expected {dbad[2]!r}" if dbad else "", desc=f"get_dtls_client_hello: {len(drec) + 2} prefixes: message exactly when complete")
    ctx.bounds.append("R13.4: one synthetic handshake message (7-byte body), all 1-3 record splits x 4 tails (2 tails for the 3-record splits), all byte prefixes of the 1- and 2-record streams (TLS and DTLS)")
    ctx.expect_instances("R13.4", 5)


def check(ctx):
    ctx.rule("R13.4", "ClientHello record reassembly gives the message exactly when it is complete, for every record split / prefix / tail of a short message (bounded, AST interpretation)")
    ctx.rule("R13.1", "escape set of ClientHello parsing on untrusted bytes is handled wherever the parsers are reached; properties read afterwards raise nothing modelled")
    ctx.rule("R13.2", "parsing is a function of the concatenation: append-only buffer, whole-buffer parse, pure parsers")
    ctx.rule("R13.3", "record-walking arithmetic matches the TLS/DTLS layouts: the walkers, interpreted on crafted records, yield exactly the complete records / the announced message and never raise on a prefix")
    wk = _walkers(ctx)
    n0 = len(ctx.deferred)
    # the interpreted rules first: their runs are the (bounded) fall-back evidence for length-driven raisers in R13.1
    ctx.guard(_r13_3, ctx)
    ctx.guard(_r13_4, ctx)
    wk.complete = len(ctx.deferred) == n0
    ctx.guard(_r13_1, ctx)
    ctx.guard(_r13_2, ctx)


MUTANTS = [
    Mutant("hello-size-read-only-from-a-long-record", L, "        client_hello += d\n        if len(client_hello) >= 4:\n            client_hello_size = struct.unpack(\"!I\", b\"\\x00\" + client_hello[1:4])[0] + 4\n",
           "        client_hello += d\n        if len(d) >= 4:\n            client_hello_size = struct.unpack(\"!I\", b\"\\x00\" + client_hello[1:4])[0] + 4\n", "R13.4"),
    Mutant("hello-complete-needs-one-more-byte", L, "            if len(client_hello) >= client_hello_size:\n                return client_hello[:client_hello_size]\n    return None\n\n\ndef parse_client_hello",
           "            if len(client_hello) > client_hello_size:\n                return client_hello[:client_hello_size]\n    return None\n\n\ndef parse_client_hello", "R13.4"),
    Mutant("dtls-hello-returned-before-complete", L, "            if len(client_hello) >= client_hello_size:\n                return client_hello[:client_hello_size]\n    return None\n\n\ndef dtls_parse_client_hello",
           "            if client_hello_size:\n                return client_hello[:client_hello_size]\n    return None\n\n\ndef dtls_parse_client_hello", "R13.4"),
    # R13.1
    Mutant("tls-wrapper-catches-wrong-type", L, "            return ClientHello(client_hello[4:])\n        except EOFError as e:", "            return ClientHello(client_hello[4:])\n        except IndexError as e:", "R13.1"),
    Mutant("dtls-wrapper-removed", L, "        try:\n            return ClientHello(client_hello[12:], dtls=True)\n        except EOFError as e:\n            raise ValueError(\"Invalid ClientHello\") from e\n",
           "        return ClientHello(client_hello[12:], dtls=True)\n", "R13.1"),
    Mutant("layer-handles-eoferror-only", L, "        except ValueError:\n            return False, f\"Cannot parse ClientHello", "        except EOFError:\n            return False, f\"Cannot parse ClientHello", "R13.1"),
    Mutant("nextlayer-tcp-handler-narrowed", NL, "                        ch = parse_client_hello(data_client)\n                    except ValueError:", "                        ch = parse_client_hello(data_client)\n                    except KeyError:", "R13.1"),
    Mutant("empty-record-raises-runtimeerror", L, "            raise ValueError(\"Record must not be empty.\")\n        offset += 5\n", "            raise RuntimeError(\"Record must not be empty.\")\n        offset += 5\n", "R13.1"),
    Mutant("sni-decoded-without-host-check", T, "                    and check.is_valid_host(extension.body.server_names[0].host_name)\n", "", "R13.1"),
    Mutant("sni-indexed-without-length-check", T, "                    and len(extension.body.server_names) == 1\n", "", "R13.1"),
    Mutant("assert-on-handshake-type-instead-of-valueerror", L, "        client_hello += d\n        if len(client_hello) >= 4:\n",
           "        client_hello += d\n        assert client_hello[0] == 0x01, \"not a ClientHello\"\n        if len(client_hello) >= 4:\n", "R13.1"),
    Mutant("assert-record-length-without-the-guard", L, "        if len(data) < offset + record_size:\n            return\n        record_body = data[offset : offset + record_size]\n        yield record_body\n        offset += record_size\n\n\ndef get_client_hello",
           "        record_body = data[offset : offset + record_size]\n        assert len(record_body) == record_size\n        yield record_body\n        offset += record_size\n\n\ndef get_client_hello", "R13.1"),
    # R13.2
    Mutant("buffer-dropped-on-handshake-error", L, "    def on_handshake_error(self, err: str) -> layer.CommandGenerator[None]:\n        if self.conn.sni:\n",
           "    def on_handshake_error(self, err: str) -> layer.CommandGenerator[None]:\n        self.recv_buffer.clear()\n        if self.conn.sni:\n", "R13.2"),
    Mutant("nextlayer-data-mixes-both-directions", LAYER, "            if isinstance(e, mevents.DataReceived) and e.connection == connection\n", "            if isinstance(e, mevents.DataReceived)\n", "R13.2"),
    Mutant("parses-only-the-new-segment", L, "                client_hello = parse_client_hello(self.recv_buffer)", "                client_hello = parse_client_hello(data)", "R13.2"),
    Mutant("buffer-cleared-when-incomplete", L, "        else:\n            return False, None\n\n        self.conn.sni", "        else:\n            self.recv_buffer.clear()\n            return False, None\n\n        self.conn.sni", "R13.2"),
    Mutant("buffer-replaced-instead-of-extended", L, "        self.recv_buffer.extend(data)\n        try:\n            if self.is_dtls:", "        self.recv_buffer = bytearray(data)\n        try:\n            if self.is_dtls:", "R13.2"),
    Mutant("walker-consumes-its-argument", L, "        yield record_body\n        offset += record_size\n\n\ndef get_client_hello", "        yield record_body\n        offset += record_size\n        del data[:offset]\n\n\ndef get_client_hello", "R13.2"),
    Mutant("nextlayer-sees-only-last-segment", NL, "                nextlayer.context,\n                nextlayer.data_client(),\n", "                nextlayer.context,\n                nextlayer.events[-1].data,\n", "R13.2"),
    # R13.3
    Mutant("tls-length-field-offset-wrong", L, "struct.unpack(\"!H\", record_header[3:])[0]", "struct.unpack(\"!H\", record_header[2:])[0]", "R13.3"),
    Mutant("tls-header-guard-one-short", L, "        if len(data) < offset + 5:\n            return\n", "        if len(data) < offset + 4:\n            return\n", "R13.3"),
    Mutant("tls-handshake-header-size-wrong", L, "b\"\\x00\" + client_hello[1:4])[0] + 4", "b\"\\x00\" + client_hello[1:4])[0] + 3", "R13.3"),
    Mutant("dtls-uses-total-length-field", L, "b\"\\x00\" + client_hello[9:12])[0] + 12", "b\"\\x00\" + client_hello[1:4])[0] + 12", "R13.3"),
    Mutant("tls-parser-strips-wrong-header", L, "return ClientHello(client_hello[4:])", "return ClientHello(client_hello[5:])", "R13.3"),
    Mutant("dtls-empty-record-accepted", L, "        if record_size == 0:\n            raise ValueError(\"Record must not be empty.\")\n        offset += 13\n", "        offset += 13\n", "R13.3"),
    Mutant("dtls-record-length-little-endian", L, "record_size = struct.unpack(\"!H\", record_header[11:])[0]", "record_size = struct.unpack(\"<H\", record_header[11:])[0]", "R13.3"),
    Mutant("dtls-advances-by-tls-header", L, "        offset += 13\n", "        offset += 5\n", "R13.3"),
]
