"""C13 - ClientHello parsing is total (incomplete | ClientHello | ValueError) and independent of segmentation.

Decided (structural clauses, nothing executed):
  R13.1 (E5) on untrusted bytes the escape set of ``parse_client_hello`` / ``dtls_parse_client_hello`` (through
        ``handshake_record_contents``, ``get_client_hello``, ``ClientHello.__init__`` and the two kaitai modules, whose stream reads raise
        EOFError) is within the types handled at each of the three call sites (``ClientTLSLayer.receive_handshake_data`` and the TCP and
        UDP branches of ``NextLayer._get_client_hello``); the ``ClientHello`` properties read afterwards outside any handler
        (``sni``, ``alpn_protocols``, ``extensions``, ``cipher_suites``) raise nothing in the model (``decode("ascii")`` is guarded by
        ``is_valid_host``, indexing by ``len(...) == 1``).
  R13.2 segmentation independence: until the hello is parsed ``receive_handshake_data`` only appends to ``recv_buffer`` and parses the
        WHOLE buffer; the buffer is cleared only after a hello was found; the record walkers / parsers are pure (no writes to arguments,
        attributes or globals); ``NextLayer`` parses ``nextlayer.data_client()``, which joins all buffered client data.
  R13.3 record-walking arithmetic: every ``struct.unpack`` in the record walkers is applied to a buffer whose length provably equals
        the format size (so it cannot raise), and the constants agree with the TLS / DTLS layouts (record header 5 / 13 bytes, length
        field at 3 / 11, handshake header 4 / 12 bytes added to the announced length and stripped before parsing); empty records are
        rejected.
NOT decided: value-level agreement of SNI / ALPN / cipher suites with an independent TLS parser; QUIC ClientHello extraction.
"""

from __future__ import annotations

import ast
import struct as _struct

from ..core import AnalysisError
from ..core import norm
from ..model import walk_in_order
from ..paths import GenericSpec
from ..paths import traces_of
from ..selftest import Mutant
from ._helpers_H import _len_lower_bound
from ._helpers_H import Config
from ._helpers_H import guards_at
from ._helpers_H import MayRaise

PROP = "C13"
REG = {
    "strength": "partial",
    "technique": "exception-escape sets vs. handler coverage (E5, kaitai reads summarised as EOFError) + buffer-discipline path facts + "
    "length arithmetic of the record walkers against the TLS/DTLS layout table",
    "claim": "every explicit raise / modelled raiser of ClientHello parsing on untrusted bytes is handled at all three call sites and the "
    "properties read afterwards raise nothing modelled; parsing always sees the whole accumulated buffer and the parsers are pure, so the "
    "result is a function of the concatenation; the record walkers' offsets and sizes match the TLS/DTLS record and handshake headers.",
    "note": "Trusted base: KaitaiStream read_* raise EOFError subclasses only; bytes.decode('idna') succeeds only on ASCII input.",
}

L = "mitmproxy/proxy/layers/tls.py"
T = "mitmproxy/tls.py"
NL = "mitmproxy/addons/next_layer.py"
CK = "mitmproxy/net/check.py"
K1 = "mitmproxy/contrib/kaitaistruct/tls_client_hello.py"
K2 = "mitmproxy/contrib/kaitaistruct/dtls_client_hello.py"

KAITAI = {
    ".read_u1": (("EOFError",), "V"), ".read_u2be": (("EOFError",), "V"), ".read_u4be": (("EOFError",), "V"), ".read_u8be": (("EOFError",), "V"),
    ".read_bytes": (("EOFError",), "V"), ".read_bytes_full": ((), "V"), ".is_eof": ((), None),
    "kaitaistruct.KaitaiStream": ((), "V"), "kaitaistruct.BytesIO": ((), "V"),
}

# ---------------------------------------------------------------------------------------------------
# exact byte lengths (R13.3, also used to discharge struct.error in R13.1)


def _const_int(e):
    return e.value if isinstance(e, ast.Constant) and isinstance(e.value, int) and not isinstance(e.value, bool) else None


def _single_def(fn, name):
    defs = [n for n in walk_in_order(fn) if isinstance(n, ast.Assign) and any(isinstance(t, ast.Name) and t.id == name for t in n.targets)]
    aug = [n for n in walk_in_order(fn) if isinstance(n, ast.AugAssign) and isinstance(n.target, ast.Name) and n.target.id == name]
    return defs[0] if len(defs) == 1 and not aug else None


def exact_len(e, fn, at):
    """Provable exact length of the bytes expression ``e`` evaluated at node ``at`` of ``fn`` (None: not provable)."""
    if isinstance(e, ast.Constant) and isinstance(e.value, bytes):
        return len(e.value)
    if isinstance(e, ast.BinOp) and isinstance(e.op, ast.Add):
        a, b = exact_len(e.left, fn, at), exact_len(e.right, fn, at)
        return None if a is None or b is None else a + b
    if isinstance(e, ast.Name):
        d = _single_def(fn, e.id)
        if d is None or not isinstance(d.value, ast.Subscript) or not isinstance(d.value.slice, ast.Slice):
            return None
        sl = d.value.slice
        # Y[o : o + c] with len(Y) >= o + c established at the assignment
        if sl.lower is not None and isinstance(sl.upper, ast.BinOp) and isinstance(sl.upper.op, ast.Add) and norm(sl.upper.left) == norm(sl.lower) \
                and _const_int(sl.upper.right) is not None and sl.step is None:
            want = f"len({norm(d.value.value)}) < {norm(sl.upper)}"
            if any((not v) and norm(g) == want for g, v in guards_at(d, fn)):
                return _const_int(sl.upper.right)
        return None
    if isinstance(e, ast.Subscript) and isinstance(e.slice, ast.Slice) and e.slice.step is None:
        lo = 0 if e.slice.lower is None else _const_int(e.slice.lower)
        if lo is None or lo < 0:
            return None
        if e.slice.upper is None:
            n = exact_len(e.value, fn, at)
            return None if n is None or n < lo else n - lo
        hi = _const_int(e.slice.upper)
        if hi is None or hi < lo:
            return None
        n = exact_len(e.value, fn, at)
        lb = n if n is not None else _len_lower_bound(guards_at(at, fn), norm(e.value))
        return hi - lo if lb >= hi else None
    return None


def _unpack_sites(fn):
    return [n for n in walk_in_order(fn) if isinstance(n, ast.Call) and norm(n.func) == "struct.unpack"]


def _make_discharge():
    def discharge(fr, exc, node, why):
        if exc == "struct.error" and isinstance(node, ast.Call) and norm(node.func) == "struct.unpack" and len(node.args) == 2 \
                and isinstance(node.args[0], ast.Constant):
            n = exact_len(node.args[1], fr.fn, node)
            if n is not None and n == _struct.calcsize(node.args[0].value):
                return f"buffer length is provably {n} = calcsize({node.args[0].value!r})"
        if exc == "IndexError" and isinstance(node, ast.Subscript) and isinstance(node.value, ast.Call) and norm(node.value.func) == "struct.unpack" \
                and isinstance(node.value.args[0], ast.Constant) and _const_int(node.slice) is not None:
            fmt = node.value.args[0].value
            fields = len(_struct.unpack(fmt, bytes(_struct.calcsize(fmt))))
            if 0 <= node.slice.value < fields:
                return f"struct.unpack({fmt!r}, ...) yields {fields} field(s)"
        if exc == "UnicodeDecodeError" and isinstance(node, ast.Call) and isinstance(node.func, ast.Attribute) and node.func.attr == "decode" \
                and node.args and isinstance(node.args[0], ast.Constant) and node.args[0].value == "ascii":
            want = f"check.is_valid_host({norm(node.func.value)})"
            if any(v and norm(g) == want for g, v in guards_at(node, fr.fn)) and _is_valid_host_implies_ascii(fr.eng.model):
                return "guarded by check.is_valid_host(<same bytes>), which returns False unless bytes.decode('idna') (ASCII only) succeeds"
        return None

    return discharge


def _is_valid_host_implies_ascii(model) -> bool:
    fn = model.func(CK, "is_valid_host")
    for st in fn.body:  # top level, hence on every path that can return True
        if isinstance(st, ast.Try) and len(st.body) == 1 and norm(st.body[0]) in ("host_bytes.decode('idna')", 'host_bytes.decode("idna")'):
            if all(norm(h.type) in ("ValueError", "UnicodeError") and len(h.body) == 1 and norm(h.body[0]) == "return False" for h in st.handlers):
                return True
        if any(isinstance(n, ast.Return) and isinstance(n.value, ast.Constant) and n.value.value is True for n in walk_in_order(st)):
            return False
    return False


# ---------------------------------------------------------------------------------------------------


def _handled(mr, rel, t):
    mod = mr.model.module(rel)
    out = []
    for h in t.handlers:
        out += ["BaseException"] if h.type is None else [mr.h.canon(mod, e) for e in (h.type.elts if isinstance(h.type, ast.Tuple) else [h.type])]
    return out


def _r13_1(ctx):
    for q in ("handshake_record_contents", "get_client_hello", "parse_client_hello", "dtls_handshake_record_contents", "get_dtls_client_hello", "dtls_parse_client_hello"):
        ctx.func(L, q)
    ctx.func(T, "ClientHello.__init__")
    ctx.func(K1, "TlsClientHello._read")
    ctx.func(K2, "DtlsClientHello._read")
    ctx.trust("KaitaiStream.read_u1/read_u2be/read_u4be/read_bytes raise EOFError subclasses only (kaitaistruct runtime)")
    sites = []
    rh = ctx.func(L, "ClientTLSLayer.receive_handshake_data")
    tr = [n for n in walk_in_order(rh) if isinstance(n, ast.Try) and "parse_client_hello(" in ast.unparse(n.body[0])]
    ctx.require(len(tr) == 1, "receive_handshake_data: try around the parser changed shape")
    sites.append((L, "ClientTLSLayer.receive_handshake_data", tr[0], {"self.recv_buffer": "V"}, 2))
    gch = ctx.func(NL, "NextLayer._get_client_hello")
    for needle in ("parse_client_hello(data_client)", "dtls_parse_client_hello(data_client)"):
        tr = [n for n in walk_in_order(gch) if isinstance(n, ast.Try) and len(n.body) == 1 and isinstance(n.body[0], ast.Assign)
              and norm(n.body[0].value) == needle]
        ctx.require(len(tr) == 1, f"NextLayer._get_client_hello: try around {needle} changed shape")
        sites.append((NL, "NextLayer._get_client_hello", tr[0], {"data_client": "V"}, 1))
    for rel, qual, t, env, nparsers in sites:
        mr = MayRaise(ctx, Config(externals=KAITAI, discharge=_make_discharge()))
        esc = mr.region(rel, qual, t.body, env)
        key = mr.key_of_region(rel, qual, env)
        ctx.require(mr.sites >= 20 * nparsers and {"ValueError"} <= {e.exc for e in esc} and any(f.startswith(K1) or f.startswith(K2) for f in mr.functions),
                    f"{qual}: escape analysis collapsed ({mr.sites} sites, {sorted({e.exc for e in esc})})")
        ctx.paths += mr.sites
        for f in mr.functions:
            ctx.functions.add(f)
        handled = _handled(mr, rel, t)
        bad = sorted((e for e in esc if not any(mr.h.isa(e.exc, h) for h in handled)), key=lambda e: (e.exc, e.rel, e.qual, e.text))
        what = norm(t.body[0])[:60]
        for typ in sorted({e.exc for e in bad}):
            first = next(e for e in bad if e.exc == typ)
            ctx.fail("R13.1", (rel, qual, t), f"{typ} escapes ClientHello parsing",
                     f"{typ} raised at {first.site()} ({first.why}) is not handled around `{what}` (handled: {handled}); call chain: " + " -> ".join(mr.chain(key, first)),
                     chain=mr.chain(key, first))
        if not bad:
            ctx.ok("R13.1", f"{qual} `{what}`: {mr.sites} raiser sites, {len(mr.functions)} functions, escape set {sorted({e.exc for e in esc})} within {handled}")
        for k, v in sorted(mr.discharged.items()):
            ctx.assume(f"discharged: {k}: {v}")
    # properties read outside any handler
    for prop in ("sni", "alpn_protocols", "extensions", "cipher_suites"):
        ctx.func(T, f"ClientHello.{prop}")
        mr = MayRaise(ctx, Config(externals=KAITAI, discharge=_make_discharge(), attr_on_any=False))
        s = mr.function(T, f"ClientHello.{prop}", {"self._client_hello": "V"})
        key = (T, f"ClientHello.{prop}", (("self._client_hello", "V"),))
        for typ in sorted({e.exc for e in s.escapes}):
            first = next(e for e in sorted(s.escapes, key=lambda e: (e.rel, e.qual, e.text)) if e.exc == typ)
            ctx.fail("R13.1", (T, f"ClientHello.{prop}", ctx.func(T, f"ClientHello.{prop}")), f"ClientHello.{prop} may raise {typ}",
                     f"{typ} at {first.site()} ({first.why}); the property is read outside any handler after parsing; chain: " + " -> ".join(mr.chain(key, first)))
        if not s.escapes:
            ctx.ok("R13.1", f"ClientHello.{prop}: raises nothing modelled ({mr.sites} sites examined, discharged {len(mr.discharged)})")
        for k, v in sorted(mr.discharged.items()):
            ctx.assume(f"discharged: {k}: {v}")
    # the properties are what the callers read afterwards
    reads = {n.attr for n in walk_in_order(rh) if isinstance(n, ast.Attribute) and norm(n.value) == "client_hello"}
    ctx.require(reads <= {"sni", "alpn_protocols", "extensions", "cipher_suites"}, f"receive_handshake_data reads unmodelled ClientHello attributes {sorted(reads)}")
    ctx.expect_instances("R13.1", 7)


def _r13_2(ctx):
    rh = ctx.func(L, "ClientTLSLayer.receive_handshake_data")

    def keep(ev):
        if ev[0] == "call":
            return ev[1] in ("self.recv_buffer.extend", "self.recv_buffer.clear", "parse_client_hello", "dtls_parse_client_hello") or ev[1].startswith("self.recv_buffer.")
        if ev[0] == "assign":
            return ev[1].startswith("self.recv_buffer")
        return ev[0] in ("cond", "return")

    traces, eng = traces_of(rh, GenericSpec(keep=keep, record_conds=True, unroll=1))
    ctx.paths += len(traces)
    bad = None
    n_parse = 0
    for tr, how, st in traces:
        conds = [(e[1], e[2]) for e in tr if e[0] == "cond"]
        if ("self.client_hello_parsed", True) in conds:
            continue
        evs = [e for e in tr if e[0] in ("call", "assign")]
        if not evs or evs[0] != ("call", "self.recv_buffer.extend"):
            bad = bad or f"a path does not start by appending to recv_buffer: {evs[:3]}"
            continue
        parse_i = next((i for i, e in enumerate(evs) if e[1] in ("parse_client_hello", "dtls_parse_client_hello")), None)
        if parse_i is None:
            bad = bad or "a path does not parse the buffer"
            continue
        n_parse += 1
        for i, e in enumerate(evs):
            if e[1] not in ("self.recv_buffer.extend", "self.recv_buffer.clear", "parse_client_hello", "dtls_parse_client_hello", "self.recv_buffer.hex"):
                bad = bad or f"recv_buffer is touched by {e}"
            if e == ("call", "self.recv_buffer.clear"):
                if i < parse_i:
                    bad = bad or "recv_buffer cleared before parsing"
                if ("client_hello", True) not in conds:
                    bad = bad or "recv_buffer cleared on a path where no complete ClientHello was found"
            if e[0] == "assign":
                bad = bad or f"recv_buffer rebound: {e}"
    # the parser sees the whole buffer
    calls = [n for n in walk_in_order(rh) if isinstance(n, ast.Call) and norm(n.func) in ("parse_client_hello", "dtls_parse_client_hello")]
    if len(calls) != 2 or any([norm(a) for a in c.args] != ["self.recv_buffer"] for c in calls):
        bad = bad or "the parser is not applied to the whole recv_buffer"
    ext = [n for n in walk_in_order(rh) if isinstance(n, ast.Call) and norm(n.func) == "self.recv_buffer.extend"]
    if len(ext) != 1 or [norm(a) for a in ext[0].args] != ["data"]:
        bad = bad or "recv_buffer.extend is not fed exactly the new data"
    ctx.check(bad is None and n_parse >= 3, "R13.2", (L, "ClientTLSLayer.receive_handshake_data", rh), "append-then-parse-whole-buffer discipline", bad or "no parsing path found",
              desc=f"{n_parse} unparsed-hello paths: extend(data) first, parser on whole recv_buffer, clear only after a hello was found")
    # other writers of recv_buffer in the class
    cls = ctx.model.cls(L, "ClientTLSLayer")
    writers = sorted({norm(n) for n in walk_in_order(cls) if isinstance(n, ast.Attribute) and n.attr == "recv_buffer" and isinstance(n.ctx, ast.Store)
                      for n in [n._parent]})
    wfn = {fn.name for fn in cls.body if isinstance(fn, ast.FunctionDef) for n in walk_in_order(fn)
           if isinstance(n, ast.Attribute) and n.attr == "recv_buffer" and (isinstance(n.ctx, ast.Store) or (isinstance(n._parent, ast.Attribute) and n._parent.attr in ("extend", "clear", "append", "pop", "__delitem__")))}
    ctx.check(wfn <= {"__init__", "receive_handshake_data"}, "R13.2", (L, "ClientTLSLayer", cls), "writers of recv_buffer", f"recv_buffer is also modified in {sorted(wfn - {'__init__', 'receive_handshake_data'})}",
              desc=f"recv_buffer written only in {sorted(wfn)}")
    # purity of the parsers
    impure = []
    for q in ("handshake_record_contents", "get_client_hello", "parse_client_hello", "dtls_handshake_record_contents", "get_dtls_client_hello", "dtls_parse_client_hello"):
        fn = ctx.func(L, q)
        params = {a.arg for a in fn.args.args}
        for n in walk_in_order(fn):
            if isinstance(n, (ast.Global, ast.Nonlocal)):
                impure.append(f"{q}: {norm(n)}")
            if isinstance(n, (ast.Attribute, ast.Subscript)) and isinstance(n.ctx, (ast.Store, ast.Del)):
                impure.append(f"{q}: writes {norm(n)}")
            if isinstance(n, ast.Call) and isinstance(n.func, ast.Attribute) and isinstance(n.func.value, ast.Name) and n.func.value.id in params \
                    and n.func.attr in ("extend", "append", "clear", "pop", "insert", "remove", "reverse", "sort"):
                impure.append(f"{q}: mutates its argument: {norm(n)}")
    ctx.check(not impure, "R13.2", (L, "parse_client_hello", ctx.func(L, "parse_client_hello")), "record walkers and parsers are pure", "; ".join(impure), desc="6 parser functions: no global / attribute / argument writes")
    # NextLayer feeds the joined client data
    nl = ctx.func(NL, "NextLayer.next_layer")
    feeds = [n for n in walk_in_order(nl) if isinstance(n, ast.Call) and norm(n.func) == "self._next_layer"]
    ok = len(feeds) == 1 and len(feeds[0].args) >= 2 and norm(feeds[0].args[1]) == "nextlayer.data_client()"
    data = ctx.func("mitmproxy/proxy/layer.py", "NextLayer._data")
    ok2 = any(isinstance(n, ast.Return) and isinstance(n.value, ast.Call) and norm(n.value.func) in ("b''.join", 'b"".join') for n in walk_in_order(data)) \
        and "for e in self.events" in ast.unparse(data)
    ctx.check(ok and ok2, "R13.2", (NL, "NextLayer.next_layer", nl), "NextLayer parses nextlayer.data_client() = join of all buffered client data",
              "the layer decision no longer sees the concatenation of everything received", desc="NextLayer: data_client() joins all DataReceived events")
    ctx.expect_instances("R13.2", 4)


LAYOUT = {
    # walker, assembler, parser: (record header bytes, offset of the 2-byte length, handshake header bytes)
    "tls": ("handshake_record_contents", "get_client_hello", "parse_client_hello", 5, 3, 4),
    "dtls": ("dtls_handshake_record_contents", "get_dtls_client_hello", "dtls_parse_client_hello", 13, 11, 12),
}


def _r13_3(ctx):
    for proto, (walker, assembler, parser, hdr, len_off, hs_hdr) in LAYOUT.items():
        bad = []
        w, a, p = ctx.func(L, walker), ctx.func(L, assembler), ctx.func(L, parser)
        us = _unpack_sites(w) + _unpack_sites(a)
        ctx.require(len(us) == 2, f"{proto}: expected one struct.unpack in {walker} and one in {assembler}")
        for u in us:
            fn = w if u in _unpack_sites(w) else a
            n = exact_len(u.args[1], fn, u)
            size = _struct.calcsize(u.args[0].value)
            ctx.cells += 1
            if n != size:
                bad.append(f"{fn.name}: `{norm(u)}` is applied to {'a buffer of unproven length' if n is None else f'{n} bytes'} but the format needs {size}")
        # record header: data[offset : offset + H]; length field [k:]; offset += H; empty records rejected
        d = _single_def(w, "record_header")
        got_hdr = _const_int(d.value.slice.upper.right) if d is not None and isinstance(d.value, ast.Subscript) and isinstance(d.value.slice, ast.Slice) and isinstance(d.value.slice.upper, ast.BinOp) else None
        u = _unpack_sites(w)[0]
        got_off = _const_int(u.args[1].slice.lower) if isinstance(u.args[1], ast.Subscript) and isinstance(u.args[1].slice, ast.Slice) else None
        adv = [_const_int(n.value) for n in walk_in_order(w) if isinstance(n, ast.AugAssign) and norm(n.target) == "offset" and isinstance(n.op, ast.Add) and _const_int(n.value) is not None]
        adv2 = [norm(n.value) for n in walk_in_order(w) if isinstance(n, ast.AugAssign) and norm(n.target) == "offset" and _const_int(n.value) is None]
        zero = any(isinstance(n, ast.If) and norm(n.test) == "record_size == 0" and any(isinstance(x, ast.Raise) for x in n.body) for n in walk_in_order(w))
        if (got_hdr, got_off, adv, adv2) != (hdr, len_off, [hdr], ["record_size"]):
            bad.append(f"{walker}: record header {got_hdr} bytes, length field at {got_off}, advances {adv}+{adv2}; the {proto.upper()} layout is {hdr} / {len_off} / [{hdr}]+['record_size']")
        if not zero:
            bad.append(f"{walker}: empty records are not rejected (the walker could loop without consuming the announced hello)")
        # handshake header: size = unpack(...)[0] + HS ; parser strips HS bytes
        plus = [_const_int(n.right) for n in walk_in_order(a) if isinstance(n, ast.BinOp) and isinstance(n.op, ast.Add) and isinstance(n.left, ast.Subscript) and isinstance(n.left.value, ast.Call)
                and norm(n.left.value.func) == "struct.unpack"]
        strip = [_const_int(n.args[0].slice.lower) for n in walk_in_order(p) if isinstance(n, ast.Call) and norm(n.func) == "ClientHello" and n.args and isinstance(n.args[0], ast.Subscript)
                 and isinstance(n.args[0].slice, ast.Slice)]
        lenfield = _unpack_sites(a)[0].args[1]
        lf = (norm(lenfield.right.slice) if isinstance(lenfield, ast.BinOp) and isinstance(lenfield.right, ast.Subscript) else None)
        want_lf = "1:4" if proto == "tls" else "9:12"
        ctx.cells += 3
        if plus != [hs_hdr] or strip != [hs_hdr] or lf != want_lf:
            bad.append(f"{assembler}/{parser}: handshake header added {plus}, stripped {strip}, 24-bit length taken from [{lf}]; the {proto.upper()} layout is {hs_hdr} / {hs_hdr} / [{want_lf}]")
        ctx.check(not bad, "R13.3", (L, walker, w), f"{proto.upper()} record / handshake header arithmetic", "; ".join(bad),
                  desc=f"{proto}: record header {hdr}, length at {len_off}, handshake header {hs_hdr}; both unpack buffers have the exact format size")
    ctx.expect_instances("R13.3", 2)


def _r13_4(ctx):
    """Record reassembly, decided by interpreting the AST of get_client_hello / get_dtls_client_hello (mitmlint.pyint, `struct` trusted;
    generators are replayed lazily) over EVERY way of cutting a short synthetic handshake message into 1-3 TLS records, every byte
    prefix of each such stream, and streams with trailing records.  Bounded representative enumeration (message body of 7 bytes):
    the weakest kind of argument used here, it decides the clause only up to that bound."""
    import itertools
    import struct

    from ..pyint import Interp
    from ..pyint import Raised

    m = ctx.model
    ctx.func(L, "get_client_hello")
    ctx.func(L, "handshake_record_contents")
    body = bytes(range(0xA0, 0xA7))
    msg = b"\x01" + len(body).to_bytes(3, "big") + body

    def rec(b, typ=0x16):
        return bytes([typ, 3, 1]) + len(b).to_bytes(2, "big") + b

    def run(qual, data):
        it = Interp(m, trusted_modules={"struct": struct})
        try:
            return it.call(L, qual, data)
        except Raised as r:
            return f"<raises {r.name}>"

    where = (L, "get_client_hello", m.func(L, "get_client_hello"))
    bad = None
    n = 0
    cutsets = [()] + [(a,) for a in range(1, len(msg))] + [(a, b) for a, b in itertools.combinations(range(1, len(msg)), 2)]
    for cuts in cutsets:
        edges = (0, *cuts, len(msg))
        frags = [msg[a:b] for a, b in zip(edges, edges[1:])]
        stream = b"".join(rec(f) for f in frags)
        for tail, tname in ((b"", "none"), (rec(b"\x02\x00\x00\x01Z"), "next handshake record"), (rec(b"x", 0x17), "application-data record"), (b"\x16\x03", "partial header")):
            got = run("get_client_hello", stream + tail)
            n += 1
            if got != msg and bad is None:
                bad = (f"records {[len(f) for f in frags]} + trailing {tname}", got, msg)
        if len(cuts) <= 1:
            for k in range(len(stream)):
                got = run("get_client_hello", stream[:k])
                n += 1
                if got is not None and bad is None:
                    bad = (f"records {[len(f) for f in frags]}, only the first {k} of {len(stream)} bytes received", got, None)
    ctx.cells += n
    ctx.check(bad is None, "R13.4", where, "TLS ClientHello reassembly is independent of the record split",
              f"{bad[0] if bad else ''}: get_client_hello gives {bad[1]!r}, expected {bad[2]!r} - a valid hello split this way is never recognised (or an incomplete one is accepted)" if bad else "",
              desc=f"get_client_hello: {n} record splits / prefixes / tails of one message give the message exactly when it is complete")
    # malformed
    for data, what in ((rec(b""), "empty record"), (rec(msg, 0x17), "non-handshake record"), (b"\x16\x02\x00" + b"\x00\x05hello", "bad version")):
        got = run("get_client_hello", data)
        n += 1
        ctx.check(got == "<raises ValueError>", "R13.4", where, f"get_client_hello rejects: {what}", f"{what}: got {got!r} instead of ValueError", desc=f"{what} -> ValueError")
    # DTLS: one record (13-byte header) carrying one message (12-byte handshake header)
    ctx.func(L, "get_dtls_client_hello")
    dmsg = b"\x01" + len(body).to_bytes(3, "big") + b"\x00\x00" + b"\x00\x00\x00" + len(body).to_bytes(3, "big") + body
    drec = b"\x16\xfe\xfd" + b"\x00\x00" + b"\x00" * 6 + len(dmsg).to_bytes(2, "big") + dmsg
    dbad = None
    for k in range(len(drec) + 1):
        got = run("get_dtls_client_hello", drec[:k])
        want = dmsg if k == len(drec) else None
        ctx.cells += 1
        if got != want and dbad is None:
            dbad = (k, got, want)
    got = run("get_dtls_client_hello", drec + drec)
    if got != dmsg and dbad is None:
        dbad = ("two datagrams", got, dmsg)

    def dr(b):
        return b"\x16\xfe\xfd" + b"\x00\x00" + b"\x00" * 6 + len(b).to_bytes(2, "big") + b

    for cut in (13, 14, len(dmsg) - 1):  # the announced message is longer than what the first record carries
        got = run("get_dtls_client_hello", dr(dmsg[:cut]))
        ctx.cells += 1
        if got is not None and dbad is None:
            dbad = (f"one record with the first {cut} of {len(dmsg)} message bytes:", got, None)
    ctx.check(dbad is None, "R13.4", (L, "get_dtls_client_hello", m.func(L, "get_dtls_client_hello")), "DTLS ClientHello extraction on every prefix of a datagram",
              f"first {dbad[0]} bytes: got {dbad[1]!r}, expected {dbad[2]!r}" if dbad else "", desc=f"get_dtls_client_hello: {len(drec) + 2} prefixes: message exactly when complete")
    ctx.bounds.append("R13.4: one synthetic handshake message (7-byte body), all 1-3 record splits x 4 tails, all byte prefixes of the 1- and 2-record streams")
    ctx.expect_instances("R13.4", 5)


def check(ctx):
    ctx.rule("R13.4", "ClientHello record reassembly gives the message exactly when it is complete, for every record split / prefix / tail of a short message (bounded, AST interpretation)")
    ctx.rule("R13.1", "escape set of ClientHello parsing on untrusted bytes is handled at every call site; properties read afterwards raise nothing modelled")
    ctx.rule("R13.2", "parsing is a function of the concatenation: append-only buffer, whole-buffer parse, pure parsers")
    ctx.rule("R13.3", "record-walking arithmetic matches the TLS/DTLS layouts and every struct.unpack gets a buffer of exactly the format size")
    _r13_1(ctx)
    _r13_2(ctx)
    _r13_3(ctx)
    _r13_4(ctx)


MUTANTS = [
    Mutant("hello-size-read-only-from-a-long-record", L, "        client_hello += d\n        if len(client_hello) >= 4:\n            client_hello_size = struct.unpack(\"!I\", b\"\\x00\" + client_hello[1:4])[0] + 4\n",
           "        client_hello += d\n        if len(d) >= 4:\n            client_hello_size = struct.unpack(\"!I\", b\"\\x00\" + client_hello[1:4])[0] + 4\n", "R13.4"),
    Mutant("hello-complete-needs-one-more-byte", L, "            if len(client_hello) >= client_hello_size:\n                return client_hello[:client_hello_size]\n    return None\n\n\ndef parse_client_hello",
           "            if len(client_hello) > client_hello_size:\n                return client_hello[:client_hello_size]\n    return None\n\n\ndef parse_client_hello", "R13.4"),
    Mutant("dtls-hello-returned-before-complete", L, "            if len(client_hello) >= client_hello_size:\n                return client_hello[:client_hello_size]\n    return None\n\n\ndef dtls_parse_client_hello",
           "            if client_hello_size:\n                return client_hello[:client_hello_size]\n    return None\n\n\ndef dtls_parse_client_hello", "R13.4"),
    # R13.1
    Mutant("tls-wrapper-catches-wrong-type", L, "            return ClientHello(client_hello[4:])\n        except EOFError as e:", "            return ClientHello(client_hello[4:])\n        except IndexError as e:", "R13.1"),
    Mutant("dtls-wrapper-removed", L, "        try:\n            return ClientHello(client_hello[12:], dtls=True)\n        except EOFError as e:\n            raise ValueError(\"Invalid ClientHello\") from e\n",
           "        return ClientHello(client_hello[12:], dtls=True)\n", "R13.1"),
    Mutant("layer-handles-eoferror-only", L, "        except ValueError:\n            return False, f\"Cannot parse ClientHello", "        except EOFError:\n            return False, f\"Cannot parse ClientHello", "R13.1"),
    Mutant("nextlayer-tcp-handler-narrowed", NL, "                        ch = parse_client_hello(data_client)\n                    except ValueError:", "                        ch = parse_client_hello(data_client)\n                    except KeyError:", "R13.1"),
    Mutant("empty-record-raises-runtimeerror", L, "            raise ValueError(\"Record must not be empty.\")\n        offset += 5\n", "            raise RuntimeError(\"Record must not be empty.\")\n        offset += 5\n", "R13.1"),
    Mutant("sni-decoded-without-host-check", T, "                    and check.is_valid_host(extension.body.server_names[0].host_name)\n", "", "R13.1"),
    Mutant("sni-indexed-without-length-check", T, "                    and len(extension.body.server_names) == 1\n", "", "R13.1"),
    # R13.2
    Mutant("parses-only-the-new-segment", L, "                client_hello = parse_client_hello(self.recv_buffer)", "                client_hello = parse_client_hello(data)", "R13.2"),
    Mutant("buffer-cleared-when-incomplete", L, "        else:\n            return False, None\n\n        self.conn.sni", "        else:\n            self.recv_buffer.clear()\n            return False, None\n\n        self.conn.sni", "R13.2"),
    Mutant("buffer-replaced-instead-of-extended", L, "        self.recv_buffer.extend(data)\n        try:\n            if self.is_dtls:", "        self.recv_buffer = bytearray(data)\n        try:\n            if self.is_dtls:", "R13.2"),
    Mutant("walker-consumes-its-argument", L, "        yield record_body\n        offset += record_size\n\n\ndef get_client_hello", "        yield record_body\n        offset += record_size\n        del data[:offset]\n\n\ndef get_client_hello", "R13.2"),
    Mutant("nextlayer-sees-only-last-segment", NL, "                nextlayer.context,\n                nextlayer.data_client(),\n", "                nextlayer.context,\n                nextlayer.events[-1].data,\n", "R13.2"),
    # R13.3
    Mutant("tls-length-field-offset-wrong", L, "struct.unpack(\"!H\", record_header[3:])[0]", "struct.unpack(\"!H\", record_header[2:])[0]", "R13.3"),
    Mutant("tls-header-guard-one-short", L, "        if len(data) < offset + 5:\n            return\n", "        if len(data) < offset + 4:\n            return\n", "R13.3"),
    Mutant("tls-handshake-header-size-wrong", L, "b\"\\x00\" + client_hello[1:4])[0] + 4", "b\"\\x00\" + client_hello[1:4])[0] + 3", "R13.3"),
    Mutant("dtls-uses-total-length-field", L, "b\"\\x00\" + client_hello[9:12])[0] + 12", "b\"\\x00\" + client_hello[1:4])[0] + 12", "R13.3"),
    Mutant("tls-parser-strips-wrong-header", L, "return ClientHello(client_hello[4:])", "return ClientHello(client_hello[5:])", "R13.3"),
    Mutant("dtls-empty-record-accepted", L, "        if record_size == 0:\n            raise ValueError(\"Record must not be empty.\")\n        offset += 13\n", "        offset += 13\n", "R13.3"),
    Mutant("dtls-advances-by-tls-header", L, "        offset += 13\n", "        offset += 5\n", "R13.3"),
]
