"""C39 - stream saving writes each completed flow once and keeps open flows at shutdown.

Decided (structural clauses of addons/save.py::Save and io/io.py::FilteredFlowWriter):
  R39.1 hook registry: the completion hooks of every flow type (names derived from the hook classes the layers
        define) exist on Save and reach ``save_flow(flow)`` exactly once on every path - the plain-HTTP pair only
        for ``flow.websocket is None`` (a websocket flow is written at websocket_end, not at the 101 response);
        the start hooks add the flow to ``active_flows`` exactly when a stream is open; no other hook method of
        Save reaches a write to the stream.
  R39.2 ``save_flow``: no stream => nothing written; otherwise exactly one ``self.stream.add(flow)`` and the flow
        leaves ``active_flows`` on the success path (else ``done`` would write it a second time).  ``done``: every
        remaining active flow is added once, the set is cleared after the loop and the stream is dropped.
        ``FilteredFlowWriter.add`` writes exactly one record iff no filter is set or the filter matches.
  R39.3 ``configure``: a changed filter is parsed into ``self.filt`` (None when cleared) and installed on the
        live writer; clearing save_stream_file calls ``done()``; a rotated writer is created with ``self.filt``.
NOT decided: that the layers fire those hooks once per flow (C03/C29), flowfilter semantics, file-system behaviour,
rotation timing.  Narrowed from DESIGN R39.2: "rotate precedes add" and "the file is closed" are not armed - neither changes which
records are in the stream file (flush is decided by R37.1); only "no close before the remaining flows are written" is.
"""

from __future__ import annotations

import ast

from ..model import attr_chain
from ..model import last_attr
from ..selftest import Mutant
from ._helpers_E import aliases_of
from ._helpers_E import calls
from ._helpers_E import class_fields
from ._helpers_E import cond_facts
from ._helpers_E import fact
from ._helpers_E import fact_any
from ._helpers_E import feasible
from ._helpers_E import hook_classes
from ._helpers_E import hook_name
from ._helpers_E import methods
from ._helpers_E import params
from ._helpers_E import expect
from ._helpers_E import paths
from ._helpers_E import show

PROP = "C39"
REG = {
    "strength": "strong",
    "technique": "hook registry derived from the layers' hook classes + path enumeration (helpers inlined, branch conditions recorded) over Save and FilteredFlowWriter",
    "claim": "every completion hook of every flow type reaches save_flow exactly once (plain HTTP only when flow.websocket is None), "
    "start hooks register the flow iff a stream is open, no other hook writes; save_flow/done/FilteredFlowWriter.add write exactly one "
    "record per matching flow and keep active_flows consistent; configure installs filter changes on the live writer and stops via done().",
    "note": "Trusted: the addon manager invokes the Save method named like the hook; the layers fire each completion hook once per flow "
    "(C03, C29). Loops unrolled once.",
}

SAVE = "mitmproxy/addons/save.py"
IO = "mitmproxy/io/io.py"
L = "mitmproxy/proxy/layers/"
# flow type -> (file defining its hook classes, start hook classes, completion hook classes, other hooks carrying the flow)
REGISTRY = {
    "http": (L + "http/_hooks.py", ["HttpRequestHook"], ["HttpResponseHook", "HttpErrorHook"],
             ["HttpRequestHeadersHook", "HttpResponseHeadersHook", "HttpConnectHook", "HttpConnectUpstreamHook", "HttpConnectedHook", "HttpConnectErrorHook"]),
    "websocket": (L + "websocket.py", [], ["WebsocketEndHook"], ["WebsocketStartHook", "WebsocketMessageHook"]),
    "tcp": (L + "tcp.py", ["TcpStartHook"], ["TcpEndHook", "TcpErrorHook"], ["TcpMessageHook"]),
    "udp": (L + "udp.py", ["UdpStartHook"], ["UdpEndHook", "UdpErrorHook"], ["UdpMessageHook"]),
    "dns": (L + "dns.py", ["DnsRequestHook"], ["DnsResponseHook", "DnsErrorHook"], []),
}
LIFECYCLE = {"load", "configure", "done", "running", "update"}
WRITE = "self.stream.add"
SINK = "self.save_flow"


def _hooks(ctx):
    m = ctx.model
    start, completion, other = {}, {}, {}
    for typ, (rel, st, co, ot) in REGISTRY.items():
        defined = {c.name for c in hook_classes(m, rel) if "flow" in class_fields(c)}
        listed = set(st + co + ot)
        ctx.require(defined == listed, f"{rel}: flow-carrying hook classes changed: {sorted(defined ^ listed)} - classify them in C39.REGISTRY")
        for c in st:
            start[hook_name(m, rel, c)] = typ
        for c in co:
            completion[hook_name(m, rel, c)] = typ
        for c in ot:
            other[hook_name(m, rel, c)] = typ
    return start, completion, other


def check(ctx):
    ctx.rule("R39.1", "completion hooks reach save_flow(flow) exactly once (http only if flow.websocket is None); start hooks register iff a stream is open; no other hook writes")
    ctx.rule("R39.2", "save_flow / done / FilteredFlowWriter.add write exactly one record per matching flow and keep active_flows consistent")
    ctx.rule("R39.3", "configure installs a changed filter on the live writer and calls done() when the file option is cleared; rotated writers get self.filt")
    m = ctx.model
    save = m.cls(SAVE, "Save")
    meths = methods(save)
    start, completion, other = _hooks(ctx)
    ctx.trust("addonmanager dispatches a hook to the addon method of the same name")
    for name, fn in meths.items():
        al = aliases_of(fn, "self.stream") + aliases_of(fn, "self.active_flows") + aliases_of(fn, "self.save_flow")
        ctx.require(not al, f"Save.{name} aliases self.stream / self.active_flows / self.save_flow as {al}: writes through an alias are not modelled")

    def resolver(call):
        f = call.func
        if isinstance(f, ast.Attribute) and isinstance(f.value, ast.Name) and f.value.id == "self" and f.attr in meths and f.attr != "save_flow":
            return meths[f.attr]
        return None

    # flow pass-through: every call of one Save hook/sink from another hands over the caller's own flow parameter
    def passes_flow(name, fn):
        ok = True
        ps = params(fn)
        for c in [n for n in ast.walk(fn) if isinstance(n, ast.Call)]:
            f = c.func
            if isinstance(f, ast.Attribute) and attr_chain(f.value) == "self" and f.attr in meths and (f.attr == "save_flow" or f.attr in completion or f.attr in start):
                good = len(ps) == 1 and len(c.args) == 1 and not c.keywords and isinstance(c.args[0], ast.Name) and c.args[0].id == ps[0]
                if not good:
                    ok = False
                    ctx.fail("R39.1", (SAVE, f"Save.{name}", c), c, "the hook does not pass its own flow on: a different / no flow would be written")
        return ok

    # ---- R39.1 completion hooks
    for hname, typ in sorted(completion.items()):
        if hname not in meths:
            ctx.fail("R39.1", (SAVE, "Save", save), f"missing hook {hname}", f"{typ} flows completing with {hname} are never written")
            continue
        fn = ctx.func(SAVE, f"Save.{hname}")
        passes_flow(hname, fn)
        fp = params(fn)
        ctx.require(len(fp) == 1, f"Save.{hname} no longer takes exactly one flow parameter")
        ws = sorted({f"{p}.websocket" for f2 in meths.values() for p in params(f2)})  # same flow in every inlined hook (passes_flow)
        trs, eng = paths(fn, resolver=resolver, keep=lambda e: e[0] == "call" and e[1] in (SINK, WRITE))
        ctx.paths += len(trs)
        bad = False
        for t, how in trs:
            if fact(t, "self.stream") is False:
                continue  # save_flow is a no-op without a stream anyway
            n = len(calls(t, SINK))
            direct = len(calls(t, WRITE))
            if how != "return" or direct:
                want = None
            elif typ == "http":
                w = fact_any(t, ws)
                want = None if w is None else (0 if w else 1)
            else:
                want = 1
            if want is None or n != want:
                bad = True
                why = (
                    "writes to the stream directly instead of through save_flow" if direct
                    else "raises" if how != "return"
                    else f"reaches save_flow {n}x without deciding flow.websocket (a websocket flow would be written at the 101 response and again at websocket_end, or a plain flow never)" if want is None
                    else f"reaches save_flow {n}x, expected {want}x"
                )
                ctx.fail("R39.1", (SAVE, f"Save.{hname}", fn), f"{hname}: path [{show(t)}] save_flow x{n}", f"completion hook {hname} ({typ}): {why}")
        if not bad:
            ctx.ok("R39.1", f"completion {typ}:{hname} -> save_flow exactly once on {len(trs)} paths" + (" (only if flow.websocket is None)" if typ == "http" else ""))

    # ---- R39.1 start hooks
    for hname, typ in sorted(start.items()):
        if hname not in meths:
            ctx.fail("R39.1", (SAVE, "Save", save), f"missing hook {hname}", f"open {typ} flows are not registered, so they are lost when saving stops")
            continue
        fn = ctx.func(SAVE, f"Save.{hname}")
        passes_flow(hname, fn)
        fp = params(fn)
        ctx.require(len(fp) == 1, f"Save.{hname} no longer takes exactly one flow parameter")
        trs, eng = paths(fn, resolver=resolver, keep=lambda e: e[0] == "call" and (e[1] in (SINK, WRITE) or e[1].startswith("self.active_flows.")))
        ctx.paths += len(trs)
        bad = False
        for t, how in trs:
            adds = [c for c in calls(t, "self.active_flows.add")]
            others = [c for c in t if c[0] == "call" and c not in adds]
            s = fact(t, "self.stream")
            if s is True:
                good = len(adds) == 1 and adds[0][2] == (fp[0],) and not others and how == "return"
            elif s is False:
                good = not adds and not others
            else:
                good = False
            if not good:
                bad = True
                ctx.fail("R39.1", (SAVE, f"Save.{hname}", fn), f"{hname}: path [{show(t)}]",
                         f"start hook {hname} ({typ}) must add its flow to active_flows exactly when self.stream is set (stream fact on this path: {s})")
        if not bad:
            ctx.ok("R39.1", f"start {typ}:{hname} -> active_flows.add(flow) iff self.stream")

    # ---- R39.1 no other hook method writes
    for hname in sorted(meths):
        if hname in completion or hname in start or hname in ("save_flow", "done", "configure"):
            continue
        is_hook = hname in other or hname in LIFECYCLE
        fn = meths[hname]
        trs, eng = paths(fn, resolver=resolver, keep=lambda e: e[0] == "call" and e[1] in (SINK, WRITE), record_conds=False)
        ctx.paths += len(trs)
        writes = any(calls(t, SINK) or calls(t, WRITE) for t, _ in trs)
        if not writes:
            ctx.ok("R39.1", f"Save.{hname} never reaches save_flow / stream.add")
        elif is_hook or not hname.startswith("_"):
            ctx.fail("R39.1", (SAVE, f"Save.{hname}", fn), f"{hname} reaches a stream write",
                     "a method that is not a completion hook writes a record: a flow is written before its completion / more than once")
        # private helpers (leading underscore) are reached only through the hooks above, where they are inlined

    # ---- R39.2 save_flow
    sf = ctx.func(SAVE, "Save.save_flow")
    fp = params(sf)
    ctx.require(len(fp) == 1, "Save.save_flow no longer takes exactly one flow parameter")
    keep = lambda e: e[0] in ("call", "assign") and (e[1] in (WRITE, "self.stream", "self.active_flows") or e[1].startswith("self.active_flows.") or e[1].endswith(".close"))
    trs, eng = paths(sf, keep=keep)
    ctx.paths += len(trs)
    bad = False
    seen_ok = 0
    for t, how in trs:
        w = calls(t, WRITE)
        s0 = next((p for p in (fact(t[: i + 1], "self.stream") for i in range(len(t))) if p is not None), None)
        excepted = any(e[0] == "except" for e in t)
        if s0 is False:
            good, why = not w, "writes although no stream is open"
        elif s0 is None:
            good, why = not w, "writes without having checked that a stream is open"
        elif excepted or how != "return":
            good, why = True, ""  # write failed: the addon terminates the process (not a C39 observable)
        else:
            rm = [c for c in t if c[0] == "call" and c[1] in ("self.active_flows.discard", "self.active_flows.remove") and c[2] == (fp[0],)]
            good = len(w) == 1 and w[0][2] == (fp[0],) and len(rm) >= 1
            why = f"stream.add x{len(w)} {[c[2] for c in w]}, active_flows.discard(flow) x{len(rm)} on the success path (exactly one record, and the flow must leave active_flows or done() writes it again)"
            seen_ok += good
        if not good:
            bad = True
            ctx.fail("R39.2", (SAVE, "Save.save_flow", sf), f"save_flow: path [{show(t)}]", why)
    ctx.require(bad or seen_ok >= 1, "save_flow has no success path with an open stream")
    if not bad:
        ctx.ok("R39.2", f"save_flow: {len(trs)} paths, success path adds once and discards")

    # ---- R39.2 done
    dn = ctx.func(SAVE, "Save.done")
    loops = [n for n in ast.walk(dn) if isinstance(n, (ast.For, ast.While))]
    it = None
    if len(loops) == 1 and isinstance(loops[0], ast.For) and isinstance(loops[0].target, ast.Name):
        e = loops[0].iter
        if isinstance(e, ast.Call) and isinstance(e.func, ast.Name) and e.func.id in ("list", "tuple", "sorted", "set", "frozenset") and len(e.args) == 1:
            e = e.args[0]
        if attr_chain(e) == "self.active_flows":
            it = loops[0]
    if it is None:
        ctx.require(len(loops) <= 1, "Save.done has several loops: shape not modelled")
        ctx.fail("R39.2", (SAVE, "Save.done", dn), "done: no loop over self.active_flows", "flows still open when saving stops are not written")
    else:
        var = it.target.id
        trs, eng = paths(dn, keep=keep)
        ctx.paths += len(trs)
        bad = False
        iterated = 0
        for t, how in trs:
            if fact(t[: max(1, next((i for i, e in enumerate(t) if e[0] != "cond"), len(t)))], "self.stream") is not True:
                if calls(t, WRITE):
                    bad = True
                    ctx.fail("R39.2", (SAVE, "Save.done", dn), f"done: path [{show(t)}]", "writes without an open stream")
                continue
            enter = [i for i, e in enumerate(t) if e[0] == "loop" and e[2] is True]
            leave = [i for i, e in enumerate(t) if e[0] == "loop" and e[2] is False]
            probs = []
            if how != "return" or not leave:
                probs.append("does not finish normally")
            else:
                end = leave[-1]
                inside = [e for e in t[enter[0]:end]] if enter else []
                w_in = calls(inside, WRITE)
                w_all = calls(t, WRITE)
                if enter:
                    iterated += 1
                    if len(w_in) != len(enter) or any(c[2] != (var,) for c in w_in):
                        probs.append(f"an iteration adds {[c[2] for c in w_in]} instead of the loop's flow exactly once")
                if len(w_all) != len(w_in):
                    probs.append("writes outside the loop over active_flows")
                cleared = [i for i, e in enumerate(t) if (e[0] == "call" and e[1] == "self.active_flows.clear") or (e[0] == "assign" and e[1] == "self.active_flows")]
                if not cleared or cleared[-1] < end or any(i < end for i in cleared):
                    probs.append("active_flows is not cleared after (and only after) the loop: flows would be lost or written again at the next stop")
                if any(e[0] == "call" and e[1].endswith(".close") for e in t[:end]):
                    probs.append("the stream file is closed before the remaining flows are written")
                dropped = [i for i, e in enumerate(t) if e[0] == "assign" and e[1] == "self.stream" and e[2] == "None"]
                if not dropped or dropped[-1] < end or any(i < end for i in dropped):
                    probs.append("self.stream is not reset to None after the loop: completions after the stop would still be written")
            for p in probs:
                bad = True
                ctx.fail("R39.2", (SAVE, "Save.done", dn), f"done: path [{show(t, 14)}]", p)
        ctx.require(bad or iterated >= 1, "Save.done: no path iterates over active_flows")
        if not bad:
            ctx.ok("R39.2", f"done: {len(trs)} paths; each active flow added once, set cleared, stream dropped")

    # ---- R39.2 FilteredFlowWriter.add
    add = ctx.func(IO, "FilteredFlowWriter.add")
    fp = params(add)
    ctx.require(len(fp) == 1, "FilteredFlowWriter.add no longer takes exactly one flow parameter")
    ctx.require(not aliases_of(add, "self.flt"), "FilteredFlowWriter.add aliases self.flt")

    def is_match(x):
        if isinstance(x, ast.Call) and last_attr(x.func) == "match" and len(x.args) == 2:
            return attr_chain(x.args[0]) == "self.flt" and isinstance(x.args[1], ast.Name) and x.args[1].id == fp[0]
        if isinstance(x, ast.Call) and attr_chain(x.func) == "self.flt" and len(x.args) == 1:
            return isinstance(x.args[0], ast.Name) and x.args[0].id == fp[0]
        return False

    trs, eng = paths(add, keep=lambda e: e[0] == "call" and (e[1].endswith("dump") or e[1].endswith(".write")))
    ctx.paths += len(trs)
    bad = False
    for t, how in trs:
        if how != "return":
            continue
        dumps = [c for c in t if c[0] == "call"]
        flt = fact(t, "self.flt")
        mt = cond_facts(t, is_match)
        passes = flt is False or (mt and mt[-1] is True)
        blocked = flt is True and mt and mt[-1] is False
        if passes:
            good, why = len(dumps) == 1, f"a flow passing the filter is written {len(dumps)}x instead of once"
        elif blocked:
            good, why = not dumps, "a flow rejected by the filter is written"
        else:
            good, why = not dumps, "a record is written on a path that has not decided the filter"
            if good:
                continue
        if not good:
            bad = True
            ctx.fail("R39.2", (IO, "FilteredFlowWriter.add", add), f"add: path [{show(t)}]", why)
    outcomes = {(fact(t, "self.flt"), tuple(cond_facts(t, is_match))) for t, _ in trs}
    ctx.require(bad or ((False, ()) in outcomes and (True, (True,)) in outcomes and (True, (False,)) in outcomes),
                f"FilteredFlowWriter.add: filter decision not recognised (accepted: self.flt truthiness and flowfilter.match(self.flt, f)); saw {sorted(map(str, outcomes))}")
    if not bad:
        ctx.ok("R39.2", f"FilteredFlowWriter.add: {len(trs)} paths; one record iff no filter or filter matches")

    # ---- R39.3 configure
    cf = ctx.func(SAVE, "Save.configure")
    up = params(cf)
    ctx.require(len(up) == 1, "Save.configure signature changed")
    up = up[0]

    def updated(t, opt):
        v = [e[2] for e in t if e[0] == "cond" and e[1] in (f"'{opt}' in {up}", f'"{opt}" in {up}')]
        return v[-1] if v else None

    def opt_fact(t, opt):
        return fact(t, f"ctx.options.{opt}")

    kp = lambda e: (e[0] == "call" and e[1] in ("self.done", "flowfilter.parse", WRITE)) or (e[0] == "assign" and e[1] in ("self.filt", "self.stream.flt"))
    trs, eng = paths(cf, keep=kp)
    ctx.paths += len(trs)
    bad = False
    n_install = n_done = n_parse = n_clear = 0
    for t, how in trs:
        if how != "return":
            continue  # OptionsError: the option change is rejected
        if not feasible(t, lambda x: x.endswith(f" in {up}") or x.startswith("ctx.options.")):
            continue
        uf, us = updated(t, "save_stream_filter"), updated(t, "save_stream_file")
        ctx.require(uf is not None, f"configure: a path does not test 'save_stream_filter' in {up}: [{show(t)}]")
        filt_assign = [i for i, e in enumerate(t) if e[0] == "assign" and e[1] == "self.filt"]
        probs = []
        if uf:
            of = opt_fact(t, "save_stream_filter")
            if of is True:
                n_parse += 1
                ok = filt_assign and t[filt_assign[-1]][2].startswith("flowfilter.parse(ctx.options.save_stream_filter")
                if not ok:
                    probs.append("a changed save_stream_filter is not parsed into self.filt")
            elif of is False:
                n_clear += 1
                if not (filt_assign and t[filt_assign[-1]][2] == "None"):
                    probs.append("a cleared save_stream_filter does not reset self.filt to None")
            else:
                probs.append("self.filt is updated without looking at the option value")
        file_set = opt_fact(t, "save_stream_file")
        if uf or us:
            if file_set is True and uf:
                n_install += 1
                inst = [i for i, e in enumerate(t) if e[0] == "assign" and e[1] == "self.stream.flt" and e[2] == "self.filt"]
                if not inst or (filt_assign and inst[-1] < filt_assign[-1]):
                    probs.append("the changed filter is not installed on the live writer (self.stream.flt = self.filt after self.filt is updated)")
            elif file_set is False:
                n_done += 1
                if not calls(t, "self.done"):
                    probs.append("save_stream_file was cleared but done() is not called: open flows are lost and later completions still written")
            elif file_set is None:
                probs.append("file/filter option changed but the path never looks at ctx.options.save_stream_file")
        for p in probs:
            bad = True
            ctx.fail("R39.3", (SAVE, "Save.configure", cf), f"configure: path [{show(t, 12)}]", p)
    ctx.require(bad or (n_install and n_done and n_parse and n_clear), f"configure: expected path classes not found (install={n_install}, done={n_done}, parse={n_parse}, clear={n_clear})")
    if not bad:
        ctx.ok("R39.3", f"configure: {len(trs)} paths; filter parsed/cleared, installed on the live writer, done() on clear")

    rot = ctx.func(SAVE, "Save.maybe_rotate_to_new_file")
    ctors = [c for c in ast.walk(rot) if isinstance(c, ast.Call) and last_attr(c.func) == "FilteredFlowWriter"]
    ctx.require(ctors, "maybe_rotate_to_new_file no longer constructs a FilteredFlowWriter")
    init = ctx.func(IO, "FilteredFlowWriter.__init__")
    ip = params(init)
    ctx.require(len(ip) == 2 and any(isinstance(s, ast.Assign) and attr_chain(s.targets[0]) == "self.flt" and attr_chain(s.value) == ip[1] for s in init.body),
                "FilteredFlowWriter.__init__(fo, flt) no longer stores its second parameter in self.flt")
    for c in ctors:
        arg = c.args[1] if len(c.args) > 1 else next((k.value for k in c.keywords if k.arg == ip[1]), None)
        ctx.check(arg is not None and attr_chain(arg) == "self.filt", "R39.3", (SAVE, "Save.maybe_rotate_to_new_file", c), c,
                  "a rotated stream writer is created without the current filter: non-matching flows are written after rotation",
                  desc="rotated writer gets self.filt")
    # all writers of self.stream / self.filt are the methods analysed above
    for name, fn in meths.items():
        for n in ast.walk(fn):
            tg = []
            if isinstance(n, ast.Assign):
                tg = n.targets
            elif isinstance(n, (ast.AugAssign, ast.AnnAssign)):
                tg = [n.target]
            for t in tg:
                ch = attr_chain(t)
                if ch in ("self.stream", "self.filt", "self.stream.flt", "self.active_flows"):
                    allowed = {"self.stream": {"__init__", "maybe_rotate_to_new_file", "done"}, "self.filt": {"__init__", "configure"},
                               "self.stream.flt": {"configure"}, "self.active_flows": {"__init__", "done"}}[ch]
                    ctx.require(name in allowed, f"Save.{name} assigns {ch}: writer not modelled by C39")

    expect(ctx, "R39.1", 9 + 4 + 4)
    expect(ctx, "R39.2", 3)
    expect(ctx, "R39.3", 2)


MUTANTS = [
    Mutant("response-ignores-websocket", SAVE, "        if flow.websocket is None:\n            self.save_flow(flow)\n", "        self.save_flow(flow)\n", "R39.1"),
    Mutant("response-websocket-inverted", SAVE, "        if flow.websocket is None:\n            self.save_flow(flow)\n", "        if flow.websocket is not None:\n            self.save_flow(flow)\n", "R39.1"),
    Mutant("tcp-error-not-saved", SAVE, "    def tcp_error(self, flow: tcp.TCPFlow):\n        self.tcp_end(flow)\n", "    def tcp_error(self, flow: tcp.TCPFlow):\n        pass\n", "R39.1"),
    Mutant("dns-error-saved-twice", SAVE, "    def dns_error(self, flow: dns.DNSFlow):\n        self.save_flow(flow)\n", "    def dns_error(self, flow: dns.DNSFlow):\n        self.save_flow(flow)\n        self.dns_response(flow)\n", "R39.1"),
    Mutant("udp-error-hook-removed", SAVE, "    def udp_error(self, flow: udp.UDPFlow):\n        self.udp_end(flow)\n", "", "R39.1"),
    Mutant("request-not-registered", SAVE, "    def request(self, flow: http.HTTPFlow):\n        if self.stream:\n            self.active_flows.add(flow)\n", "    def request(self, flow: http.HTTPFlow):\n        pass\n", "R39.1"),
    Mutant("dns-request-registers-without-stream", SAVE, "    def dns_request(self, flow: dns.DNSFlow):\n        if self.stream:\n            self.active_flows.add(flow)\n", "    def dns_request(self, flow: dns.DNSFlow):\n        self.active_flows.add(flow)\n", "R39.1"),
    Mutant("websocket-message-writes", SAVE, "    def websocket_end(self, flow: http.HTTPFlow):\n", "    def websocket_message(self, flow: http.HTTPFlow):\n        self.save_flow(flow)\n\n    def websocket_end(self, flow: http.HTTPFlow):\n", "R39.1"),
    Mutant("save-flow-keeps-active", SAVE, "        else:\n            self.active_flows.discard(flow)\n", "        else:\n            pass\n", "R39.2"),
    Mutant("save-flow-no-stream-check", SAVE, "        if not self.stream:\n            return\n        try:\n", "        try:\n", "R39.2"),
    Mutant("done-does-not-clear", SAVE, "            self.active_flows.clear()\n\n", "\n", "R39.2"),
    Mutant("done-clears-before-writing", SAVE, "            for f in self.active_flows:\n                self.stream.add(f)\n            self.active_flows.clear()\n", "            self.active_flows.clear()\n            for f in self.active_flows:\n                self.stream.add(f)\n", "R39.2"),
    Mutant("done-keeps-stream", SAVE, "            self.stream.fo.close()\n            self.stream = None\n\n    @command", "            self.stream.fo.close()\n\n    @command", "R39.2"),
    Mutant("done-closes-before-writing", SAVE, "            for f in self.active_flows:\n                self.stream.add(f)\n            self.active_flows.clear()\n\n            self.current_path = None\n            self.stream.fo.close()\n",
           "            self.stream.fo.close()\n            for f in self.active_flows:\n                self.stream.add(f)\n            self.active_flows.clear()\n\n            self.current_path = None\n", "R39.2"),
    Mutant("done-skips-open-flows", SAVE, "            for f in self.active_flows:\n                self.stream.add(f)\n", "", "R39.2"),
    Mutant("filter-inverted", IO, "        if self.flt and not flowfilter.match(self.flt, f):\n            return\n        d = f.get_state()\n        tnetstring.dump(d, self.fo)\n        self.fo.flush()",
           "        if self.flt and flowfilter.match(self.flt, f):\n            return\n        d = f.get_state()\n        tnetstring.dump(d, self.fo)\n        self.fo.flush()", "R39.2"),
    Mutant("filter-ignored", IO, "        if self.flt and not flowfilter.match(self.flt, f):\n            return\n        d = f.get_state()\n        tnetstring.dump(d, self.fo)\n        self.fo.flush()",
           "        d = f.get_state()\n        tnetstring.dump(d, self.fo)\n        self.fo.flush()", "R39.2"),
    Mutant("configure-filter-not-installed", SAVE, "                assert self.stream\n                self.stream.flt = self.filt\n", "                assert self.stream\n", "R39.3"),
    Mutant("configure-no-done-on-clear", SAVE, "            else:\n                self.done()\n", "            else:\n                pass\n", "R39.3"),
    Mutant("configure-filter-not-cleared", SAVE, "            else:\n                self.filt = None\n", "            else:\n                pass\n", "R39.3"),
    Mutant("rotated-writer-without-filter", SAVE, "io.FilteredFlowWriter(f, self.filt)", "io.FilteredFlowWriter(f, None)", "R39.3"),
]
